CHECKS = [
    {
        "property_id": "C11",
        "design_ref": "DESIGN.md section 3, C11",
        "technique": "static analysis: visitor-completeness over the interpreter's grammar tables, guard dominance on a CFG, who-may-eval",
        "text": "Decides structurally, for every expression tree at once: (D1) every node kind the visitor can accept has all of its child fields visited or constrained on every accepting path, generic_visit tests the whitelist before recursing; (D2) whitelist, callable table and evaluation environment are within the documented table; (D3) compile/eval are dominated by the validation of the same tree, a rejection cannot be swallowed, eval/exec occur only at frozen sites. Together with the stated assumptions this is the whole property (no runtime clause left).",
        "note": "Assumes stdlib ast.NodeVisitor dispatch/generic_visit semantics and that CPython resolves globals only through Name nodes. Does not decide resource exhaustion by accepted expressions.",
    },
]
_TODO = "check not built yet in this session (planned: DESIGN.md section 3); not claimed until its rules run clean and fire on their variants"
NOT_APPLICABLE = [
    {"property_id": f"C{i:02d}", "reason": _TODO}
    for i in range(1, 19)
    if f"C{i:02d}" not in {c["property_id"] for c in CHECKS}
]
