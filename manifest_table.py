CHECKS = [
    {
        "property_id": "C11",
        "design_ref": "DESIGN.md section 3, C11",
        "technique": "static analysis: visitor-completeness over the interpreter's grammar tables, guard dominance on a CFG, who-may-eval",
        "text": "Decides structurally, for every expression tree at once: (D1) every node kind the visitor can accept has all of its child fields visited or constrained on every accepting path, generic_visit tests the whitelist before recursing; (D2) whitelist, callable table and evaluation environment are within the documented table; (D3) compile/eval are dominated by the validation of the same tree, a rejection cannot be swallowed, eval/exec occur only at frozen sites. Together with the stated assumptions this is the whole property (no runtime clause left).",
        "note": "Assumes stdlib ast.NodeVisitor dispatch/generic_visit semantics and that CPython resolves globals only through Name nodes. Does not decide resource exhaustion by accepted expressions.",
    },
    {
        "property_id": "C12",
        "design_ref": "DESIGN.md section 3, C12",
        "technique": "static analysis: structural rules on the normaliser (operator set, guard-dominated flattening on a CFG, multiset-preservation dataflow, no other reordering, injective dump)",
        "text": "Decides that the normaliser identifies only trees equal modulo associativity/commutativity of + and *: only Add/Mult select the flatten path; an operand enters the operand list only on a branch where it is not a same-operator BinOp (complete flattening, same operator only); every collected operand is normalised, sorted by its full position-free dump and refolded exactly once (no set/dict/filter/slice on the way); nothing else is sorted, constructed or rewritten; the signature is the position-free dump of the whole normalised tree. With the stated arithmetic assumption this gives both directions of the property; no expression is evaluated.",
        "note": "Assumes + and * are associative/commutative over numbers in exact arithmetic and no other operator of the grammar is; ast.dump(include_attributes=False) injective modulo positions. Non-numeric operands are outside the statement.",
    },
    {
        "property_id": "C14",
        "design_ref": "DESIGN.md section 3, C14",
        "technique": "static analysis: lockset discipline with implicit-insert modelling, entry-stability (no removal while a publisher holds an entry), check-then-act atomicity, occurrence counting on a CFG, guard dominance for routing",
        "text": "Decides for every schedule at once the structural conditions of exactly-once, in-order delivery: inserting accesses to the shared channel map (incl. defaultdict misses) hold the map lock; the map is iterated over a snapshot; entries are never removed/replaced while a publisher may hold them; subscriptions alias the live map; consumer test+pop are one critical section under the channel's own lock; opposite deque ends; each popped message is yielded exactly once and only popped messages are yielded; pop and yield are dominated by fnmatch(channel, pattern).",
        "note": "Assumes GIL atomicity of single dict/deque C calls and that a defaultdict miss runs its Python factory non-atomically. Liveness is not decided. No thread is ever run.",
    },
    {
        "property_id": "C15",
        "design_ref": "DESIGN.md section 3, C15",
        "technique": "static analysis: must-pass-through on a CFG with exception edges (status publish on every exit of the job body, helper summarised one level), occurrence counting for resolve-once, ordering, writer/reader key and polarity agreement, def-use of per-job values; transport lockset rules re-applied",
        "text": "Decides for every batch/schedule: every way of leaving a picked-up job's iteration passes a jobs.<job_id>.status publish for that message's id; the master completes a pending future exactly once (set_result xor set_exception) under the membership guard and removes the entry; a failure path exists whose marker test is true for every value a worker failure can write and false for successes; the future is registered before the job is queued; job id, channel templates and metadata/context keys agree hop by hop and the payload/pipeline executed come from this message only; the in-memory transport rules of C14 (the hand-over mechanism the anchors name) hold.",
        "note": "Assumes logger calls and the failure handlers themselves do not raise before publishing, uuid4 uniqueness, and CPython atomicity as in C14. Does not decide equality of the delivered result with a direct run.",
    },
    {
        "property_id": "C06",
        "design_ref": "DESIGN.md section 3, C06",
        "technique": "static analysis: CFG of execute() with Exception/BaseException edges and inlined finally, occurrence counting ({0,1,many}) of driver calls per exit kind under the folded assumption 'trace present', writer/schema table agreement, JSON-safety of emitted leaves, def-use of ids",
        "text": "Decides for every pipeline, failure point and failure class at once: after pipeline_start every exit of execute passes exactly one pipeline_end (ok iff return; error ends re-raise), then one flush and one close; from the statement that runs a node, exactly one SER on every path (succeeded on fall-through, error on Exception- and BaseException-class paths) and the exception is re-raised bare; SER/pipeline_end ids derive from those given to pipeline_start, node ids follow canonical order, upstream lists are the inverted canonical edges; driver record literals contain every schema-required key with matching consts/enums and the registry maps each emitted type to an existing schema; values reaching pipeline_start are JSON-safe by construction; one JSON line per record.",
        "note": "Assumes driver methods do not raise, BaseException only at call sites, and (for the per-node rule) that only node execution, explicit raise and _publish are failure points. Content validity of free-form fields and disk faults are not decided.",
    },
    {
        "property_id": "C17",
        "design_ref": "DESIGN.md section 3, C17",
        "technique": "static analysis: dominators / guard dominance on the CFG of cli._run (gates before every executing call), reaching-definitions for flag attachment, exit-code table agreement, must-pass-through for failure exits; C02-D2 rule re-applied",
        "text": "Decides for every configuration and flag combination: each executing call of _run (pipeline.process, run-space emit_start/emit_end) is dominated by successful parse, inspection, validation and run-space expansion and by the false branches of --validate, missing keys, run-space dry_run and --dry-run; a failing gate reaches no executing call and exits non-zero with the documented code; CLI flag values are written into mappings attached to the configuration that is parsed; EXIT_* constants and class->code mapping are the documented ones; exit_code becomes non-zero exactly in the run-loop handlers and a failing run leaves the loop; the required-key set feeding the missing-key gate is order-sensitive.",
        "note": "Assumes Pipeline/trace-driver construction executes no node and opens no file, print/logger do not raise. Does not run the CLI; the accuracy of inspection beyond the order-sensitivity rule is C02's.",
    },
    {
        "property_id": "C09",
        "design_ref": "DESIGN.md section 3, C09",
        "technique": "static analysis: sibling normal-form comparison of the two RSCF normalisers, argument provenance, occurrence counting of emit_end per exit on the CFG of cli._run, def-use/freshness of per-run context and metadata, ownership (freshness-tree) analysis of the canonical spec in execute, launch-id input coverage",
        "text": "Decides the structural conditions of the launch property: inspection and runtime normalise and hash the same representation of the run-space block with the same options/prefix; after emit_start every exit passes exactly one emit_end with planned = len(runs) and completed = a counter incremented once per iteration after process returned, status set on failure; each run's context is a fresh mapping built in the loop from the shared --context plus that run's values, metadata carries a copy, the 0-based index and the launch FK and is cleared after the run; execute forwards the four linkage fields and never mutates the caller-owned canonical spec; explicit / idempotent / generated launch ids use exactly their documented inputs; inputs id covers spec id and every file digest.",
        "note": "Assumes yaml.safe_load/asdict determinism and that emitter/driver calls do not raise. 'Run i equals a standalone run' is not decided (needs execution); only the no-leak conditions are.",
    },
    {
        "property_id": "C13",
        "design_ref": "DESIGN.md section 3, C13",
        "technique": "static analysis: classification of every store of the ingest methods into commutative merge forms, truth-table extraction of the verdict if/elif chains over their boolean atoms, set-difference direction and guard checks",
        "text": "Decides order-independence structurally: every attribute/subscript store of the five _ingest_* methods is create-if-absent (aggregate constructed from its key only), flag, min/max with None alternative, set add, counter, assign-if-present from a unique-per-key record, or last-writer from a SER; verdict list fields are sorted, finalisation writes only idempotent min/max fall-backs; the run and launch verdict chains are expanded to full truth tables (8 and 32 rows) and agree with the documented table on all rows a trace prefix can produce; problems name exactly the missing edge; missing = expected - observed and orphan = observed - expected are computed whenever the canonical spec is known; roll-up counts every run's own verdict.",
        "note": "Assumes the producer invariant (at most one lifecycle record per key, one SER per started node - C06/C09 structurally) under which unique-per-key and last-writer stores commute. That real prefixes produce these atoms is not decided here.",
    },
    {
        "property_id": "C08",
        "design_ref": "DESIGN.md section 3, C08",
        "technique": "static analysis: order provenance (sorted / declaration / product order) by def-use, guard dominance of rejection tests on a CFG, bounded-materialisation rule (every product-sized construction dominated by a len()-only cap test)",
        "text": "Decides: keys come from one sorted() definition feeding both modes, blocks in declaration order, products via itertools.product in that order, source fastest inside a combinatorial block; each duplicate / missing-column / length-mismatch guard raises the configuration error and dominates what it protects; the neutral [{}] stands in only for an absent side; every statement that materialises something of product size is dominated by a `size > spec.max_runs` test on a size computed from len()s, raising the max-runs error with its payload; only the two documented exception classes are raised. Four sites where a block is materialised before any cap test are recorded as known finding F-C08 (genuine defect, not repaired).",
        "note": "Assumes itertools.product's enumeration order and file-order parsing. File contents / coercion values and measured memory are not decided.",
    },
    {
        "property_id": "C07",
        "design_ref": "DESIGN.md section 3, C07",
        "technique": "static analysis: taint from clock reads to Z-labelled timestamp sinks, sibling agreement of the SER provenance reconstruction with the run-time precedence chain, polarity/def-use of the built-in checks, set-difference direction of the delta, one-producer rule for digests",
        "text": "Decides: every Z-labelled time string is produced from a UTC-anchored clock read and SER timing / lifecycle timestamps come from those producers; parameter provenance is labelled node, then context over all processing parameter names present in the pre-node snapshot, then the processor's declared default, later steps never overwriting earlier ones; checks report PASS exactly when their condition holds and are fed the right snapshot/data/type; created = post - pre, updated = changed common keys (sorted), pre snapshot before and post snapshot after the node, snapshots are copies; data/context digests come from one helper applied to the value of that call and are never copied between entries; durations are end - start; processor.ref is the class of the processor object of the node that ran.",
        "note": "Assumes UTC clock primitives are truthful and serialisation is content-determined for framework types. Parameter values for arbitrary processors and wall-clock steps are not decided.",
    },
    {
        "property_id": "C10",
        "design_ref": "DESIGN.md section 3, C10",
        "technique": "static analysis: effect analysis of trace-only regions (rebinding / mutation sites on run state), interprocedural exception-containment of hooks on live objects, consumption rule for one-shot iterables, JSON-safety of uncontained serialisation sinks, accumulating-state scan, guard dominance of driver calls, ownership analysis of the canonical spec",
        "text": "Decides the structural sources of traced/untraced divergence and of non-volatile trace differences: trace-only blocks of execute neither rebind nor mutate data/context/payload/nodes and trace helpers do not mutate their live arguments; every hand-over of a live object to overridable code in the trace path is contained by a try (directly or at all callers) and no trace code consumes an object not known to be re-iterable; uncontained serialisation sinks in SER construction receive only the sanitised preprocessor metadata whose leaves are JSON-safe; orchestrators keep no accumulating instance/module state feeding records; every driver call is dominated by a presence test; the caller-owned canonical spec is never mutated.",
        "note": "Payload classes with side-effecting hooks are outside static reach (the framework does not cause the difference). assertions.environment is classified as environment. Byte equality of traces is not decided.",
    },
    {
        "property_id": "C18",
        "design_ref": "DESIGN.md section 3, C18",
        "technique": "static analysis: who-may-accumulate scan over module-, class- and instance-level containers with growing mutation sites against a frozen table of bounded registries, weak-container rule for the component registry, stdlib process-registrar / unbounded-cache scan, publish/subscribe pairing",
        "text": "Decides the structural sources of per-run growth: the metaclass inserts component classes into a weak container and the registry getter returns a snapshot; the module- and class-level containers that any function grows are exactly the eleven frozen registries whose insertion is keyed by a configuration-determined name or guarded by membership; no weakref.finalize / atexit / unbounded memo is fed at run time; orchestrators, Pipeline, transports, drivers, executors and emitters grow no instance container per run beyond two frozen, released ones; every transport.publish has a subscriber pattern that can consume it. One site (local orchestrator publishing node outputs nobody consumes) is recorded as known finding F-C18b.",
        "note": "Assumes the garbage collector reclaims unreferenced classes/objects and that registration-time names are configuration-determined. Measured gc counts are not decided.",
    },
    {
        "property_id": "C04",
        "design_ref": "DESIGN.md section 3, C04",
        "technique": "static analysis: purity scan of the identity slice (ambient-source table), key-order provenance of everything hashed (sort_keys / sorted-key normalisers / list order kinds), ownership (freshness-tree) analysis against in-place mutation of hashed inputs, who-may-hash and same-function agreement between inspection and run time, C12 normaliser rules",
        "text": "Decides: no function of the identity slice (24 functions) reads a clock, random source, process/host/environment value, object address or salted hash, and no volatile per-run value is hashed into an id; every json.dumps feeding a hash sorts keys or receives a sorted-key normal form, no hashed list inherits mapping/set order, config pairs and required keys are sorted; execute()/inspection never mutate an object reachable from a caller-owned identity input (copies are fresh down to the mutated level); inspection and run time call the same id functions on canonical nodes enriched with the same metadata, each id prefix is produced in one function; the +/* normaliser satisfies the C12 rules.",
        "note": "YAML-text level equivalences are yaml.safe_load's (trusted). Cross-process equality is decided only through the absence of ambient and hash-seed dependent constructs.",
    },
    {
        "property_id": "C05",
        "design_ref": "DESIGN.md section 3, C05",
        "technique": "static analysis: field-sensitive coverage of hash inputs (which configuration fields reach which id), def-use of processor_ref, agreement of the metadata object used on both paths, dataclass-field vs signature-key comparison",
        "text": "Decides sensitivity as reachability: the canonical node carries role, processor_ref, full-depth params, ports and the enumerate() declaration index and is hashed whole into the node uuid; the node semantic id hashes the whole sweep metadata minus exactly the UI-only keys; the pipeline semantic id covers node uuid and node semantic id of every node in order; config id covers every pair; pipeline id the whole graph; the sweep metadata carries element_ref, expression signatures, variable domains (every RangeSpec field; count and full digest of sequences; from_context key), mode, broadcast, collection, dependencies in all three generated variants; string processor references are hashed as written; the same metadata enriches canonical nodes on both paths.",
        "note": "Assumes sha256/uuid5/json.dumps(sort_keys) injectivity. Equality of expression values is C12's.",
    },
    {
        "property_id": "C01",
        "design_ref": "DESIGN.md section 3, C01",
        "technique": "static analysis: first-match chain extraction of the resolver, who-may-resolve and def-use of node configuration, guard dominance (type gate, declared-key membership) on CFGs, must-pass-through for the probe's keyed write, loop-carried dependence in execute, template checks of slicers / shorthands / IO adapters",
        "text": "Decides the mechanisms the semantics rest on, each a necessary condition: every node resolves parameters only through resolve_runtime_value on its own unmodified configuration and the run context, whose chain is config, context, default, KeyError; a data node body is dominated by issubclass(type(data), input type) with TypeError otherwise and the caller's data is only replaced when it is None; probe nodes return payload.data and write the result under self.context_key on every path, operation nodes return the processor result; undeclared context writes/deletes are rejected (validating observer, DataOperation._notify_context_update) and context processors get a validating observer built from their declared keys, reset in finally; execute visits nodes once in order, carries data/context forward and re-raises; slicers map element-wise in order with the resolved arguments; the four shorthand resolvers feed their factories in documented argument order; IO adapters produce / pass through.",
        "note": "The statement as a whole (result equals a reference interpreter for all programs and inputs) is not decided; processors are assumed to do what their metadata declares.",
    },
    {
        "property_id": "C02",
        "design_ref": "DESIGN.md section 3, C02",
        "technique": "static analysis: sibling agreement of the inspection and run-time first-match chains, accumulator classification and intra-iteration ordering on a CFG for the required-key set, loop-carried dependence and guard shape of the type-flow check, def-use of the abstract context state updates",
        "text": "Decides the structural preconditions of soundness: inspect_origin and resolve_runtime_value consult config, context (not deleted), default, required in the same order and node constructors and the builder share one unknown-parameter classifier; the required-key set is collected per node against keys produced by earlier nodes only, before the node's own keys are registered, and is not reduced afterwards; the type check compares each typed input with the output type carried from the last node that declared one, updated for every typed node, in the run-time gate's direction, and its errors are raised; per node every created key (incl. probe key) is recorded as produced by this node and un-deleted, suppressed keys become deleted, classification reads the live state and precedes the node's own updates.",
        "note": "Assumes per-node declarations of processors are true. The implication 'accepted => no flow failure' for arbitrary user processors and the dynamic comparison of reported facts are not decided.",
    },
    {
        "property_id": "C03",
        "design_ref": "DESIGN.md section 3, C03",
        "technique": "static analysis: order provenance of the step enumeration, guard dominance of the length test, last-writer analysis of the merge, normal-form sibling comparison of the three generated bodies plus absolute form rules, name-template agreement and reachability of the <var>_values publication, constant-table comparison of the YAML conversion, argument provenance of materialisation",
        "text": "Decides: combinatorial steps are the product over sequences in plain sorted-name order paired with the names, by_position steps are aligned positions reached only after broadcast or the equal-length test (ValueError otherwise), broadcast cycles up to the longest; computed values overwrite provided ones; each of the three generated bodies materialises from the class variables, drops from-context keys, selects provided kwargs by presence, iterates with the declared mode/broadcast, evaluates every expression on the step, merges, filters to the element's names, applies the element once per step in order and returns the collection (probes: the list) - and they agree pairwise on these steps; every variant declares and publishes <var>_values, materialisation stores exactly those keys, the probe node publishes and declares them; YAML spellings map to the documented spec classes/defaults; linspace/logspace/sequence/from_context receive the spec fields in their roles.",
        "note": "Numerical content of ranges and expression values, and the typed collection's behaviour, are not decided.",
    },
    {
        "property_id": "C16",
        "design_ref": "DESIGN.md section 3, C16",
        "technique": "static analysis: class-template extraction (nested class statements, type()/new_class namespaces) crossed with the classmethod rule table read from the contract catalogue on every run, shape rules SVA241/250/104/105 on templates, delegation patterns of node classes, created-key mirror and uniqueness, registry container shape",
        "text": "Decides the shape-decidable part of the catalogue for every template the factories can instantiate (13 templates): each attribute the catalogue requires to be a classmethod (10 names read from expectations.py plus *_data_type) is bound to a classmethod; context-processor templates do not override operate_context; generated _process_logic and attached signatures have no context parameter / ContextType annotation; key providers return lists; node classes delegate input/output types to the processor (sources take NoDataType, sinks/probes pass the input type through, operations delegate both); node created keys include the processor's keys without duplicates; classes are registered per class (not per shared name) so registry coherence holds.",
        "note": "Value-level rules (SVA004, SVA101 for arbitrary wrapped classes) are not decided; validate_components is never run.",
    },
]
_TODO = "check not built yet in this session (planned: DESIGN.md section 3); not claimed until its rules run clean and fire on their variants"
NOT_APPLICABLE = [
    {"property_id": f"C{i:02d}", "reason": _TODO}
    for i in range(1, 19)
    if f"C{i:02d}" not in {c["property_id"] for c in CHECKS}
]
