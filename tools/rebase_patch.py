#!/venv/bin/python
"""tools/rebase_patch.py <patch> [...]: re-create a patch whose context no longer matches /repo (after a fix: commit moved
nearby lines) by applying it with fuzz to a scratch copy and diffing again.  Fails loudly when a hunk is rejected."""
import shutil, subprocess, sys, tempfile
from pathlib import Path
for patch in sys.argv[1:]:
    patch = str(Path(patch).resolve())
    tmp = Path(tempfile.mkdtemp(prefix="rbp_"))
    try:
        for side in ("a", "b"):
            shutil.copytree("/repo/semantiva", tmp / side / "semantiva")
        p = subprocess.run(["patch", "-p1", "-F3", "--batch", "--no-backup-if-mismatch", "-d", str(tmp / "b"), "-i", patch], capture_output=True, text=True)
        if p.returncode or list((tmp / "b").rglob("*.rej")):
            print("REJECTED", patch, p.stdout[-300:]); continue
        for orig in (tmp / "b").rglob("*.orig"):
            orig.unlink()
        out = []
        files = sorted({l[6:].strip() for l in open(patch) if l.startswith("+++ b/")})
        for f in files:
            d = subprocess.run(["diff", "-u", str(tmp / "a" / f), str(tmp / "b" / f)], capture_output=True, text=True).stdout.splitlines(keepends=True)
            if not d:
                continue
            out.append(f"diff --git a/{f} b/{f}\n--- a/{f}\n+++ b/{f}\n")
            out.extend(d[2:])
        Path(patch).write_text("".join(out))
        chk = subprocess.run(["git", "-C", "/repo", "apply", "--check", patch], capture_output=True, text=True)
        print("rebased" if chk.returncode == 0 else "STILL-BAD", patch, chk.stderr[:200])
    finally:
        shutil.rmtree(tmp, ignore_errors=True)
