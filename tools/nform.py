import sys, ast
sys.path.insert(0,'/verif')
from sa.engine import Repo
from sa.normal import nfunc
root, rel, qual = sys.argv[1:4]
opts = {}
if len(sys.argv) > 4: opts = eval(sys.argv[4])
repo = Repo(root)
fn = nfunc(repo, rel, qual, **opts)
print(ast.unparse(fn)); print("INLINED", fn._inlined)
