#!/venv/bin/python
"""tools/matrix.py <patch> [<patch> ...] [--pids C01,C02]: for each patch, apply it to a scratch copy of
/repo/semantiva (outside /repo and /verif) and run every check (quick tier, no evidence) against the copy.
Prints one line per patch: the rc of each check (0 held, 1 violation, 2 analysis-error), and the first
violation/analysis-error line of each alarming check.  Used both for seeded defects (expect rc=1 in the
target property) and for behaviour-preserving refactors (expect all 0)."""
import shutil, subprocess, sys, tempfile
from concurrent.futures import ThreadPoolExecutor
from pathlib import Path

ALL = [f"C{i:02d}" for i in range(1, 19)]


def one(patch: str, pids):
    tmp = Path(tempfile.mkdtemp(prefix="mx_"))
    out = {}
    try:
        shutil.copytree("/repo/semantiva", tmp / "semantiva")
        p = subprocess.run(["patch", "-p1", "--batch", "--silent", "-d", str(tmp), "-i", str(Path(patch).resolve())], capture_output=True, text=True)
        if p.returncode:
            return patch, None, p.stdout + p.stderr
        for pid in pids:
            r = subprocess.run(["/venv/bin/python", "/verif/sa/check.py", pid, "--repo", str(tmp), "--no-evidence"], capture_output=True, text=True)
            first = ""
            if r.returncode:
                ls = [l for l in r.stdout.splitlines() if not l.startswith(f"[{pid}]") and not l.startswith("VIOLATION") and not l.startswith("      ") and not l.startswith("KNOWN-FINDING")]
                first = (ls[0] if ls else r.stderr.strip().splitlines()[-1] if r.stderr.strip() else "?")[:260]
            out[pid] = (r.returncode, first)
    finally:
        shutil.rmtree(tmp, ignore_errors=True)
    return patch, out, ""


def main():
    args = sys.argv[1:]
    pids = ALL
    if "--pids" in args:
        i = args.index("--pids"); pids = args[i + 1].split(","); del args[i:i + 2]
    with ThreadPoolExecutor(8) as ex:
        for patch, out, err in ex.map(lambda p: one(p, pids), args):
            if out is None:
                print(f"{patch}: PATCH FAILED {err[:200]}"); continue
            alarms = {k: v for k, v in out.items() if v[0]}
            print(f"{patch}: " + (" ".join(f"{k}={v[0]}" for k, v in alarms.items()) or "all-silent"))
            for k, v in alarms.items():
                print(f"      {k}: {v[1]}")


if __name__ == "__main__":
    main()
