import sys, ast, shutil, subprocess
sys.path.insert(0,'/verif')
from pathlib import Path
from sa.engine import Repo, parent, FuncNode
from sa.normal import normalize
opts = eval(sys.argv[1]) if len(sys.argv)>1 else {}
wt = Path('/tmp/nsuite_wt')
subprocess.run(['git','-C','/repo','worktree','remove','--force',str(wt)],capture_output=True)
subprocess.run(['git','-C','/repo','worktree','add','-q','--detach',str(wt),'HEAD'],check=True)
repo = Repo('/repo')
cnt=0
todo=[]
for rel, mod in repo.modules.items():
    for qn, fn in list(mod.defs.items()):
        if not isinstance(fn, FuncNode): continue
        p = parent(fn)
        if not isinstance(p, (ast.Module, ast.ClassDef)): continue
        new = normalize(repo, mod, fn, **opts)
        if ast.dump(new) != ast.dump(fn):
            todo.append((rel, mod, p, fn, new))
for rel, mod, p, fn, new in todo:
    p.body[p.body.index(fn)] = new; cnt+=1
for rel in {t[0] for t in todo}:
    (wt/rel).write_text(ast.unparse(repo.modules[rel].tree)+"\n")
print("rewrote", cnt, "functions")
