#!/venv/bin/python
"""tools/robust.py Cxx [Cyy ...] : robustness battery for the named checks.

 1. reformat  - every file of a scratch copy is rewritten with ast.unparse (layout, quoting, parentheses change)
 2. rename    - every function-local variable of the whole package is renamed (x -> x_v) in a scratch copy
 3. selftest  - must-fire variants + seeded defects fire, must-stay-silent variants + benign refactor corpus stay silent
 A behaviour-preserving transformation must leave every check silent (no VIOLATION, no ANALYSIS-ERROR).
"""
import ast, shutil, sys, tempfile
from pathlib import Path
sys.path.insert(0, "/verif")
from sa.check import analyse
from sa.engine import AnalysisError

def rename_locals(tree):
    class R(ast.NodeTransformer):
        def __init__(self): self.map = None
        def visit_FunctionDef(self, node):
            if self.map is not None:
                return self.generic_visit(node)
            params = set(); stored = set(); globs = set()
            for n in ast.walk(node):
                if isinstance(n, (ast.FunctionDef, ast.Lambda, ast.AsyncFunctionDef)):
                    a = n.args
                    for x in a.args + a.kwonlyargs + a.posonlyargs: params.add(x.arg)
                    if a.vararg: params.add(a.vararg.arg)
                    if a.kwarg: params.add(a.kwarg.arg)
                if isinstance(n, (ast.Global, ast.Nonlocal)): globs |= set(n.names)
                if isinstance(n, ast.Name) and isinstance(n.ctx, ast.Store): stored.add(n.id)
                if isinstance(n, (ast.FunctionDef, ast.ClassDef)) and n is not node: params.add(n.name)
                if isinstance(n, ast.ExceptHandler) and n.name: params.add(n.name)
                if isinstance(n, (ast.Import, ast.ImportFrom)):
                    for al in n.names: params.add((al.asname or al.name).split('.')[0])
            for n in ast.walk(node):
                if isinstance(n, ast.ClassDef):
                    for st in n.body:
                        for x in ast.walk(st):
                            if isinstance(x, ast.Name) and isinstance(x.ctx, ast.Store): params.add(x.id)
            self.map = {n: n + "_v" for n in stored - params - globs}
            node = self.generic_visit(node)
            self.map = None
            return node
        visit_AsyncFunctionDef = visit_FunctionDef
        def visit_Name(self, n):
            if self.map and n.id in self.map: n.id = self.map[n.id]
            return n
    return R().visit(tree)

def transformed_copy(kind):
    tmp = Path(tempfile.mkdtemp(prefix=f"rb_{kind}_"))
    shutil.copytree("/repo/semantiva", tmp / "semantiva")
    for p in (tmp / "semantiva").rglob("*.py"):
        if kind == "rename" and "examples" in str(p): continue
        t = ast.parse(p.read_text())
        if kind == "rename": t = rename_locals(t)
        new = ast.unparse(t) + "\n"
        compile(new, str(p), "exec")
        p.write_text(new)
    return tmp

def main():
    pids = sys.argv[1:] or [f"C{i:02d}" for i in range(1, 19)]
    bad = 0
    for kind in ("reformat", "rename"):
        tmp = transformed_copy(kind)
        try:
            for pid in pids:
                try:
                    _r, rep = analyse(pid, str(tmp)); rep.apply_known_findings(Path("/verif/known_findings.json"))
                    v = rep.violations()
                    if v:
                        bad += 1
                        print(f"{kind} {pid}: {len(v)} FALSE ALARMS")
                        for x in v[:8]: print(f"     {x.rule} {x.function} `{x.stmt[:70]}` - {x.what[:80]}")
                    else:
                        print(f"{kind} {pid}: silent")
                except AnalysisError as e:
                    bad += 1; print(f"{kind} {pid}: ANALYSIS-ERROR {str(e)[:200]}")
                except Exception as e:
                    bad += 1; print(f"{kind} {pid}: CRASH {type(e).__name__} {str(e)[:200]}")
        finally:
            shutil.rmtree(tmp, ignore_errors=True)
    from selftest.runner import run_selftest
    for pid in pids:
        st = run_selftest(pid, "/repo")
        print(f"selftest {pid}: fired {st['mutants_fired']}/{st['mutants_total']} silent {st['benign_silent']}/{st['benign_total']} skipped {len(st['skipped'])}")
        for f in st["failed"]:
            bad += 1; print("     FAILED", f[:300])
    print("ROBUST-OK" if not bad else f"ROBUST-PROBLEMS {bad}")
    sys.exit(1 if bad else 0)

if __name__ == "__main__":
    main()
