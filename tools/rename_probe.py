#!/venv/bin/python
"""tools/rename_probe.py [--jobs N] [--names a,b,..]: for every private name defined in /repo/semantiva, rename that ONE name
consistently in a scratch copy (tools/rename_private.py machinery) and run all 18 checks on it.  Prints one line per
(name, check) whose exit code is not 0: rc=1 is a false alarm (the rename preserves behaviour), rc=2 an anchor the check
finds by that name.  VERIF_ROOT selects the /verif tree whose checks are run (default /verif)."""
import ast, os, re, shutil, subprocess, sys, tempfile
from concurrent.futures import ThreadPoolExecutor
from pathlib import Path
V = Path(os.environ.get("VERIF_ROOT", "/verif"))
sys.argv_saved = sys.argv[:]
spec = {}
src = (V / "tools" / "rename_private.py").read_text().replace("\nmain()\n", "\n")
exec(compile(src, "rename_private", "exec"), spec)
names = sorted(spec["collect"](Path("/repo/semantiva"), {"functions", "methods", "attrs", "classes"}))
if "--names" in sys.argv:
    names = sys.argv[sys.argv.index("--names") + 1].split(",")
jobs = int(sys.argv[sys.argv.index("--jobs") + 1]) if "--jobs" in sys.argv else 14
WORD = re.compile(r"(?<![A-Za-z0-9_])_[A-Za-z0-9_]+")

def rename_one(name: str, out: Path) -> bool:
    ren = {name: name + "_rn"}
    shutil.copytree("/repo/semantiva", out / "semantiva")
    touched = False
    for p in (out / "semantiva").rglob("*.py"):
        text = p.read_text()
        if name not in text:
            continue
        t = ast.parse(text)
        class R(ast.NodeTransformer):
            def visit_Name(self, n):
                if n.id in ren: n.id = ren[n.id]
                return n
            def visit_Attribute(self, n):
                self.generic_visit(n)
                if n.attr in ren: n.attr = ren[n.attr]
                return n
            def visit_FunctionDef(self, n):
                self.generic_visit(n)
                if n.name in ren: n.name = ren[n.name]
                return n
            visit_AsyncFunctionDef = visit_FunctionDef
            def visit_ClassDef(self, n):
                self.generic_visit(n)
                if n.name in ren: n.name = ren[n.name]
                return n
            def visit_Constant(self, n):
                if isinstance(n.value, str):
                    if n.value in ren: n.value = ren[n.value]
                    elif "_" in n.value and len(n.value) < 200:
                        n.value = WORD.sub(lambda m: ren.get(m.group(0), m.group(0)), n.value)
                return n
            def visit_alias(self, n):
                if n.name in ren: n.name = ren[n.name]
                if n.asname in ren: n.asname = ren[n.asname]
                return n
            def visit_keyword(self, n):
                self.generic_visit(n)
                if n.arg in ren: n.arg = ren[n.arg]
                return n
            def visit_arg(self, n):
                self.generic_visit(n)
                if n.arg in ren: n.arg = ren[n.arg]
                return n
        new = ast.unparse(R().visit(t)) + "\n"
        if new != ast.unparse(ast.parse(text)) + "\n":
            touched = True
        p.write_text(new)
    return touched

def one(name: str):
    tmp = Path(tempfile.mkdtemp(prefix="rp_"))
    res = []
    try:
        if not rename_one(name, tmp):
            return name, []
        for i in range(1, 19):
            pid = f"C{i:02d}"
            r = subprocess.run(["/venv/bin/python", str(V / "sa" / "check.py"), pid, "--repo", str(tmp), "--no-evidence"], capture_output=True, text=True)
            if r.returncode:
                ls = [l for l in r.stdout.splitlines() if not l.startswith(f"[{pid}]") and not l.startswith("VIOLATION") and not l.startswith("      ") and not l.startswith("KNOWN-FINDING")]
                res.append((pid, r.returncode, (ls[0] if ls else "?")[:200]))
    finally:
        shutil.rmtree(tmp, ignore_errors=True)
    return name, res

with ThreadPoolExecutor(jobs) as ex:
    for name, res in ex.map(one, names):
        for pid, rc, first in res:
            print(f"{name} {pid} rc={rc} {first}", flush=True)
print("probed", len(names), "names")
