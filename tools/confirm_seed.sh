#!/bin/bash
# tools/confirm_seed.sh <PID> <a|b> : confirm a seeded change in a scratch worktree of /repo HEAD
# (demo passes clean, fails with the patch, suite still 503 passed). Result -> /tmp/seed_out/<PID>/confirm_<x>.json
PID=$1; X=$2
SRC=${SEED_SRC:-/tmp/seed_out}/$PID
WT=/tmp/cw/${PID}_${X}_$$
mkdir -p /tmp/cw
git -C /repo worktree remove --force $WT 2>/dev/null
git -C /repo worktree add -q --detach $WT HEAD || exit 9
cd $WT
export PYTHONPATH=$WT
export SEMANTIVA_ROOT=$WT
timeout 600 /venv/bin/python $SRC/demo_$X.py > $SRC/confirm_${X}_clean.log 2>&1; RC_CLEAN=$?
git apply $SRC/patch_$X.diff; RC_APPLY=$?
timeout 600 /venv/bin/python $SRC/demo_$X.py > $SRC/confirm_${X}_patched.log 2>&1; RC_PATCHED=$?
/venv/bin/python -m pytest -q -p no:cacheprovider --timeout=900 --deselect tests/test_export_ontology.py::test_export_framework_ontology_script 2>&1 | tail -3 > $SRC/confirm_${X}_suite.log
SUITE=$(tail -1 $SRC/confirm_${X}_suite.log)
cd /
git -C /repo worktree remove --force $WT
echo "{\"pid\":\"$PID\",\"x\":\"$X\",\"demo_clean_rc\":$RC_CLEAN,\"apply_rc\":$RC_APPLY,\"demo_patched_rc\":$RC_PATCHED,\"suite\":\"$SUITE\"}" > $SRC/confirm_$X.json
cat $SRC/confirm_$X.json
