#!/venv/bin/python
"""tools/try_benign.py <dir-with-patch_*.diff> : apply each behaviour-preserving patch to a scratch copy of /repo
and run all 18 checks; any VIOLATION or ANALYSIS-ERROR is a false alarm to triage."""
import json, shutil, subprocess, sys, tempfile
from concurrent.futures import ProcessPoolExecutor
from pathlib import Path
sys.path.insert(0, "/verif")
PIDS = [f"C{i:02d}" for i in range(1, 19)]

def one(patch: str):
    from sa.check import analyse
    from sa.engine import AnalysisError
    tmp = Path(tempfile.mkdtemp(prefix="bn_"))
    out = []
    try:
        shutil.copytree("/repo/semantiva", tmp / "semantiva")
        p = subprocess.run(["patch", "-p1", "--batch", "--silent", "-d", str(tmp), "-i", patch], capture_output=True, text=True)
        if p.returncode:
            return patch, [("-", "PATCH-FAILED", p.stdout[-200:])]
        for pid in PIDS:
            try:
                _repo, rep = analyse(pid, str(tmp))
                rep.apply_known_findings(Path("/verif/known_findings.json"))
                for v in rep.violations():
                    out.append((pid, "VIOLATION", f"{v.rule} {v.file}:{v.function} `{v.stmt[:80]}` - {v.what[:100]}"))
            except AnalysisError as e:
                out.append((pid, "ANALYSIS-ERROR", str(e)[:200]))
            except Exception as e:
                out.append((pid, "CRASH", f"{type(e).__name__}: {e}"[:200]))
        return patch, out
    finally:
        shutil.rmtree(tmp, ignore_errors=True)

if __name__ == "__main__":
    patches = sorted(str(p) for d in sys.argv[1:] for p in Path(d).glob("patch_*.diff"))
    with ProcessPoolExecutor(8) as ex:
        for patch, res in ex.map(one, patches):
            print(("CLEAN " if not res else "ALARM ") + patch)
            for r in res:
                print("    ", *r)
