#!/venv/bin/python
"""tools/rule_inventory.py: regenerate notes/rule_inventory.md from the evidence files written by the last run of
every check (run tools/run_all.sh first): every rule id with its statement and instance / violation counts."""
import json
from pathlib import Path
import os
V = Path(os.environ.get("VERIF_ROOT", "/verif"))
out = []
for i in range(1, 19):
    pid = f"C{i:02d}"
    e = json.loads((V / "evidence" / f"{pid}.json").read_text())
    out.append(f"## {pid}")
    for rid, r in e["coverage"]["rules"].items():
        stmt = e["coverage"].get("rule_statements", {}).get(rid, "")
        out.append(f"{rid}: {r.get('instances', r.get('n', '?'))} instance(s), {r.get('violations', 0)} violation(s) - {stmt}")
    out.append("")
(V / "notes" / "rule_inventory.md").write_text("\n".join(out))
print("rules:", sum(1 for l in out if l and not l.startswith("##")))
