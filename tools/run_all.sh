#!/bin/bash
# tools/run_all.sh [quick|thorough] : run every registered check on /repo and summarise
TIER=${1:-quick}
rc_all=0
for i in 01 02 03 04 05 06 07 08 09 10 11 12 13 14 15 16 17 18; do
  out=$(/venv/bin/python /verif/sa/check.py C$i --tier $TIER 2>&1); rc=$?
  echo "C$i rc=$rc $(echo "$out" | tail -1 | cut -c1-110)"
  [ $rc -ne 0 ] && rc_all=1 && echo "$out" | grep "VIOLATION\|ANALYSIS-ERROR" | head -5
done
exit $rc_all
