#!/venv/bin/python
"""tools/try_patch.py <patch.diff> <Cxx> [<Cyy> ...]: run checks on a scratch copy of /repo with the patch applied."""
import shutil, subprocess, sys, tempfile
from pathlib import Path
patch, pids = sys.argv[1], sys.argv[2:]
tmp = Path(tempfile.mkdtemp(prefix="tp_"))
try:
    shutil.copytree("/repo/semantiva", tmp / "semantiva")
    p = subprocess.run(["patch", "-p1", "--batch", "--silent", "-d", str(tmp), "-i", str(Path(patch).resolve())], capture_output=True, text=True)
    if p.returncode:
        print("PATCH FAILED", p.stdout, p.stderr); sys.exit(3)
    for pid in pids:
        r = subprocess.run(["/venv/bin/python", "/verif/sa/check.py", pid, "--repo", str(tmp), "--no-evidence"], capture_output=True, text=True)
        lines = [l for l in r.stdout.splitlines() if not l.startswith(f"[{pid}]")]
        print(f"== {pid} rc={r.returncode}"); print("\n".join(lines[:30])); print(r.stderr[-2000:])
finally:
    shutil.rmtree(tmp, ignore_errors=True)
