#!/venv/bin/python
"""tools/keep_seed.py <PID> <a|b> <detected_by comma list or -> <needs text...>
Copy a confirmed seeded change from /tmp/seed_out into /verif/seeded/<PID>-<x>/."""
import json, os, shutil, sys
from pathlib import Path
pid, x, det = sys.argv[1:4]
needs = " ".join(sys.argv[4:])
src = Path(os.environ.get("SEED_SRC", "/tmp/seed_out")) / pid
tag = os.environ.get("SEED_TAG", "")
conf = json.loads((src / f"confirm_{x}.json").read_text())
assert conf["demo_clean_rc"] == 0 and conf["apply_rc"] == 0 and conf["demo_patched_rc"] != 0 and conf["suite"].startswith("503 passed"), conf
dst = Path("/verif/seeded") / f"{pid}-{tag}{x}"
dst.mkdir(parents=True, exist_ok=True)
shutil.copy(src / f"patch_{x}.diff", dst / "patch.diff")
shutil.copy(src / f"demo_{x}.py", dst / "demo.py")
notes = (src / "notes.md").read_text()
(dst / "notes.md").write_text(notes)
head = json.loads((dst / "meta.json").read_text()) if (dst / "meta.json").exists() else {}
meta = {
    "property": pid,
    "breaks": head.get("breaks", ""),
    "needs_to_manifest": needs or head.get("needs_to_manifest", ""),
    "origin": "independent sub-agent given only the property text and a scratch worktree of /repo HEAD (after the fix: commits)",
    "confirmed": {
        "how": "tools/confirm_seed.sh: fresh worktree of /repo HEAD under /tmp/cw; demo on clean tree, git apply patch, demo again, full test suite with the patch applied; worktree removed",
        "demo_exit_clean": conf["demo_clean_rc"],
        "demo_exit_patched": conf["demo_patched_rc"],
        "suite_with_patch": conf["suite"],
    },
    "detected_by": [] if det == "-" else det.split(","),
}
(dst / "meta.json").write_text(json.dumps(meta, indent=1) + "\n")
print(dst, meta["detected_by"])
