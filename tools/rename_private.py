#!/venv/bin/python
"""tools/rename_private.py <out_dir> [--only functions|methods|attrs|classes|all]: write a copy of /repo/semantiva in which
private names (one leading underscore, no dunder) DEFINED in the package are renamed consistently everywhere they are used
(`_x` -> `_x_rn`): module-level functions and classes, methods, instance / class attributes written through self/cls, and
string constants equal to such a name (getattr / hasattr spellings).  Behaviour-preserving by construction as far as the
package itself is concerned (names used by tests or plug-ins from outside are not considered).  Used as a robustness probe:
every check should stay silent (or at least not report a VIOLATION) on the renamed copy."""
import ast, re, shutil, sys
from pathlib import Path

def collect(pkg: Path, kinds):
    names = set()
    for p in pkg.rglob("*.py"):
        t = ast.parse(p.read_text())
        for n in ast.walk(t):
            if isinstance(n, (ast.FunctionDef, ast.AsyncFunctionDef)) and ("functions" in kinds or "methods" in kinds):
                names.add(n.name)
            elif isinstance(n, ast.ClassDef) and "classes" in kinds:
                names.add(n.name)
            elif isinstance(n, ast.Attribute) and isinstance(n.ctx, ast.Store) and isinstance(n.value, ast.Name) and n.value.id in ("self", "cls") and "attrs" in kinds:
                names.add(n.attr)
            elif isinstance(n, ast.ClassDef) and "attrs" in kinds:
                pass
        if "attrs" in kinds:
            for c in ast.walk(t):
                if isinstance(c, ast.ClassDef):
                    for st in c.body:
                        if isinstance(st, (ast.Assign, ast.AnnAssign)):
                            for tg in (st.targets if isinstance(st, ast.Assign) else [st.target]):
                                if isinstance(tg, ast.Name):
                                    names.add(tg.id)
    keep = {n for n in names if n.startswith("_") and not n.startswith("__") and len(n) > 2}
    # framework hooks that subclasses outside the package override by name stay as they are
    return keep - {"_process_logic", "_get_data", "_send_data", "_get_payload", "_send_payload", "_define_metadata", "_process", "_slicing_strategy"}

def main():
    out = Path(sys.argv[1]); kinds = {"functions", "methods", "attrs", "classes"}
    if "--only" in sys.argv:
        k = sys.argv[sys.argv.index("--only") + 1]
        kinds = {"functions", "methods", "attrs", "classes"} if k == "all" else {k}
    if out.exists():
        shutil.rmtree(out)
    shutil.copytree("/repo/semantiva", out / "semantiva")
    names = collect(out / "semantiva", kinds)
    ren = {n: n + "_rn" for n in names}
    global WORD
    WORD = re.compile(r"(?<![A-Za-z0-9_])_[A-Za-z0-9_]+")
    class R(ast.NodeTransformer):
        def visit_Name(self, n):
            if n.id in ren: n.id = ren[n.id]
            return n
        def visit_Attribute(self, n):
            self.generic_visit(n)
            if n.attr in ren: n.attr = ren[n.attr]
            return n
        def visit_FunctionDef(self, n):
            self.generic_visit(n)
            if n.name in ren: n.name = ren[n.name]
            return n
        visit_AsyncFunctionDef = visit_FunctionDef
        def visit_ClassDef(self, n):
            self.generic_visit(n)
            if n.name in ren: n.name = ren[n.name]
            return n
        def visit_Constant(self, n):
            if isinstance(n.value, str):
                if n.value in ren:
                    n.value = ren[n.value]
                elif "_" in n.value and len(n.value) < 200:
                    # string annotations / dotted references spelled in text: whole-word occurrences
                    n.value = WORD.sub(lambda m: ren.get(m.group(0), m.group(0)), n.value)
            return n
        def visit_alias(self, n):
            if n.name in ren: n.name = ren[n.name]
            if n.asname in ren: n.asname = ren[n.asname]
            return n
        def visit_keyword(self, n):
            self.generic_visit(n)
            if n.arg in ren: n.arg = ren[n.arg]
            return n
        def visit_arg(self, n):
            self.generic_visit(n)
            if n.arg in ren: n.arg = ren[n.arg]
            return n
    targets = list((out / "semantiva").rglob("*.py"))
    if "--with-tests" in sys.argv:  # validation only: the repository's tests follow the rename
        shutil.copytree("/repo/tests", out / "tests")
        targets += list((out / "tests").rglob("*.py"))
    for p in targets:
        t = R().visit(ast.parse(p.read_text()))
        src = ast.unparse(t) + "\n"
        compile(src, str(p), "exec")
        p.write_text(src)
    print(len(ren), "private names renamed")

main()
