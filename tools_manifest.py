#!/venv/bin/python
"""Regenerate MANIFEST.json from the table below (kept valid at all times)."""
import json, sys
from pathlib import Path
HERE = Path(__file__).resolve().parent
sys.path.insert(0, str(HERE))
from manifest_table import CHECKS, NOT_APPLICABLE

manifest = {
    "version": 1,
    "setup_cmd": "/venv/bin/python -m compileall -q /verif/sa /verif/selftest",
    "hooks": {
        "guard": "SEMANTIVA_VERIF",
        "enable": "none needed: the checks parse /repo's working tree; no instrumentation exists in semantiva",
        "baseline_off_cmd": "cd /repo && /venv/bin/python -m pytest -ra -q -p no:cacheprovider --timeout=900 --continue-on-collection-errors",
        "source_commits": [],
        "add_only": True,
    },
    "engines": [
        {"name": "sa", "path": "/verif/sa", "serves_properties": [c["property_id"] for c in CHECKS],
         "kind_free_text": "repository-specific static analysis on Python ast: statement CFG with exception edges, dominance / must-pass-through / occurrence counting, def-use, call graph, table agreement; no execution of repository code"},
    ],
    "checks": [],
    "not_applicable": NOT_APPLICABLE,
    "notes": "All checks: /venv/bin/python /verif/sa/check.py <id> [--tier thorough]. Exit 0 held / 1 VIOLATION / 2 ANALYSIS-ERROR. thorough = quick rules + extended obligations + self-test variants (must-fire / must-stay-silent, incl. /verif/seeded) on scratch copies.",
}
for c in CHECKS:
    pid = c["property_id"]
    manifest["checks"].append({
        "property_id": pid,
        "quick_cmd": f"/venv/bin/python /verif/sa/check.py {pid} --tier quick",
        "thorough_cmd": f"/venv/bin/python /verif/sa/check.py {pid} --tier thorough",
        "evidence_file": f"/verif/evidence/{pid}.json",
        "replay_cmd_template": f"/venv/bin/python /verif/sa/check.py {pid} --tier quick  # replay file {{path}} names rule, file, function, statement and path",
        "engine": "sa",
        "level_claimed": {"category": "other", "text": c["text"], "design_ref": c["design_ref"]},
        "level_note": c["note"],
        "technique": c["technique"],
    })
(HERE / "MANIFEST.json").write_text(json.dumps(manifest, indent=1) + "\n")
import jsonschema  # noqa
