"""Self-test of the checkers (DESIGN.md section 6).

Every variant is applied to a scratch copy of ``<repo>/semantiva`` made with
``tempfile.mkdtemp()`` and removed as soon as the variant has been analysed.
must-fire variants break one rule instance and must be reported; must-stay-silent
variants are behaviour-preserving edits and must not be.  Seeded changes kept under
``/verif/seeded/<name>/patch.diff`` are must-fire variants of the property they name.
A variant whose anchor text no longer exists in the tree under test is skipped
(reported as such), never failed.
"""
from __future__ import annotations

import ast
import importlib
import json
import os
import shutil
import subprocess
import sys
import tempfile
from concurrent.futures import ProcessPoolExecutor
from pathlib import Path
from typing import Any, Dict, List

VERIF = Path(__file__).resolve().parent.parent
if str(VERIF) not in sys.path:
    sys.path.insert(0, str(VERIF))


def load_variants(pid: str) -> List[Dict[str, Any]]:
    out: List[Dict[str, Any]] = []
    try:
        mod = importlib.import_module(f"selftest.variants.{pid.lower()}")
        for v in mod.VARIANTS:
            v = dict(v)
            v.setdefault("kind", "fire")
            out.append(v)
    except ModuleNotFoundError:
        pass
    seeded = VERIF / "seeded"
    if seeded.is_dir():
        for d in sorted(seeded.iterdir()):
            meta = d / "meta.json"
            patch = d / "patch.diff"
            if meta.is_file() and patch.is_file():
                try:
                    m = json.loads(meta.read_text())
                except Exception:
                    continue
                detected_by = m.get("detected_by") or []
                if pid in detected_by:
                    out.append({"name": f"seeded/{d.name}", "kind": "fire", "patch": str(patch)})
    return out


def benign_variants(pid: str, repo_root: str) -> List[Dict[str, Any]]:
    """Behaviour-preserving refactors (selftest/benign/*.diff, written by independent agents against the
    pinned tree and confirmed with the test suite) that touch a file this check consults: must stay silent."""
    bdir = VERIF / "selftest" / "benign"
    if not bdir.is_dir():
        return []
    from sa.check import analyse

    try:
        repo, _report = analyse(pid, repo_root, "quick")
    except Exception:
        return []
    consulted = set(repo.consulted)
    out: List[Dict[str, Any]] = []
    for patch in sorted(bdir.glob("*.diff")):
        touched = {ln[6:].strip() for ln in patch.read_text().splitlines() if ln.startswith("+++ b/")}
        if touched & consulted:
            out.append({"name": f"benign/{patch.stem}", "kind": "silent", "patch": str(patch)})
    return out


def _apply(variant: Dict[str, Any], tmp: Path) -> str:
    """Apply the variant; returns '' on success or a reason for skipping."""
    if "patch" in variant:
        p = subprocess.run(
            ["patch", "-p1", "--batch", "--silent", "-d", str(tmp), "-i", variant["patch"]],
            capture_output=True,
            text=True,
        )
        if p.returncode != 0:
            return "patch does not apply to this tree"
        return ""
    for edit in variant["edits"]:
        file, old, new = edit[:3]
        nth = edit[3] if len(edit) > 3 else None  # optional: which occurrence (0-based) when the text is not unique
        path = tmp / file
        if not path.is_file():
            return f"{file} missing"
        text = path.read_text()
        if nth is None:
            if text.count(old) != 1:
                return f"anchor text occurs {text.count(old)} times in {file}"
            text = text.replace(old, new)
        else:
            if text.count(old) <= nth:
                return f"anchor text occurs {text.count(old)} times in {file} (occurrence {nth} wanted)"
            pos = -1
            for _ in range(nth + 1):
                pos = text.index(old, pos + 1)
            text = text[:pos] + new + text[pos + len(old):]
        try:
            ast.parse(text)
        except SyntaxError as exc:
            return f"variant does not compile: {exc}"
        path.write_text(text)
    return ""


def _run_one(args) -> Dict[str, Any]:
    pid, repo_root, variant = args
    from sa.check import analyse
    from sa.engine import AnalysisError

    tmp = Path(tempfile.mkdtemp(prefix=f"sv_{pid}_"))
    res: Dict[str, Any] = {"name": variant["name"], "kind": variant["kind"]}
    try:
        shutil.copytree(Path(repo_root) / "semantiva", tmp / "semantiva")
        why = _apply(variant, tmp)
        if why:
            res.update(outcome="skipped", detail=why)
            return res
        try:
            _repo, report = analyse(pid, str(tmp), "quick")
            report.apply_known_findings(VERIF / "known_findings.json")
            viols = report.violations()
            res["violations"] = [f"{v.rule} {v.file}:{v.function} `{v.stmt}`" for v in viols][:6]
            fired = bool(viols)
            want_rule = variant.get("rule")
            if fired and want_rule:
                fired = any(v.rule.startswith(want_rule) for v in viols)
            res["analysis_error"] = None
        except AnalysisError as exc:
            fired = False
            res["analysis_error"] = str(exc)
            res["violations"] = []
        if variant["kind"] == "fire":
            res["outcome"] = "pass" if fired else "FAIL"
        else:
            res["outcome"] = "pass" if (not res["violations"] and not res["analysis_error"]) else "FAIL"
        return res
    except Exception as exc:  # pragma: no cover
        res.update(outcome="FAIL", detail=f"{type(exc).__name__}: {exc}")
        return res
    finally:
        shutil.rmtree(tmp, ignore_errors=True)


def run_selftest(pid: str, repo_root: str) -> Dict[str, Any]:
    variants = load_variants(pid) + benign_variants(pid, repo_root)
    jobs = [(pid, repo_root, v) for v in variants]
    results: List[Dict[str, Any]] = []
    if jobs:
        # one fresh process per variant: every variant is a different source tree, and nothing computed for one tree
        # (module-level memo tables of the checkers) may leak into the analysis of the next
        with ProcessPoolExecutor(max_workers=min(int(os.environ.get("SELFTEST_WORKERS", "16")), len(jobs)), max_tasks_per_child=1) as ex:
            results = list(ex.map(_run_one, jobs))
    fire = [r for r in results if r["kind"] == "fire" and r["outcome"] != "skipped"]
    silent = [r for r in results if r["kind"] == "silent" and r["outcome"] != "skipped"]
    return {
        "mutants_fired": sum(1 for r in fire if r["outcome"] == "pass"),
        "mutants_total": len(fire),
        "benign_silent": sum(1 for r in silent if r["outcome"] == "pass"),
        "benign_total": len(silent),
        "skipped": [r["name"] for r in results if r["outcome"] == "skipped"],
        "failed": [f"{r['name']} ({r['kind']}): {r.get('violations')} {r.get('analysis_error') or ''} {r.get('detail', '')}" for r in results if r["outcome"] == "FAIL"],
        "variants": results,
    }


if __name__ == "__main__":
    pids = sys.argv[1:] or [f"C{i:02d}" for i in range(1, 19)]
    rc = 0
    for pid in pids:
        st = run_selftest(pid, "/repo")
        print(pid, json.dumps({k: v for k, v in st.items() if k != "variants"}, indent=1))
        if st["failed"]:
            rc = 2
    sys.exit(rc)
