"""Shared static-analysis engine (E1, E2, E6, E7, E11 of DESIGN.md).

Pure standard library.  Nothing here imports or executes repository code: the
repository is only *parsed*.
"""
from __future__ import annotations

import ast
import hashlib
import os
from dataclasses import dataclass, field
from pathlib import Path
from typing import Callable, Dict, Iterable, Iterator, List, Optional, Sequence, Tuple


class AnalysisError(Exception):
    """The analysis itself cannot be trusted (vanished anchor, unknown shape)."""


# ---------------------------------------------------------------------------
# E1 loader
# ---------------------------------------------------------------------------

FuncNode = (ast.FunctionDef, ast.AsyncFunctionDef)


@dataclass
class Module:
    rel: str  # path relative to repo root, e.g. semantiva/utils/safe_eval.py
    dotted: str  # semantiva.utils.safe_eval
    source: str
    tree: ast.Module
    sha256: str
    # qualname -> node (functions and classes, nested included)
    defs: Dict[str, ast.AST] = field(default_factory=dict)
    imports: Dict[str, str] = field(default_factory=dict)  # local alias -> dotted target


def _attach_parents(tree: ast.AST) -> None:
    for parent in ast.walk(tree):
        for child in ast.iter_child_nodes(parent):
            child._parent = parent  # type: ignore[attr-defined]


def parent(node: ast.AST) -> Optional[ast.AST]:
    return getattr(node, "_parent", None)


def ancestors(node: ast.AST) -> Iterator[ast.AST]:
    p = parent(node)
    while p is not None:
        yield p
        p = parent(p)


def enclosing_function(node: ast.AST) -> Optional[ast.AST]:
    for a in ancestors(node):
        if isinstance(a, FuncNode + (ast.Lambda,)):
            return a
    return None


def enclosing_class(node: ast.AST) -> Optional[ast.ClassDef]:
    for a in ancestors(node):
        if isinstance(a, ast.ClassDef):
            return a
    return None


def qualname_of(node: ast.AST) -> str:
    parts = [getattr(node, "name", "<lambda>")]
    for a in ancestors(node):
        if isinstance(a, FuncNode + (ast.ClassDef,)):
            parts.append(a.name)
    return ".".join(reversed(parts))


def _is_docstring(st: ast.stmt) -> bool:
    return isinstance(st, ast.Expr) and isinstance(st.value, ast.Constant) and isinstance(st.value.value, str)


def _has_yield(fn: ast.AST) -> bool:
    todo = list(getattr(fn, "body", []))
    while todo:
        n = todo.pop()
        if isinstance(n, (ast.Yield, ast.YieldFrom)):
            return True
        if isinstance(n, FuncNode + (ast.ClassDef, ast.Lambda)):
            continue
        todo.extend(ast.iter_child_nodes(n))
    return False


def _returns_only_none(fn: ast.AST) -> bool:
    todo = list(getattr(fn, "body", []))
    while todo:
        n = todo.pop()
        if isinstance(n, ast.Return) and n.value is not None and not (isinstance(n.value, ast.Constant) and n.value.value is None):
            return False
        if isinstance(n, FuncNode + (ast.ClassDef, ast.Lambda)):
            continue
        todo.extend(ast.iter_child_nodes(n))
    return True


def fold_impl_delegation(tree: ast.Module) -> List[Tuple[str, str]]:
    """Undo the `public function delegates to its private _impl` indirection before anything is analysed.

    A function (or method) F whose whole body - apart from a docstring - is `return <T>(...)` (or the bare call `<T>(...)` when T returns nothing) where T is a private
    (underscore) function of the same module / method of the same class that is named after F (F's name is part of
    T's name), is mentioned nowhere else in the module,
    has no decorators, is of the same kind (plain / async / generator) and receives exactly F's own parameters under
    its own parameter names (positionally or by keyword, `*args` / `**kwargs` passed on as such) computes T's body on
    F's arguments.  F's body is replaced by T's body (the statements keep their positions in the file) and T is
    removed, which is the program before `extract the body into _impl` was applied.  Anything less exact is left
    alone.  Returns the (F, T) names folded."""
    folded: List[Tuple[str, str]] = []
    mentions: Dict[str, int] = {}
    for n in ast.walk(tree):
        if isinstance(n, ast.Name):
            mentions[n.id] = mentions.get(n.id, 0) + 1
        elif isinstance(n, ast.Attribute):
            mentions[n.attr] = mentions.get(n.attr, 0) + 1
        elif isinstance(n, ast.Constant) and isinstance(n.value, str) and n.value.isidentifier():
            mentions[n.value] = mentions.get(n.value, 0) + 1  # getattr(x, "_name") and the like

    def params(fn) -> Tuple[List[str], Optional[str], List[str], Optional[str]]:
        a = fn.args
        return [x.arg for x in a.posonlyargs + a.args], (a.vararg.arg if a.vararg else None), [x.arg for x in a.kwonlyargs], (a.kwarg.arg if a.kwarg else None)

    def try_fold(container: List[ast.stmt], in_class: bool) -> None:
        for F in list(container):
            if not isinstance(F, FuncNode):
                continue
            body = [st for st in F.body if not _is_docstring(st)] if F.body and _is_docstring(F.body[0]) else list(F.body)
            if len(body) != 1:
                continue
            expr_form = isinstance(body[0], ast.Expr) and isinstance(body[0].value, ast.Call)
            if not expr_form and not (isinstance(body[0], ast.Return) and isinstance(body[0].value, ast.Call)):
                continue
            call = body[0].value
            fpos, fvar, fkwo, fkw = params(F)
            is_static = any(isinstance(d, ast.Name) and d.id == "staticmethod" for d in F.decorator_list)
            recv = fpos[0] if (in_class and not is_static and fpos) else None
            if isinstance(call.func, ast.Attribute) and isinstance(call.func.value, ast.Name) and in_class and recv is not None and call.func.value.id == recv:
                tname = call.func.attr
            elif isinstance(call.func, ast.Name) and not in_class:
                tname = call.func.id
            else:
                continue
            if not tname.startswith("_") or tname.startswith("__") or tname == F.name or mentions.get(tname, 0) != 1:
                continue
            if F.name.strip("_") not in tname:
                continue  # only the private twin named after the function (`_<name>_impl`, `_do_<name>`, `_<name>`)
            cands = [T for T in container if isinstance(T, FuncNode) and T.name == tname]
            if len(cands) != 1:
                continue
            T = cands[0]
            if T.decorator_list or type(T) is not type(F) or _has_yield(T) != _has_yield(F) or any(isinstance(d, ast.Name) and d.id in ("classmethod", "staticmethod", "property") for d in F.decorator_list):
                continue
            if expr_form and not _returns_only_none(T):
                continue  # `T(..)` as a statement drops T's result: the same function only if T returns nothing
            tpos, tvar, tkwo, tkw = params(T)
            own = fpos[1:] if recv is not None else fpos
            theirs = tpos[1:] if in_class else tpos
            if in_class and (not tpos or tpos[0] != recv):
                continue
            bound: List[str] = []
            ok = True
            for i, a_ in enumerate(call.args):
                if isinstance(a_, ast.Starred):
                    ok = ok and isinstance(a_.value, ast.Name) and a_.value.id == fvar == tvar and i == len(call.args) - 1
                    bound.append("*")
                elif isinstance(a_, ast.Name) and i < len(theirs) and a_.id == theirs[i]:
                    bound.append(a_.id)
                else:
                    ok = False
            for k in call.keywords:
                if k.arg is None:
                    ok = ok and isinstance(k.value, ast.Name) and k.value.id == fkw == tkw
                    bound.append("**")
                elif isinstance(k.value, ast.Name) and k.value.id == k.arg and k.arg in theirs + tkwo:
                    bound.append(k.arg)
                else:
                    ok = False
            names = [b for b in bound if b not in ("*", "**")]
            if not ok or len(set(names)) != len(names):
                continue
            if set(names) != set(theirs + tkwo) or set(names) != set(own + fkwo):
                continue
            if (tvar is not None) != ("*" in bound) or (tkw is not None) != ("**" in bound) or (fvar is not None) != ("*" in bound) or (fkw is not None) != ("**" in bound):
                continue
            doc = [F.body[0]] if F.body and _is_docstring(F.body[0]) else []
            tbody = T.body[1:] if T.body and _is_docstring(T.body[0]) and len(T.body) > 1 else T.body
            F.body = doc + list(tbody)
            container.remove(T)
            folded.append((F.name, T.name))

    try_fold(tree.body, False)
    for n in ast.walk(tree):
        if isinstance(n, ast.ClassDef):
            try_fold(n.body, True)
    return folded


class Repo:
    """Parsed view of ``<root>/semantiva/**/*.py``."""

    def __init__(self, root: str | os.PathLike[str]):
        self.root = Path(root)
        self.modules: Dict[str, Module] = {}
        self.by_dotted: Dict[str, Module] = {}
        self.consulted: set[str] = set()
        pkg = self.root / "semantiva"
        if not pkg.is_dir():
            raise AnalysisError(f"package directory not found: {pkg}")
        for path in sorted(pkg.rglob("*.py")):
            rel = str(path.relative_to(self.root))
            raw = path.read_bytes()
            try:
                src = raw.decode("utf-8")
                tree = ast.parse(src, filename=rel)
            except (SyntaxError, UnicodeDecodeError) as exc:
                raise AnalysisError(f"cannot parse {rel}: {exc}") from exc
            fold_impl_delegation(tree)
            _attach_parents(tree)
            dotted = rel[:-3].replace("/", ".")
            if dotted.endswith(".__init__"):
                dotted = dotted[: -len(".__init__")]
            mod = Module(rel, dotted, src, tree, hashlib.sha256(raw).hexdigest())
            for node in ast.walk(tree):
                if isinstance(node, FuncNode + (ast.ClassDef,)):
                    mod.defs.setdefault(qualname_of(node), node)
            self._index_imports(mod)
            self.modules[rel] = mod
            self.by_dotted[dotted] = mod
        self._func_index: Optional[Dict[str, List[Tuple[Module, ast.AST]]]] = None

    # -- imports ---------------------------------------------------------
    def _index_imports(self, mod: Module) -> None:
        is_pkg = mod.rel.endswith("__init__.py")
        base = mod.dotted.split(".")
        for node in ast.walk(mod.tree):
            if isinstance(node, ast.Import):
                for a in node.names:
                    mod.imports[a.asname or a.name.split(".")[0]] = (
                        a.name if a.asname else a.name.split(".")[0]
                    )
            elif isinstance(node, ast.ImportFrom):
                if node.level:
                    anchor = base if is_pkg else base[:-1]
                    anchor = anchor[: len(anchor) - (node.level - 1)]
                    target = ".".join(anchor + ([node.module] if node.module else []))
                else:
                    target = node.module or ""
                for a in node.names:
                    mod.imports[a.asname or a.name] = f"{target}.{a.name}"

    # -- lookup ------------------------------------------------------------
    def module(self, rel: str) -> Module:
        mod = self.modules.get(rel)
        if mod is None:
            raise AnalysisError(f"anchor module vanished: {rel}")
        self.consulted.add(rel)
        return mod

    def has_module(self, rel: str) -> bool:
        return rel in self.modules

    def func(self, rel: str, qualname: str) -> ast.FunctionDef:
        node = self.module(rel).defs.get(qualname)
        if not isinstance(node, FuncNode):
            raise AnalysisError(f"anchor function vanished: {rel}:{qualname}")
        return node  # type: ignore[return-value]

    def maybe_func(self, rel: str, qualname: str) -> Optional[ast.FunctionDef]:
        mod = self.modules.get(rel)
        if mod is None:
            return None
        self.consulted.add(rel)
        node = mod.defs.get(qualname)
        return node if isinstance(node, FuncNode) else None  # type: ignore[return-value]

    def cls(self, rel: str, qualname: str) -> ast.ClassDef:
        node = self.module(rel).defs.get(qualname)
        if not isinstance(node, ast.ClassDef):
            raise AnalysisError(f"anchor class vanished: {rel}:{qualname}")
        return node

    def module_of(self, node: ast.AST) -> Module:
        top = node
        for a in ancestors(node):
            top = a
        for mod in self.modules.values():
            if mod.tree is top:
                return mod
        raise AnalysisError("node does not belong to a parsed module")

    def all_functions(self) -> Iterator[Tuple[Module, str, ast.AST]]:
        for mod in self.modules.values():
            for qn, node in mod.defs.items():
                if isinstance(node, FuncNode):
                    yield mod, qn, node

    def all_classes(self) -> Iterator[Tuple[Module, str, ast.ClassDef]]:
        for mod in self.modules.values():
            for qn, node in mod.defs.items():
                if isinstance(node, ast.ClassDef):
                    yield mod, qn, node

    def files_evidence(self) -> List[Dict[str, str]]:
        return [
            {"file": rel, "sha256": self.modules[rel].sha256}
            for rel in sorted(self.consulted)
        ]

    # -- E2 resolver / E7 call graph ----------------------------------------
    def _build_func_index(self) -> Dict[str, List[Tuple[Module, ast.AST]]]:
        if self._func_index is None:
            idx: Dict[str, List[Tuple[Module, ast.AST]]] = {}
            for mod, qn, node in self.all_functions():
                idx.setdefault(node.name, []).append((mod, node))  # type: ignore[attr-defined]
            self._func_index = idx
        return self._func_index

    def class_bases(self, mod: Module, cls: ast.ClassDef) -> List[Tuple[Module, ast.ClassDef]]:
        out = []
        for b in cls.bases:
            r = self.resolve_name(mod, b, cls)
            if r is not None and isinstance(r[1], ast.ClassDef):
                out.append(r)  # type: ignore[arg-type]
        return out

    def mro(self, mod: Module, cls: ast.ClassDef) -> List[Tuple[Module, ast.ClassDef]]:
        cache = self.__dict__.setdefault("_mro_cache", {})
        hit = cache.get(id(cls))
        if hit is not None:
            return list(hit)
        seen: List[Tuple[Module, ast.ClassDef]] = []
        todo = [(mod, cls)]
        while todo:
            m, c = todo.pop(0)
            if any(c is s[1] for s in seen):
                continue
            seen.append((m, c))
            todo.extend(self.class_bases(m, c))
        cache[id(cls)] = list(seen)
        return seen

    def method(self, mod: Module, cls: ast.ClassDef, name: str) -> Optional[Tuple[Module, ast.AST]]:
        for m, c in self.mro(mod, cls):
            for st in c.body:
                if isinstance(st, FuncNode) and st.name == name:
                    return m, st
        return None

    def subclasses(self, cls: ast.ClassDef) -> List[Tuple[Module, ast.ClassDef]]:
        out = []
        for mod, _qn, c in self.all_classes():
            if c is cls:
                continue
            if any(b[1] is cls for b in self.mro(mod, c)[1:]):
                out.append((mod, c))
        return out

    def resolve_dotted(self, dotted: str) -> Optional[Tuple[Module, ast.AST]]:
        """Resolve ``pkg.mod.Name`` / ``pkg.mod.Class.meth`` to a definition."""
        parts = dotted.split(".")
        for cut in range(len(parts), 0, -1):
            mod = self.by_dotted.get(".".join(parts[:cut]))
            if mod is None:
                continue
            rest = parts[cut:]
            if not rest:
                return None
            node = mod.defs.get(".".join(rest))
            if node is not None:
                return mod, node
            # re-exported name
            alias = mod.imports.get(rest[0])
            if alias and alias != dotted:
                return self.resolve_dotted(".".join([alias] + rest[1:]))
            return None
        return None

    def resolve_name(self, mod: Module, expr: ast.AST, ctx: Optional[ast.AST] = None) -> Optional[Tuple[Module, ast.AST]]:
        """Resolve a Name/Attribute expression used at *ctx* to a def in the repo."""
        if isinstance(expr, ast.Name):
            # nested/local definitions first (walk enclosing scopes)
            scope = ctx if ctx is not None else expr
            cache = self.__dict__.setdefault("_local_defs_cache", {})
            for a in [scope] + list(ancestors(scope)):
                if isinstance(a, FuncNode + (ast.Module,)):
                    table = cache.get(id(a))
                    if table is None:
                        table = {}
                        for st in ast.walk(a) if not isinstance(a, ast.Module) else a.body:
                            if isinstance(st, FuncNode + (ast.ClassDef,)) and st.name not in table:
                                if isinstance(a, ast.Module) or enclosing_function(st) is a:
                                    table[st.name] = st
                        # normal forms (sa/normal.py) are rewritten in place while being built: never cache them
                        if not hasattr(a, "_normal_of"):
                            cache[id(a)] = table
                    if expr.id in table:
                        return mod, table[expr.id]
            target = mod.imports.get(expr.id)
            if target:
                return self.resolve_dotted(target)
            return None
        if isinstance(expr, ast.Attribute):
            d = dotted_name(expr)
            if d is None:
                return None
            head, _, rest = d.partition(".")
            target = mod.imports.get(head)
            if target:
                return self.resolve_dotted(f"{target}.{rest}")
            local = mod.defs.get(d)
            if local is not None:
                return mod, local
        return None

    def resolve_call(self, mod: Module, call: ast.Call) -> List[Tuple[Module, ast.AST]]:
        """Possible repo-internal targets of *call* (empty when unresolved)."""
        f = call.func
        if isinstance(f, ast.Name):
            r = self.resolve_name(mod, f, call)
            if r is None:
                return []
            m, node = r
            if isinstance(node, ast.ClassDef):
                init = self.method(m, node, "__init__")
                return [init] if init else []
            return [r]
        if isinstance(f, ast.Attribute):
            recv = f.value
            cls = enclosing_class(call)
            if isinstance(recv, ast.Name) and recv.id in ("self", "cls") and cls is not None:
                out = []
                r = self.method(mod, cls, f.attr)
                if r:
                    out.append(r)
                for sm, sc in self.subclasses(cls):
                    for st in sc.body:
                        if isinstance(st, FuncNode) and st.name == f.attr:
                            out.append((sm, st))
                return out
            if (
                isinstance(recv, ast.Call)
                and isinstance(recv.func, ast.Name)
                and recv.func.id == "super"
                and cls is not None
            ):
                for m, c in self.mro(mod, cls)[1:]:
                    for st in c.body:
                        if isinstance(st, FuncNode) and st.name == f.attr:
                            return [(m, st)]
                return []
            r = self.resolve_name(mod, f, call)
            if r is not None:
                m, node = r
                if isinstance(node, ast.ClassDef):
                    init = self.method(m, node, "__init__")
                    return [init] if init else []
                return [r]
        return []

    def resolve_call_by_name(self, call: ast.Call, exclude_dunder: bool = True) -> List[Tuple[Module, ast.AST]]:
        """Name-based fallback: every function in the package called ``<attr>``."""
        f = call.func
        name = f.attr if isinstance(f, ast.Attribute) else f.id if isinstance(f, ast.Name) else None
        if name is None or (exclude_dunder and name.startswith("__")):
            return []
        return list(self._build_func_index().get(name, []))

    def call_graph_closure(
        self,
        roots: Sequence[Tuple[Module, ast.AST]],
        *,
        by_name_fallback: bool = False,
        stop: Optional[Callable[[Module, ast.AST], bool]] = None,
        ignore_names: Iterable[str] = (),
    ) -> Dict[int, Tuple[Module, ast.AST, Tuple[str, ...]]]:
        """Functions reachable from *roots*; value carries one call path."""
        ignore = set(ignore_names)
        seen: Dict[int, Tuple[Module, ast.AST, Tuple[str, ...]]] = {}
        todo: List[Tuple[Module, ast.AST, Tuple[str, ...]]] = [
            (m, n, (f"{m.rel}:{qualname_of(n)}",)) for m, n in roots
        ]
        while todo:
            m, n, path = todo.pop()
            if id(n) in seen:
                continue
            seen[id(n)] = (m, n, path)
            self.consulted.add(m.rel)
            if stop is not None and stop(m, n):
                continue
            for call in calls_in(n, include_nested=True):
                targets = self.resolve_call(m, call)
                if not targets and by_name_fallback and isinstance(call.func, ast.Attribute):
                    if call.func.attr not in ignore:
                        targets = self.resolve_call_by_name(call)
                for tm, tn in targets:
                    if id(tn) not in seen:
                        todo.append((tm, tn, path + (f"{tm.rel}:{qualname_of(tn)}",)))
        return seen


# ---------------------------------------------------------------------------
# small AST helpers
# ---------------------------------------------------------------------------


def dotted_name(expr: ast.AST) -> Optional[str]:
    """``a.b.c`` for Name/Attribute chains, else None."""
    parts: List[str] = []
    while isinstance(expr, ast.Attribute):
        parts.append(expr.attr)
        expr = expr.value
    if isinstance(expr, ast.Name):
        parts.append(expr.id)
        return ".".join(reversed(parts))
    return None


def call_name(call: ast.Call) -> Optional[str]:
    return dotted_name(call.func)


def call_attr(call: ast.Call) -> Optional[str]:
    """Last component of the callee name (method or function name)."""
    f = call.func
    if isinstance(f, ast.Attribute):
        return f.attr
    if isinstance(f, ast.Name):
        return f.id
    return None


def norm(node: ast.AST, limit: int = 160) -> str:
    """Normalised statement text (position independent); used as a finding key."""
    try:
        if isinstance(node, (ast.If, ast.While)):
            txt = f"{type(node).__name__.lower()} {ast.unparse(node.test)}"
        elif isinstance(node, (ast.For, ast.AsyncFor)):
            txt = f"for {ast.unparse(node.target)} in {ast.unparse(node.iter)}"
        elif isinstance(node, (ast.With, ast.AsyncWith)):
            txt = "with " + ", ".join(ast.unparse(i) for i in node.items)
        elif isinstance(node, ast.Try):
            txt = "try"
        elif isinstance(node, ast.ExceptHandler):
            txt = "except " + (ast.unparse(node.type) if node.type else "")
        elif isinstance(node, FuncNode + (ast.ClassDef,)):
            txt = f"def {node.name}"
        else:
            txt = ast.unparse(node)
    except Exception:  # pragma: no cover
        txt = type(node).__name__
    txt = " ".join(txt.split())
    return txt if len(txt) <= limit else txt[: limit - 3] + "..."


def walk_no_nested(node: ast.AST, *, include_root: bool = True) -> Iterator[ast.AST]:
    """Walk *node* without descending into nested function/class/lambda bodies."""
    todo = [node]
    first = True
    while todo:
        n = todo.pop()
        if not first and isinstance(n, FuncNode + (ast.ClassDef, ast.Lambda)):
            continue
        if not first or include_root:
            yield n
        first = False
        todo.extend(reversed(list(ast.iter_child_nodes(n))))


def calls_in(node: ast.AST, include_nested: bool = False) -> List[ast.Call]:
    it = ast.walk(node) if include_nested else walk_no_nested(node)
    out = [n for n in it if isinstance(n, ast.Call)]
    out.sort(key=lambda c: (getattr(c, "lineno", 0), getattr(c, "col_offset", 0)))
    return out


def names_loaded(node: ast.AST) -> set[str]:
    return {n.id for n in ast.walk(node) if isinstance(n, ast.Name) and isinstance(n.ctx, ast.Load)}


def names_stored(node: ast.AST) -> set[str]:
    out = set()
    for n in ast.walk(node):
        if isinstance(n, ast.Name) and isinstance(n.ctx, (ast.Store, ast.Del)):
            out.add(n.id)
        elif isinstance(n, ast.arg):
            out.add(n.arg)
    return out


def kwarg(call: ast.Call, name: str) -> Optional[ast.AST]:
    for kw in call.keywords:
        if kw.arg == name:
            return kw.value
    return None


def const_value(node: Optional[ast.AST]):
    if isinstance(node, ast.Constant):
        return node.value
    return None


def is_const(node: Optional[ast.AST], value) -> bool:
    return isinstance(node, ast.Constant) and node.value == value and type(node.value) is type(value)


def stmt_of(node: ast.AST) -> ast.AST:
    """Innermost enclosing statement of *node*."""
    cur = node
    while not isinstance(cur, ast.stmt):
        p = parent(cur)
        if p is None:
            return cur
        cur = p
    return cur


def loc(mod_rel: str, node: ast.AST) -> str:
    return f"{mod_rel}:{getattr(node, 'lineno', 0)}"


def terminates_in_raise(body: Sequence[ast.stmt]) -> bool:
    """Every path through *body* ends in ``raise`` (syntactic, conservative)."""
    if not body:
        return False
    last = body[-1]
    if isinstance(last, ast.Raise):
        return True
    if isinstance(last, ast.If):
        return bool(last.orelse) and terminates_in_raise(last.body) and terminates_in_raise(last.orelse)
    if isinstance(last, ast.With):
        return terminates_in_raise(last.body)
    if isinstance(last, ast.Try):
        handlers_ok = all(terminates_in_raise(h.body) for h in last.handlers)
        if last.finalbody and terminates_in_raise(last.finalbody):
            return True
        return handlers_ok and terminates_in_raise(last.body + last.orelse)
    return False


def assigned_value(func: ast.AST, name: str) -> List[ast.AST]:
    """Right-hand sides of plain assignments ``name = <expr>`` in *func* (no nested defs)."""
    out: List[ast.AST] = []
    for n in walk_no_nested(func):
        if isinstance(n, ast.Assign):
            for t in n.targets:
                if isinstance(t, ast.Name) and t.id == name:
                    out.append(n.value)
        elif isinstance(n, ast.AnnAssign) and isinstance(n.target, ast.Name) and n.target.id == name and n.value is not None:
            out.append(n.value)
    return out


MUTATORS = {
    "append", "extend", "add", "update", "pop", "popleft", "popitem", "setdefault",
    "clear", "remove", "insert", "discard", "appendleft", "set_value", "delete_value",
    "sort", "reverse", "__setitem__", "__delitem__",
}
GROWERS = {"append", "extend", "add", "update", "setdefault", "insert", "appendleft", "__setitem__"}


def mutation_sites(func: ast.AST, root_names: set[str], include_nested: bool = False) -> List[Tuple[ast.AST, str]]:
    """Statements in *func* that mutate an object reached from one of *root_names*.

    Covers attribute/subscript stores, ``del``, augmented assignment on
    attribute/subscript, and calls of known mutator methods.
    """

    def root_of(e: ast.AST) -> Optional[str]:
        while isinstance(e, (ast.Attribute, ast.Subscript)):
            e = e.value
        if isinstance(e, ast.Call):
            # x.get("k").append(...) -> root x
            return root_of(e.func.value) if isinstance(e.func, ast.Attribute) else None
        return e.id if isinstance(e, ast.Name) else None

    out: List[Tuple[ast.AST, str]] = []
    it = ast.walk(func) if include_nested else walk_no_nested(func)
    for n in it:
        targets: List[ast.AST] = []
        if isinstance(n, ast.Assign):
            targets = list(n.targets)
        elif isinstance(n, (ast.AugAssign, ast.AnnAssign)):
            targets = [n.target]
        elif isinstance(n, ast.Delete):
            targets = list(n.targets)
        for t in targets:
            for el in ast.walk(t) if isinstance(t, (ast.Tuple, ast.List)) else [t]:
                if isinstance(el, (ast.Attribute, ast.Subscript)):
                    r = root_of(el)
                    if r in root_names:
                        out.append((n, r))  # type: ignore[arg-type]
        if isinstance(n, ast.Call) and isinstance(n.func, ast.Attribute) and n.func.attr in MUTATORS:
            r = root_of(n.func.value)
            if r in root_names:
                out.append((n, r))  # type: ignore[arg-type]
    return out


def slice_text(fn: ast.AST, expr: Optional[ast.AST], depth: int = 4, _seen: Optional[set] = None) -> str:
    """Source text of *expr* together with the right-hand sides of the locals it is built from
    (backward slice through plain assignments, *depth* levels)."""
    if expr is None:
        return ""
    _seen = _seen if _seen is not None else set()
    out = [ast.unparse(expr)]
    if depth > 0:
        for nm in sorted({x.id for x in ast.walk(expr) if isinstance(x, ast.Name)}):
            if nm in _seen:
                continue
            _seen.add(nm)
            for v in assigned_value(fn, nm):
                out.append(slice_text(fn, v, depth - 1, _seen))
    return " ; ".join(out)


def returned_values(fn: ast.AST) -> List[ast.AST]:
    """Expressions a function can return: returned expressions, with returned locals replaced by the
    values assigned to them (one level)."""
    out: List[ast.AST] = []
    for r in walk_no_nested(fn):
        if isinstance(r, ast.Return) and r.value is not None:
            if isinstance(r.value, ast.Name):
                vals = assigned_value(fn, r.value.id)
                out.extend(vals if vals else [r.value])
            else:
                out.append(r.value)
    return out


def dict_items_built(fn: ast.AST, expr: ast.AST) -> Dict[str, ast.AST]:
    """Constant keys (and their value expressions) of the mapping *expr* evaluates to: keys of a dict
    literal, nested `**{...}` spreads / conditional spreads, and later `name[key] = value` stores when
    *expr* is (assigned to) a local."""
    out: Dict[str, ast.AST] = {}

    def from_dict(d: ast.AST) -> None:
        if isinstance(d, ast.Dict):
            for k, v in zip(d.keys, d.values):
                if k is None:
                    for sub in ast.walk(v):
                        if isinstance(sub, ast.Dict):
                            from_dict(sub)
                elif isinstance(k, ast.Constant):
                    out.setdefault(k.value, v)
        elif isinstance(d, ast.IfExp):
            from_dict(d.body)
            from_dict(d.orelse)

    from_dict(expr)
    return out
