"""Shared facts about SemantivaOrchestrator.execute used by C06, C07, C09, C10."""
from __future__ import annotations

import ast
from typing import Callable, Dict, List, Optional, Set

from ..cfg import BASE, CFG, EXC
from ..engine import (
    AnalysisError,
    Repo,
    call_attr,
    call_name,
    calls_in,
    dotted_name,
    walk_no_nested,
)

ORCH = "semantiva/execution/orchestrator/orchestrator.py"
EXECUTE = "SemantivaOrchestrator.execute"
DRIVER_METHODS = {"on_pipeline_start", "on_node_event", "on_pipeline_end", "flush", "close", "on_run_space_start", "on_run_space_end"}
# total builtins that cannot raise on the values they are applied to here
TOTAL_BUILTINS = {"cast", "typing.cast", "isinstance", "bool", "type", "id"}


def trace_param(fn: ast.FunctionDef) -> str:
    for a in fn.args.args + fn.args.kwonlyargs:
        if a.arg == "trace":
            return a.arg
    raise AnalysisError("execute(): parameter `trace` vanished")


def trace_tainted(fn: ast.FunctionDef) -> Set[str]:
    """Locals whose value is derived from the trace parameter (def-use closure on plain assignments)."""
    tainted = {trace_param(fn)}
    changed = True
    while changed:
        changed = False
        for n in walk_no_nested(fn):
            if isinstance(n, ast.Assign) and len(n.targets) == 1 and isinstance(n.targets[0], ast.Name):
                names = {x.id for x in ast.walk(n.value) if isinstance(x, ast.Name)}
                if names & tainted and n.targets[0].id not in tainted:
                    # only nullness-propagating forms: cast(..), IfExp .. else None/""/{} , boolean tests
                    v = n.value
                    ok = isinstance(v, (ast.BoolOp, ast.Compare, ast.Name)) or (isinstance(v, ast.Call) and call_attr(v) == "cast") or (
                        isinstance(v, ast.IfExp) and {x.id for x in ast.walk(v.test) if isinstance(x, ast.Name)} <= tainted)
                    if ok:
                        tainted.add(n.targets[0].id)
                        changed = True
    return tainted


def driver_vars(fn: ast.FunctionDef) -> Set[str]:
    """Tainted names used as receivers of driver methods."""
    t = trace_tainted(fn)
    out = set()
    for c in calls_in(fn):
        if isinstance(c.func, ast.Attribute) and c.func.attr in DRIVER_METHODS and isinstance(c.func.value, ast.Name) and c.func.value.id in t:
            out.add(c.func.value.id)
    return out


def make_fold(tainted: Set[str]) -> Callable[[ast.AST], Optional[bool]]:
    """Fold tests built only from trace-derived names under the assumption *trace is present*."""

    def ev(e: ast.AST) -> Optional[bool]:
        if isinstance(e, ast.Name):
            return True if e.id in tainted else None
        if isinstance(e, ast.Compare) and len(e.ops) == 1 and isinstance(e.left, ast.Name) and e.left.id in tainted and isinstance(e.comparators[0], ast.Constant) and e.comparators[0].value is None:
            if isinstance(e.ops[0], ast.IsNot):
                return True
            if isinstance(e.ops[0], ast.Is):
                return False
        if isinstance(e, ast.UnaryOp) and isinstance(e.op, ast.Not):
            v = ev(e.operand)
            return None if v is None else (not v)
        if isinstance(e, ast.BoolOp):
            vals = [ev(v) for v in e.values]
            if isinstance(e.op, ast.And):
                if any(v is False for v in vals):
                    return False
                return True if all(v is True for v in vals) else None
            if any(v is True for v in vals):
                return True
            return False if all(v is False for v in vals) else None
        return None

    return ev


def is_driver_call(c: ast.Call, drivers: Set[str], method: Optional[str] = None) -> bool:
    f = c.func
    if not (isinstance(f, ast.Attribute) and isinstance(f.value, ast.Name) and f.value.id in drivers):
        return False
    return method is None or f.attr == method


def node_has_driver_call(n, drivers: Set[str], method: str) -> bool:
    if n.ast is None or n.kind != "stmt":
        return False
    return any(is_driver_call(c, drivers, method) for c in calls_in(n.ast))


def full_may_raise(drivers: Set[str], extra_total: Set[str] = frozenset()) -> Callable[[ast.AST], Set[str]]:
    """Every call may raise EXC and BASE except driver calls and total builtins."""

    def mr(part: ast.AST) -> Set[str]:
        for n in walk_no_nested(part):
            if isinstance(n, (ast.Raise, ast.Assert)):
                return {EXC, BASE}
            if isinstance(n, (ast.Import, ast.ImportFrom)):
                return {EXC, BASE}
            if isinstance(n, ast.Call):
                if is_driver_call(n, drivers):
                    continue
                d = call_name(n) or ""
                if d in TOTAL_BUILTINS or d in extra_total:
                    continue
                return {EXC, BASE}
            if isinstance(n, ast.Subscript) and isinstance(n.ctx, ast.Load):
                return {EXC, BASE}
        return set()

    return mr


def status_of_end(call: ast.Call) -> Optional[str]:
    """Literal status of an on_pipeline_end(run, {"status": ...}) call."""
    for a in list(call.args) + [k.value for k in call.keywords]:
        if isinstance(a, ast.Dict):
            for k, v in zip(a.keys, a.values):
                if isinstance(k, ast.Constant) and k.value == "status" and isinstance(v, ast.Constant):
                    return v.value
    return None
