"""First-match chain extraction for the two sibling resolvers
(_param_resolution.resolve_runtime_value and inspect_origin)."""
from __future__ import annotations

import ast
from typing import List, Optional, Tuple

from ..engine import dotted_name, walk_no_nested

PARAMRES = "semantiva/pipeline/_param_resolution.py"


def _names(e: ast.AST) -> set:
    return {x.id for x in ast.walk(e) if isinstance(x, ast.Name)}


def classify_test(test: ast.AST, fn: ast.FunctionDef) -> str:
    """Which channel a guard consults: config / context / default / other (by the data it reads)."""
    names = _names(test)
    txt = ast.unparse(test)
    if "processor_config" in names:
        return "config" if isinstance(test, ast.Compare) and isinstance(test.ops[0], ast.In) and len(test.ops) == 1 else "config?"
    if "context" in names or "key_origin" in names:
        # inspection must also exclude keys deleted so far
        if "key_origin" in names:
            ok = isinstance(test, ast.BoolOp) and isinstance(test.op, ast.And) and "not in deleted_keys" in txt and "in key_origin" in txt
            return "context" if ok else "context?"
        ok = isinstance(test, ast.Compare) and isinstance(test.ops[0], ast.In) and len(test.ops) == 1
        return "context" if ok else "context?"
    if "_NO_DEFAULT" in names and (names & DEFAULT_LOCALS or "_default_for" in txt):
        ok = isinstance(test, ast.Compare) and isinstance(test.ops[0], ast.IsNot) and len(test.ops) == 1
        return "default" if ok else "default?"
    return "other"


def classify_result(body: List[ast.stmt]) -> str:
    """What the guarded branch yields: which channel's value / label is returned."""
    if not body:
        return "none"
    last = body[-1]
    if isinstance(last, ast.Raise):
        t = last.exc.func if isinstance(last.exc, ast.Call) else last.exc
        return "raise:" + (dotted_name(t) or "?")
    if isinstance(last, ast.Return) and last.value is not None:
        v = last.value
        if isinstance(v, ast.Tuple) and v.elts and isinstance(v.elts[0], ast.Constant):
            return str(v.elts[0].value)
        names = _names(v)
        if "processor_config" in names:
            return "config"
        if "context" in names:
            return "context"
        if names & DEFAULT_LOCALS or "_default_for" in ast.unparse(v):
            return "default"
        if isinstance(v, ast.Constant):
            return f"const:{v.value!r}"
        return "other"
    return "other"


DEFAULT_LOCALS: set = set()


def extract_chain(fn: ast.FunctionDef) -> List[Tuple[str, str]]:
    """Ordered (guard channel, result channel) pairs of a first-match function."""
    chain: List[Tuple[str, str]] = []
    DEFAULT_LOCALS.clear()
    for n in walk_no_nested(fn):
        if isinstance(n, ast.Assign) and isinstance(n.value, ast.Call) and "_default_for" in ast.unparse(n.value.func):
            DEFAULT_LOCALS.update(t.id for t in n.targets if isinstance(t, ast.Name))

    def walk(body: List[ast.stmt]) -> None:
        for st in body:
            if isinstance(st, ast.If):
                chain.append((classify_test(st.test, fn), classify_result(st.body)))
                cur = st
                while len(cur.orelse) == 1 and isinstance(cur.orelse[0], ast.If):
                    cur = cur.orelse[0]
                    chain.append((classify_test(cur.test, fn), classify_result(cur.body)))
                if cur.orelse:
                    chain.append(("else", classify_result(cur.orelse)))
            elif isinstance(st, (ast.Return, ast.Raise)):
                chain.append(("always", classify_result([st])))
            elif isinstance(st, (ast.Try, ast.With, ast.For, ast.While)):
                chain.append(("compound", "other"))

    walk([s for s in fn.body if not (isinstance(s, ast.Expr) and isinstance(s.value, ast.Constant))])
    return chain
