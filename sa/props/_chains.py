"""First-match chain extraction for the two sibling resolvers
(_param_resolution.resolve_runtime_value and inspect_origin).

The chain is decided *semantically*, not from the textual order of the `if` statements: the function
body is read as a decision tree over its guard atoms (`name in processor_config`, `name in context`,
`<default> is not _NO_DEFAULT`, ...), the tree is evaluated for every truth assignment of the atoms,
and the ordered first-match list (guard channel, result channel) is reconstructed from that table.
Two bodies that compute the same function of the atoms (guard written negated with the branches
swapped, `elif` instead of `if`, a conditional expression, a named sub-expression, nesting) therefore
yield the same chain; a body that consults the channels in another order, skips one, or guards one by
something else yields a different chain.
"""
from __future__ import annotations

import ast
import itertools
from typing import Callable, Dict, List, Optional, Set, Tuple

from ..engine import dotted_name, walk_no_nested

PARAMRES = "semantiva/pipeline/_param_resolution.py"

# channel parameters of the two resolvers (keyword-only parameters: part of the API, not renameable locals)
_CONFIG = "processor_config"
_CONTEXT = "context"
_ORIGIN = "key_origin"
_DELETED = "deleted_keys"
_NAME = "name"
_CLS = "processor_cls"
_MAX_ATOMS = 10
_BUILTIN_CALLS = {"getattr", "hasattr", "isinstance", "issubclass", "type", "str", "repr", "bool", "len", "print", "format", "id", "hash"}


def _names(e: ast.AST) -> set:
    return {x.id for x in ast.walk(e) if isinstance(x, ast.Name)}


# ---------------------------------------------------------------------------
# local single-assignment substitution (a named sub-expression reads like the expression itself)
# ---------------------------------------------------------------------------


def _params(fn: ast.AST) -> Set[str]:
    a = fn.args
    out = {x.arg for x in list(a.posonlyargs) + list(a.args) + list(a.kwonlyargs)}
    if a.vararg:
        out.add(a.vararg.arg)
    if a.kwarg:
        out.add(a.kwarg.arg)
    return out


def _single_defs(fn: ast.AST) -> Dict[str, ast.AST]:
    """Locals bound exactly once in *fn* by a plain `x = e`, `x: T = e` or `(x := e)`."""
    bound: Dict[str, List[Optional[ast.AST]]] = {}
    for n in walk_no_nested(fn):
        if isinstance(n, ast.Assign):
            for t in n.targets:
                if isinstance(t, ast.Name):
                    bound.setdefault(t.id, []).append(n.value)
                elif (isinstance(t, (ast.Tuple, ast.List)) and isinstance(n.value, (ast.Tuple, ast.List)) and len(t.elts) == len(n.value.elts)
                      and all(isinstance(x, ast.Name) for x in t.elts) and not any(isinstance(x, ast.Starred) for x in n.value.elts)
                      and not ({x.id for x in t.elts} & _names(n.value))):
                    # `a, b = e1, e2` with no target read on the right: two independent bindings
                    for x, v in zip(t.elts, n.value.elts):
                        bound.setdefault(x.id, []).append(v)
                else:
                    for x in ast.walk(t):
                        if isinstance(x, ast.Name) and isinstance(x.ctx, ast.Store):
                            bound.setdefault(x.id, []).append(None)
        elif isinstance(n, ast.AnnAssign) and isinstance(n.target, ast.Name):
            bound.setdefault(n.target.id, []).append(n.value)
        elif isinstance(n, ast.NamedExpr) and isinstance(n.target, ast.Name):
            bound.setdefault(n.target.id, []).append(n.value)
        elif isinstance(n, ast.Name) and isinstance(n.ctx, (ast.Store, ast.Del)):
            # for-targets, with-targets, augmented assignment, del ...: handled below by the count
            pass
    stores: Dict[str, int] = {}
    for n in walk_no_nested(fn):
        if isinstance(n, ast.Name) and isinstance(n.ctx, (ast.Store, ast.Del)):
            stores[n.id] = stores.get(n.id, 0) + 1
        elif isinstance(n, ast.ExceptHandler) and n.name:
            stores[n.name] = stores.get(n.name, 0) + 2
    pars = _params(fn)
    return {k: v[0] for k, v in bound.items() if len(v) == 1 and v[0] is not None and stores.get(k, 0) == 1 and k not in pars}


def _clone(e: ast.AST) -> ast.AST:
    """Fresh copy of an expression (the repository trees carry parent links: never deepcopy them)."""
    return ast.parse(ast.unparse(e), mode="eval").body


class _Resolve(ast.NodeTransformer):
    def __init__(self, defs: Dict[str, ast.AST]):
        self.defs = defs
        self.depth = 0

    def visit_NamedExpr(self, node: ast.NamedExpr):
        return self.visit(_clone(node.value))

    def visit_Name(self, node: ast.Name):
        if isinstance(node.ctx, ast.Load) and node.id in self.defs and self.depth < 12:
            self.depth += 1
            try:
                return self.visit(_clone(self.defs[node.id]))
            finally:
                self.depth -= 1
        return node


def _resolved(e: ast.AST, defs: Dict[str, ast.AST]) -> ast.AST:
    return _Resolve(defs).visit(_clone(e))


# ---------------------------------------------------------------------------
# guard atoms
# ---------------------------------------------------------------------------


def _surely_bool(e: ast.AST) -> bool:
    """*e* evaluates to True or False whatever its operands are (`in` / `is` tests, `not x`, `bool(x)`)."""
    if isinstance(e, ast.UnaryOp) and isinstance(e.op, ast.Not):
        return True
    if isinstance(e, ast.Compare) and all(isinstance(o, (ast.In, ast.NotIn, ast.Is, ast.IsNot)) for o in e.ops):
        return True
    return isinstance(e, ast.Call) and isinstance(e.func, ast.Name) and e.func.id == "bool" and len(e.args) == 1 and not e.keywords


def _canon(e: ast.AST) -> Tuple[ast.AST, bool]:
    """(positive form, polarity) of a leaf test: `a not in b`, `a is b`, `a != b`, `not a` are the
    negations of `a in b`, `a is not b`, `a == b`, `a`."""
    if isinstance(e, ast.UnaryOp) and isinstance(e.op, ast.Not):
        p, pol = _canon(e.operand)
        return p, not pol
    if isinstance(e, ast.Compare) and len(e.ops) == 1 and isinstance(e.ops[0], (ast.Is, ast.IsNot, ast.Eq, ast.NotEq)) and isinstance(e.comparators[0], ast.Constant) and isinstance(e.comparators[0].value, bool) and _surely_bool(e.left):
        # `(a in b) is True` (a lowered `match <test>: case True:`) says what `a in b` says: the left side is a bool
        p, pol = _canon(e.left)
        same = isinstance(e.ops[0], (ast.Is, ast.Eq)) == e.comparators[0].value
        return p, pol if same else not pol
    if isinstance(e, ast.Compare) and len(e.ops) == 1:
        flip = {ast.NotIn: ast.In, ast.Is: ast.IsNot, ast.NotEq: ast.Eq}
        for neg, pos in flip.items():
            if isinstance(e.ops[0], neg):
                return ast.Compare(left=e.left, ops=[pos()], comparators=e.comparators), False
    return e, True


def is_default_lookup(e: ast.AST) -> bool:
    """The look-up of a parameter's declared default, found by its role and not by the helper's name: a call
    that is handed the parameter's name and the processor class (argument or receiver) and neither the node
    configuration nor the context."""
    if not isinstance(e, ast.Call):
        return False
    fname = dotted_name(e.func) or ""
    if not fname or fname in _BUILTIN_CALLS:
        return False
    args = list(e.args) + [k.value for k in e.keywords]
    if any(isinstance(a, ast.Starred) for a in e.args) or any(k.arg is None for k in e.keywords):
        return False
    direct = [dotted_name(a) for a in args]
    if _NAME not in direct:
        return False
    recv = fname.split(".")[0] if isinstance(e.func, ast.Attribute) else None
    if _CLS not in direct and recv != _CLS:
        return False
    return not ({_CONFIG, _CONTEXT, _ORIGIN, _DELETED} & {x.id for a in args for x in ast.walk(a) if isinstance(x, ast.Name)})


def default_lookups(e: ast.AST) -> List[ast.Call]:
    """Every default look-up (`is_default_lookup`) inside *e*."""
    return [x for x in ast.walk(e) if is_default_lookup(x)]


def _sentinel_test(e: ast.AST) -> Optional[str]:
    """`<default look-up> is not <S>` with S a plain (dotted) name: the name S, the no-default sentinel by role
    (the object the looked-up default is compared with by identity)."""
    if not (isinstance(e, ast.Compare) and len(e.ops) == 1 and isinstance(e.ops[0], (ast.Is, ast.IsNot))):
        return None
    a, b = e.left, e.comparators[0]
    for call, other in ((a, b), (b, a)):
        if is_default_lookup(call) and isinstance(other, (ast.Name, ast.Attribute)):
            s = dotted_name(other)
            if s and s.split(".")[0] not in (_NAME, _CLS, _CONFIG, _CONTEXT, _ORIGIN, _DELETED):
                return s
    return None


def _membership_of_name(e: ast.AST, channel: str) -> bool:
    """`name in <channel>` / `name in <channel>.keys()`"""
    if not (isinstance(e, ast.Compare) and len(e.ops) == 1 and isinstance(e.ops[0], ast.In)):
        return False
    if dotted_name(e.left) != _NAME:
        return False
    c = e.comparators[0]
    if isinstance(c, ast.Call) and isinstance(c.func, ast.Attribute) and c.func.attr == "keys" and not c.args and not c.keywords:
        c = c.func.value
    return dotted_name(c) == channel


def classify_leaf(e: ast.AST, sentinels: Tuple[str, ...] = (), local: Tuple[str, ...] = ()) -> str:
    """Channel a (positive, resolved) guard atom consults, by the data it reads; `?` = reads the
    channel but is not the plain presence test.  *sentinels*: names known (from other tests of the same
    function) to play the no-default sentinel; *local*: names bound inside the function (a sentinel is a
    module-level object, never a local or a parameter)."""
    names = _names(e)
    if _CONFIG in names:
        return "config" if _membership_of_name(e, _CONFIG) else "config?"
    if _ORIGIN in names:
        return "origin" if _membership_of_name(e, _ORIGIN) and _DELETED not in names else "context?"
    if _DELETED in names:
        return "deleted" if _membership_of_name(e, _DELETED) else "context?"
    if _CONTEXT in names:
        return "context" if _membership_of_name(e, _CONTEXT) else "context?"
    if default_lookups(e) or any(dotted_name(x) in sentinels for x in ast.walk(e) if isinstance(x, (ast.Name, ast.Attribute))):
        s = _sentinel_test(e)
        ok = s is not None and isinstance(e.ops[0], ast.IsNot) and s.split(".")[0] not in local
        return "default" if ok else "default?"
    return "other"


def classify_test(test: ast.AST, fn: ast.FunctionDef) -> str:
    """Channel of a whole `if` test (kept for callers that look at one test in isolation)."""
    defs = _single_defs(fn)
    t = _resolved(test, defs)
    if isinstance(t, ast.BoolOp) and isinstance(t.op, ast.And) and len(t.values) == 2:
        labs = sorted((classify_leaf(_canon(v)[0]), _canon(v)[1]) for v in t.values)
        if labs == [("deleted", False), ("origin", True)]:
            return "context"
    p, pol = _canon(t)
    lab = classify_leaf(p)
    if lab == "origin":
        return "context?"
    return lab if pol or lab in ("other",) else lab + "?" if not lab.endswith("?") else lab


def classify_value(v: Optional[ast.AST], defs: Dict[str, ast.AST]) -> str:
    """Which channel's value / label an exit yields."""
    if v is None:
        return "const:None"
    if isinstance(v, ast.Tuple) and v.elts and isinstance(v.elts[0], ast.Constant):
        return str(v.elts[0].value)
    r = _resolved(v, defs)
    names = _names(r)
    if _CONFIG in names:
        return "config"
    if _CONTEXT in names:
        return "context"
    if default_lookups(r):
        return "default"
    if isinstance(r, ast.Constant):
        return f"const:{r.value!r}"
    return "other"


def classify_result(body: List[ast.stmt]) -> str:
    """What a straight-line branch yields (label of its last statement)."""
    if not body:
        return "none"
    last = body[-1]
    if isinstance(last, ast.Raise):
        return _raise_label(last)
    if isinstance(last, ast.Return) and last.value is not None:
        return classify_value(last.value, {})
    return "other"


def _raise_label(st: ast.Raise) -> str:
    if st.exc is None:
        return "raise:?"
    t = st.exc.func if isinstance(st.exc, ast.Call) else st.exc
    return "raise:" + (dotted_name(t) or "?")


DEFAULT_LOCALS: set = set()  # kept for importers; no longer consulted


# ---------------------------------------------------------------------------
# the decision tree and its truth table
# ---------------------------------------------------------------------------


class _Tree:
    def __init__(self, fn: ast.FunctionDef):
        self.fn = fn
        self.defs = _single_defs(fn)
        self.atoms: List[Tuple[str, str]] = []  # (key, label) in order of first appearance
        self._keys: Dict[str, str] = {}
        self.rebinds = sorted(
            {x.id for n in walk_no_nested(fn) for x in ([n] if isinstance(n, ast.Name) else []) if isinstance(x.ctx, (ast.Store, ast.Del)) and x.id in (_NAME, _CONFIG, _CONTEXT, _ORIGIN, _DELETED, "processor_cls")}
        )
        self.body = [s for s in fn.body if not (isinstance(s, ast.Expr) and isinstance(s.value, ast.Constant))]
        self.local: Tuple[str, ...] = tuple(sorted(_params(fn) | {x.id for x in walk_no_nested(fn) if isinstance(x, ast.Name) and isinstance(x.ctx, (ast.Store, ast.Del))}))
        # the no-default sentinel, by role: whatever a looked-up default is compared with by identity somewhere in the body
        self.sentinels: Tuple[str, ...] = ()
        found: Set[str] = set()
        for n in walk_no_nested(fn):
            if isinstance(n, ast.Compare):
                s_ = _sentinel_test(_resolved(n, self.defs))
                if s_ is not None and s_.split(".")[0] not in self.local:
                    found.add(s_)
        self.sentinels = tuple(sorted(found))
        self._collect(self.body)

    # -- atoms
    def _leaves(self, test: ast.AST) -> List[ast.AST]:
        if isinstance(test, ast.BoolOp):
            return [l for v in test.values for l in self._leaves(v)]
        if isinstance(test, ast.UnaryOp) and isinstance(test.op, ast.Not):
            return self._leaves(test.operand)
        if isinstance(test, ast.IfExp):
            return self._leaves(test.test) + self._leaves(test.body) + self._leaves(test.orelse)
        return [test]

    def _note_test(self, test: ast.AST) -> None:
        for leaf in self._leaves(_resolved(test, self.defs)):
            if isinstance(leaf, ast.Constant):
                continue
            p, _pol = _canon(leaf)
            key = ast.unparse(p)
            if key not in self._keys:
                self._keys[key] = classify_leaf(p, self.sentinels, self.local)
                self.atoms.append((key, self._keys[key]))

    def _note_value(self, v: Optional[ast.AST]) -> None:
        if isinstance(v, ast.IfExp):
            self._note_test(v.test)
            self._note_value(v.body)
            self._note_value(v.orelse)

    def _collect(self, stmts: List[ast.stmt]) -> None:
        for st in stmts:
            if isinstance(st, ast.If):
                self._note_test(st.test)
                self._collect(st.body)
                self._collect(st.orelse)
            elif isinstance(st, ast.Return):
                self._note_value(st.value)

    # -- evaluation under a truth assignment
    def _test(self, test: ast.AST, env: Dict[str, bool]) -> bool:
        if isinstance(test, ast.BoolOp):
            if isinstance(test.op, ast.And):
                return all(self._test(v, env) for v in test.values)
            return any(self._test(v, env) for v in test.values)
        if isinstance(test, ast.UnaryOp) and isinstance(test.op, ast.Not):
            return not self._test(test.operand, env)
        if isinstance(test, ast.IfExp):
            return self._test(test.body if self._test(test.test, env) else test.orelse, env)
        if isinstance(test, ast.Constant):
            return bool(test.value)
        p, pol = _canon(test)
        val = env[ast.unparse(p)]
        return val if pol else not val

    def _value(self, v: Optional[ast.AST], env: Dict[str, bool]) -> str:
        if isinstance(v, ast.IfExp):
            return self._value(v.body if self._test(_resolved(v.test, self.defs), env) else v.orelse, env)
        return classify_value(v, self.defs)

    def run(self, stmts: List[ast.stmt], env: Dict[str, bool]) -> Optional[str]:
        for st in stmts:
            if isinstance(st, ast.If):
                r = self.run(st.body if self._test(_resolved(st.test, self.defs), env) else st.orelse, env)
                if r is not None:
                    return r
            elif isinstance(st, ast.Return):
                return self._value(st.value, env)
            elif isinstance(st, ast.Raise):
                return _raise_label(st)
            elif isinstance(st, (ast.Try, ast.With, ast.For, ast.While, ast.AsyncFor, ast.AsyncWith)) or st.__class__.__name__ in ("Match", "TryStar"):
                return "compound"
        return None


def sentinel_names(fn: ast.FunctionDef) -> Tuple[str, ...]:
    """Names that play the no-default sentinel in *fn* (what a looked-up default is compared with by identity)."""
    return _Tree(fn).sentinels


def extract_chain(fn: ast.FunctionDef) -> List[Tuple[str, str]]:
    """Ordered (guard channel, result channel) pairs of a first-match function.

    `[("config", "config"), ("context", "context"), ("default", "default"), ("always", X)]` means:
    the config value whenever the name is configured; otherwise the context value whenever the context
    has it; otherwise the default whenever there is one; otherwise X.  Guard labels: config / context /
    default are the plain presence tests of the three channels (`context` for inspect_origin is
    `name in key_origin and name not in deleted_keys`); a trailing `?` marks a test that reads the
    channel but is not its presence test.
    """
    tree = _Tree(fn)
    chain: List[Tuple[str, str]] = [(f"rebinds:{x}", "other") for x in tree.rebinds]
    atoms = tree.atoms
    if len(atoms) > _MAX_ATOMS:
        return chain + [("compound", "other")]
    keys = [k for k, _ in atoms]
    table: List[Tuple[Dict[str, bool], str]] = []
    for bits in itertools.product((True, False), repeat=len(keys)):
        env = dict(zip(keys, bits))
        r = tree.run(tree.body, env)
        table.append((env, "fallthrough" if r is None else r))

    # candidate guards, in order of first appearance
    Guard = Tuple[str, Callable[[Dict[str, bool]], bool]]
    guards: List[Guard] = []
    origin = next((k for k, lab in atoms if lab == "origin"), None)
    deleted = next((k for k, lab in atoms if lab == "deleted"), None)
    for k, lab in atoms:
        if lab == "origin":
            if deleted is not None:
                guards.append(("context", lambda env, o=k, d=deleted: env[o] and not env[d]))
            guards.append(("context?", lambda env, o=k: env[o]))
        elif lab == "deleted":
            guards.append(("context?", lambda env, d=k: not env[d]))
        else:
            guards.append((lab, lambda env, a=k: env[a]))

    rest = table
    used: Set[int] = set()
    while True:
        results = {r for _e, r in rest}
        if len(results) == 1:
            chain.append(("always", results.pop()))
            return chain
        if not rest:
            return chain
        for i, (lab, pred) in enumerate(guards):
            if i in used:
                continue
            hit = [(e, r) for e, r in rest if pred(e)]
            if hit and len({r for _e, r in hit}) == 1 and len(hit) < len(rest):
                chain.append((lab, hit[0][1]))
                rest = [(e, r) for e, r in rest if not pred(e)]
                used.add(i)
                break
        else:
            # not a first-match list over the presence tests: describe what is left
            for lab, pred in [g for i, g in enumerate(guards) if i not in used]:
                rs = sorted({r for e, r in rest if pred(e)})
                if rs:
                    chain.append((lab + "~", "|".join(rs)))
            return chain


def exit_values(fn: ast.FunctionDef) -> List[Tuple[str, ast.AST]]:
    """(channel label, returned expression with single-assignment locals substituted) for every
    value the function can return (the arms of a returned conditional expression count separately)."""
    defs = _single_defs(fn)
    out: List[Tuple[str, ast.AST]] = []

    def arms(v: Optional[ast.AST]) -> None:
        if isinstance(v, ast.IfExp):
            arms(v.body)
            arms(v.orelse)
        elif v is not None:
            out.append((classify_value(v, defs), _resolved(v, defs)))
        else:
            out.append(("const:None", ast.Constant(value=None)))

    rets = [n for n in walk_no_nested(fn) if isinstance(n, ast.Return)]
    rets.sort(key=lambda r: (r.lineno, r.col_offset))
    for r in rets:
        arms(r.value)
    return out
