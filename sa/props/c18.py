"""C18 - repeated execution leaves no per-run residue in the process.

D1 the component registry cannot pin per-run generated classes (weak / keyed insertion, or every
   reachable creation site memoised),
D2 process-global accumulators (module- and class-level containers with growing mutations,
   stdlib process-wide registrars) are exactly the frozen, bounded ones,
D3 long-lived objects (orchestrators, pipeline, transports, drivers, executors, emitters) do not
   accumulate per run; every publish has a consumer.
"""
from __future__ import annotations

import ast
from fnmatch import fnmatch
from typing import Dict, List, Optional, Set, Tuple

from ..engine import (
    GROWERS,
    AnalysisError,
    FuncNode,
    Repo,
    ancestors,
    call_attr,
    call_name,
    calls_in,
    dotted_name,
    enclosing_class,
    kwarg,
    norm,
    parent,
    qualname_of,
    stmt_of,
    walk_no_nested,
)
from ..report import Report

COMP = "semantiva/core/semantiva_component.py"
CONTAINER_CALLS = {"dict", "list", "set", "defaultdict", "OrderedDict", "deque", "WeakSet", "WeakValueDictionary", "WeakKeyDictionary", "Counter", "ChainMap"}
WEAK_CALLS = {"WeakSet", "WeakValueDictionary"}

# process-global accumulators confirmed by reading: (file, class or None, name) -> why bounded
GLOBAL_TABLE: Dict[Tuple[str, Optional[str], str], str] = {
    (COMP, None, "_COMPONENT_REGISTRY"): "category -> weak set of classes (D1)",
    ("semantiva/execution/component_registry.py", "ExecutionComponentRegistry", "_executors"): "keyed by registered name",
    ("semantiva/execution/component_registry.py", "ExecutionComponentRegistry", "_orchestrators"): "keyed by registered name",
    ("semantiva/execution/component_registry.py", "ExecutionComponentRegistry", "_transports"): "keyed by registered name",
    ("semantiva/registry/name_resolver_registry.py", "NameResolverRegistry", "_resolvers"): "keyed by prefix",
    ("semantiva/registry/parameter_resolver_registry.py", "ParameterResolverRegistry", "_resolvers"): "append guarded by `not in`",
    ("semantiva/registry/parameter_resolver_registry.py", "ParameterResolverRegistry", "_builtin_names"): "set of resolver names",
    ("semantiva/registry/plugin_registry.py", None, "_LOADED_EXTENSIONS"): "set of extension names, guarded by membership",
    ("semantiva/registry/processor_registry.py", "ProcessorRegistry", "_module_history"): "append guarded by _registered_modules membership",
    ("semantiva/registry/processor_registry.py", "ProcessorRegistry", "_processors"): "keyed by processor name",
    ("semantiva/registry/processor_registry.py", "ProcessorRegistry", "_registered_modules"): "set of module names",
}
# instance-level accumulators on long-lived objects: (file, class, attribute) -> why bounded
LONG_LIVED_DIRS = (
    "semantiva/execution/",
    "semantiva/pipeline/pipeline.py",
    "semantiva/trace/drivers/",
    "semantiva/trace/runtime/",
)
INSTANCE_TABLE: Dict[Tuple[str, str, str], str] = {
    ("semantiva/execution/job_queue/queue_orchestrator.py", "QueueSemantivaOrchestrator", "self.pending_futures"): "entry deleted when the job's status arrives",
    ("semantiva/trace/runtime/run_space_emitter.py", "RunSpaceTraceEmitter", "self._seen"): "one entry per launch of this emitter (an emitter lives for one CLI launch)",
}
# stdlib calls that insert into process-wide registries
REGISTRARS = {"weakref.finalize", "finalize", "atexit.register", "signal.signal", "sys.settrace", "sys.setprofile", "threading.excepthook", "gc.callbacks.append", "copyreg.pickle"}
UNBOUNDED_CACHE_DECORATORS = {"cache", "functools.cache", "lru_cache", "functools.lru_cache"}


def _is_container(v: Optional[ast.AST]) -> bool:
    if isinstance(v, (ast.Dict, ast.List, ast.Set, ast.DictComp, ast.ListComp, ast.SetComp)):
        return True
    return isinstance(v, ast.Call) and call_attr(v) in CONTAINER_CALLS


_GROW_CACHE: Dict[int, List[Tuple[str, str, ast.AST, str]]] = {}


def _all_grow_sites(repo: Repo) -> List[Tuple[str, str, ast.AST, str]]:
    key = id(repo)
    if key not in _GROW_CACHE:
        sites = []
        for mod, qn, f in repo.all_functions():
            for n in walk_no_nested(f):
                tgt = None
                if isinstance(n, ast.Call) and isinstance(n.func, ast.Attribute) and n.func.attr in GROWERS:
                    tgt = dotted_name(n.func.value)
                elif isinstance(n, ast.Assign):
                    for t in n.targets:
                        if isinstance(t, ast.Subscript):
                            tgt = dotted_name(t.value)
                if tgt:
                    sites.append((mod.rel, qn, n, tgt))
        _GROW_CACHE.clear()
        _GROW_CACHE[key] = sites
    return _GROW_CACHE[key]


def _growers_of(repo: Repo, rel: str, cls: Optional[str], name: str) -> List[Tuple[str, str, ast.AST]]:
    out = []
    for mrel, qn, n, tgt in _all_grow_sites(repo):
        if tgt.split(".")[-1] != name:
            continue
        head = tgt.split(".")[0]
        if cls is None:
            if (tgt == name and mrel == rel) or (tgt.endswith("." + name) and head not in ("self", "cls")):
                out.append((mrel, qn, n))
        else:
            simple = cls.split(".")[-1]
            ec = enclosing_class(n)
            mod = repo.modules[mrel]
            in_family = ec is not None and (ec.name == simple or any(b[1].name == simple for b in repo.mro(mod, ec)))
            if (head in ("cls", "self") and in_family) or head == simple:
                out.append((mrel, qn, n))
    return out


def run(repo: Repo, R: Report) -> None:
    R.assume(
        "garbage collection reclaims unreferenced classes and objects (cycles included)",
        "names registered at import / registration time (processor names, module names, extension names, resolver prefixes) form a set determined by the configuration, not by the number of runs",
    )
    R.undecided("measured counts of registered classes / gc-tracked objects (nothing is run)", "residue inside third-party libraries")

    # ------------------------------------------------------------------ D1
    r_reg = R.rule("C18-D1-registry-cannot-pin-classes", "the metaclass inserts every new component class into the process-global registry through a weak container (or a configuration-keyed slot), so per-run generated node/adapter/shorthand classes do not accumulate", 2)
    meta_init = repo.func(COMP, "_SemantivaComponentMeta.__init__")
    ins = [c for c in calls_in(meta_init) if isinstance(c.func, ast.Attribute) and c.func.attr in ("append", "add", "setdefault", "__setitem__", "update", "extend")]
    stores = [n for n in ast.walk(meta_init) if isinstance(n, ast.Assign) and any(isinstance(t, ast.Subscript) and "_COMPONENT_REGISTRY" in ast.unparse(t) for t in n.targets)]
    if not ins and not stores:
        raise AnalysisError("_SemantivaComponentMeta.__init__: registry insertion not found")
    weak = False
    strong_site = None
    for c in ins:
        src = ast.unparse(c)
        if "_COMPONENT_REGISTRY" not in src:
            continue
        if c.func.attr == "add" and isinstance(c.func.value, ast.Call) and call_attr(c.func.value) == "setdefault":
            default = c.func.value.args[1] if len(c.func.value.args) > 1 else None
            if isinstance(default, ast.Call) and call_attr(default) in WEAK_CALLS:
                weak = True
            else:
                strong_site = c
        elif c.func.attr in ("append", "extend"):
            strong_site = c
        elif c.func.attr == "add":
            strong_site = strong_site  # receiver resolved below
    for s in stores:
        v = s.value
        if not (isinstance(v, ast.Call) and call_attr(v) in ("ref", "WeakSet", "WeakValueDictionary")):
            # keyed strong slot: acceptable only if the key is the class' qualified name *and* generated classes have distinct names - they do not
            strong_site = s
    reg_decl = next((st for st in repo.module(COMP).tree.body if isinstance(st, (ast.Assign, ast.AnnAssign)) and "_COMPONENT_REGISTRY" in ast.unparse(st.targets[0] if isinstance(st, ast.Assign) else st.target)), None)
    R.check(weak and strong_site is None, r_reg, COMP, "_SemantivaComponentMeta.__init__", norm(stmt_of(ins[0])) if ins else norm(stores[0]),
            "component classes are held strongly (or keyed by a name generated classes share) in the process-global registry: every run's generated node / adapter / shorthand classes stay registered (or evict each other) for the life of the process", meta_init.lineno)
    getter = repo.func(COMP, "get_component_registry")
    rets = [n for n in walk_no_nested(getter) if isinstance(n, ast.Return)]
    ok = bool(rets) and all(not (isinstance(r.value, ast.Name) and r.value.id == "_COMPONENT_REGISTRY") for r in rets)
    R.check(ok, r_reg, COMP, "get_component_registry", "returns a snapshot, not the live weak registry", "callers receive the live registry object (can pin or mutate it)", getter.lineno)

    # ------------------------------------------------------------------ D2
    r_glob = R.rule("C18-D2-global-accumulators", "module- and class-level containers that some function grows are exactly the frozen, bounded registries; no stdlib process-wide registrar (weakref.finalize, atexit, unbounded caches) is fed per run", 11)
    found: Dict[Tuple[str, Optional[str], str], ast.AST] = {}
    for mod in repo.modules.values():
        for st in mod.tree.body:
            if isinstance(st, (ast.Assign, ast.AnnAssign)) and _is_container(getattr(st, "value", None)):
                t = st.targets[0] if isinstance(st, ast.Assign) else st.target
                if isinstance(t, ast.Name):
                    found[(mod.rel, None, t.id)] = st
        for qn, c in mod.defs.items():
            if isinstance(c, ast.ClassDef):
                for st in c.body:
                    if isinstance(st, (ast.Assign, ast.AnnAssign)) and _is_container(getattr(st, "value", None)):
                        t = st.targets[0] if isinstance(st, ast.Assign) else st.target
                        if isinstance(t, ast.Name):
                            found[(mod.rel, qn, t.id)] = st
    R.extra["global_containers_scanned"] = len(found)
    for key, decl in sorted(found.items(), key=str):
        rel, cls, name = key
        if rel.startswith("semantiva/examples/"):
            continue
        gs = _growers_of(repo, rel, cls, name)
        if not gs:
            continue
        repo.consulted.add(rel)
        where = f"{cls}.{name}" if cls else name
        if key in GLOBAL_TABLE:
            R.ok(r_glob, rel, cls or "<module>", f"{where}: {len(gs)} growing site(s)", GLOBAL_TABLE[key], decl.lineno)
        else:
            site = gs[0]
            R.violation(r_glob, rel, cls or "<module>", f"{where} grown by `{norm(stmt_of(site[2]))[:70]}` in {site[1]}",
                        "a new process-global container is grown at run time: entries (and whatever they reference - generated classes, payloads, drivers) survive every run", decl.lineno)
    for key in GLOBAL_TABLE:
        if key not in found and repo.has_module(key[0]):
            R.note(f"frozen accumulator {key} no longer exists")
    # bounded idioms of the frozen entries that append
    pr = repo.func("semantiva/registry/processor_registry.py", "ProcessorRegistry.register_modules")
    src = ast.unparse(pr)
    R.check("in cls._registered_modules" in src and "continue" in src, r_glob, "semantiva/registry/processor_registry.py", "ProcessorRegistry.register_modules", "module history append guarded by membership", "module history grows on every registration call (workers apply the profile per job)", pr.lineno)
    prr = repo.func("semantiva/registry/parameter_resolver_registry.py", "ParameterResolverRegistry.register_resolver")
    R.check("not in cls._resolvers" in ast.unparse(prr), r_glob, "semantiva/registry/parameter_resolver_registry.py", "ParameterResolverRegistry.register_resolver", "resolver append guarded by membership", "resolver list grows on every registration", prr.lineno)
    # stdlib registrars and unbounded caches
    n_reg = 0
    for mod, qn, f in repo.all_functions():
        if mod.rel.startswith("semantiva/examples/"):
            continue
        for c in calls_in(f):
            d = call_name(c) or ""
            if d in REGISTRARS or d.endswith(".finalize") and "weakref" in d:
                n_reg += 1
                R.violation(r_glob, mod.rel, qn, norm(c)[:80], f"`{d}` inserts into a process-wide registry each time this runs; the registered callback keeps its arguments (driver, file, node) alive", c.lineno)
        for dec in getattr(f, "decorator_list", []):
            dn = dotted_name(dec.func if isinstance(dec, ast.Call) else dec) or ""
            if dn in UNBOUNDED_CACHE_DECORATORS:
                unbounded = dn.endswith("cache") and not dn.endswith("lru_cache") or (isinstance(dec, ast.Call) and isinstance(kwarg(dec, "maxsize") or (dec.args[0] if dec.args else None), ast.Constant) and (kwarg(dec, "maxsize") or dec.args[0]).value is None)
                takes_objects = len(f.args.args) > (1 if f.args.args and f.args.args[0].arg in ("self", "cls") else 0)
                if unbounded and takes_objects:
                    R.violation(r_glob, mod.rel, qn, f"@{dn}", "an unbounded memo keyed by its arguments keeps every per-run argument object alive", f.lineno)
    R.ok(r_glob, "semantiva", "<package>", f"stdlib registrars / unbounded caches fed at run time: {n_reg}", "none")

    # ------------------------------------------------------------------ D3
    r_obj = R.rule("C18-D3-long-lived-objects", "orchestrators, Pipeline, transports, drivers, executors and emitters do not grow containers per run (beyond the frozen, bounded ones); every transport.publish has a subscriber that can consume it", 4)
    for mod, qn, c in repo.all_classes():
        if not mod.rel.startswith(LONG_LIVED_DIRS) or "." in qn:
            continue
        hits: Dict[str, ast.AST] = {}
        for f in [n for n in c.body if isinstance(n, FuncNode)]:
            for n in ast.walk(f):
                tgt = None
                if isinstance(n, ast.Call) and isinstance(n.func, ast.Attribute) and n.func.attr in GROWERS:
                    tgt = dotted_name(n.func.value)
                elif isinstance(n, ast.Assign):
                    for t in n.targets:
                        if isinstance(t, ast.Subscript) and not isinstance(t.slice, ast.Constant):
                            tgt = dotted_name(t.value)
                if tgt and tgt.startswith("self.") and tgt.count(".") == 1 and tgt != "self.__dict__":
                    hits.setdefault(tgt, n)
        for attr, site in hits.items():
            repo.consulted.add(mod.rel)
            key = (mod.rel, qn, attr)
            if key in INSTANCE_TABLE:
                R.ok(r_obj, mod.rel, qn, f"{attr} grown by `{norm(stmt_of(site))[:60]}`", INSTANCE_TABLE[key], site.lineno)
            else:
                R.violation(r_obj, mod.rel, qn, f"{attr} grown by `{norm(stmt_of(site))[:70]}`", "a long-lived object accumulates one entry per run / node / job and never releases it", site.lineno)
    qo = repo.func("semantiva/execution/job_queue/queue_orchestrator.py", "QueueSemantivaOrchestrator.run_forever")
    R.check(any(isinstance(n, ast.Delete) and "pending_futures" in ast.unparse(n) for n in ast.walk(qo)) or ".pending_futures.pop(" in ast.unparse(qo), r_obj, "semantiva/execution/job_queue/queue_orchestrator.py", "QueueSemantivaOrchestrator.run_forever", "pending_futures entry released on completion", "completed futures stay registered forever", qo.lineno)
    # publish / subscribe pairing
    patterns = []
    for mod, qn, f in repo.all_functions():
        for c in calls_in(f):
            if call_attr(c) == "subscribe" and c.args and isinstance(c.args[0], ast.Constant) and isinstance(c.args[0].value, str):
                patterns.append(c.args[0].value)
    for mod, qn, f in repo.all_functions():
        if mod.rel.startswith(("semantiva/examples/", "semantiva/execution/transport/")):
            continue
        for c in calls_in(f):
            if call_attr(c) == "publish" and isinstance(c.func, ast.Attribute) and "transport" in (dotted_name(c.func.value) or ""):
                ch = c.args[0] if c.args else kwarg(c, "channel")
                tmpl = None
                if isinstance(ch, ast.Constant):
                    tmpl = str(ch.value)
                elif isinstance(ch, ast.JoinedStr):
                    tmpl = "".join(str(v.value) if isinstance(v, ast.Constant) else "0000" for v in ch.values)
                consumed = tmpl is not None and any(fnmatch(tmpl, p) for p in patterns)
                repo.consulted.add(mod.rel)
                R.check(consumed, r_obj, mod.rel, qn, norm(c)[:90], "messages are published to a channel nothing in the package subscribes to: the in-memory transport retains one Message (data, context) per node per run on a reused Pipeline", c.lineno)

    # ------------------------------------------------------------------ D4
    _run_input_read_only(repo, R)


def _spec_roots(repo: Repo) -> Tuple[ast.ClassDef, Dict[str, ast.AST], List[Tuple[ast.AST, ast.Call, Dict[str, str]]]]:
    """The Pipeline class, its configuration-derived attributes (attr -> defining statement in __init__)
    and the calls `<orchestrator>.execute(...)` with the parameter each such attribute is bound to."""
    mod = repo.module(PIPE)
    pcls = repo.cls(PIPE, "Pipeline")
    init = next((n for n in pcls.body if isinstance(n, FuncNode) and n.name == "__init__"), None)
    if init is None:
        raise AnalysisError("Pipeline.__init__ not found")
    a = init.args
    pos = a.posonlyargs + a.args
    required = {p.arg for p in pos[1:len(pos) - len(a.defaults)]} | {p.arg for p, d in zip(a.kwonlyargs, a.kw_defaults) if d is None}
    derived = set(required)
    attrs: Dict[str, ast.AST] = {}
    changed = True
    while changed:
        changed = False
        for n in walk_no_nested(init):
            if not isinstance(n, (ast.Assign, ast.AnnAssign)) or getattr(n, "value", None) is None:
                continue
            if not any(isinstance(x, ast.Name) and x.id in derived for x in ast.walk(n.value)):
                continue
            for t in (n.targets if isinstance(n, ast.Assign) else [n.target]):
                for x in ast.walk(t):
                    if isinstance(x, ast.Name) and isinstance(x.ctx, ast.Store) and x.id not in derived:
                        derived.add(x.id)
                        changed = True
                    if isinstance(x, ast.Attribute) and isinstance(x.value, ast.Name) and x.value.id == "self" and x.attr not in attrs:
                        attrs[x.attr] = n
                        changed = True
    calls = []
    for f in [n for n in pcls.body if isinstance(n, FuncNode)]:
        for c in calls_in(f):
            if call_attr(c) != "execute" or not isinstance(c.func, ast.Attribute):
                continue
            bound: Dict[str, str] = {}
            for k in c.keywords:
                d = dotted_name(k.value) or ""
                if k.arg and d.startswith("self.") and d[5:] in attrs:
                    bound[k.arg] = d[5:]
            for i, v in enumerate(c.args):
                d = dotted_name(v) or ""
                if d.startswith("self.") and d[5:] in attrs:
                    bound[f"#{i}"] = d[5:]
            if bound:
                calls.append((f, c, bound))
    return pcls, attrs, calls


def _run_input_read_only(repo: Repo, R: Report) -> None:
    r_spec = R.rule(
        "C18-D4-run-input-not-rewritten",
        "what a long-lived Pipeline hands to every run (the specification built from its configuration) is read-only on the run path: "
        "every in-place store reachable from execute() hits an object the run created (a copy down to the stored level), and the Pipeline "
        "never rebinds or mutates those attributes after construction - otherwise the output of run N (generated classes, resolved objects) "
        "is the input of run N+1",
        4,
    )
    pcls, attrs, calls = _spec_roots(repo)
    if not attrs or not calls:
        raise AnalysisError("Pipeline: configuration-derived attributes handed to <orchestrator>.execute not found")
    handed = {a for _f, _c, b in calls for a in b.values()}
    # (a) the Pipeline itself keeps them as built
    for f in [n for n in pcls.body if isinstance(n, FuncNode)]:
        qn = f"Pipeline.{f.name}"
        for n in walk_no_nested(f):
            tgts = n.targets if isinstance(n, ast.Assign) else [n.target] if isinstance(n, (ast.AugAssign, ast.AnnAssign)) and getattr(n, "value", None) is not None else []
            for t in tgts:
                for x in ([t] if not isinstance(t, (ast.Tuple, ast.List)) else list(t.elts)):
                    d = dotted_name(x) or ""
                    if d.startswith("self.") and d[5:] in handed and f.name != "__init__":
                        R.violation(r_spec, PIPE, qn, norm(n), f"`{d}` is handed to every run and rebound after construction: the next run starts from what this one left", n.lineno)
        for st, container in _store_sites(f):
            root = container
            while isinstance(root, (ast.Subscript, ast.Call, ast.Attribute)) and not (isinstance(root, ast.Attribute) and isinstance(root.value, ast.Name)):
                root = root.func if isinstance(root, ast.Call) else root.value
            d = dotted_name(root) or ""
            if d.startswith("self.") and d[5:] in handed:
                R.violation(r_spec, PIPE, qn, norm(st), f"in-place change of `{d}`, which is handed to every run of this Pipeline", st.lineno)
    for attr in sorted(handed):
        R.ok(r_spec, PIPE, "Pipeline", f"self.{attr} bound in __init__ only", "configuration-derived, handed to execute()", attrs[attr].lineno)
    # (b) the run path does not store into them
    flow = _SpecFlow(repo)
    n_targets = 0
    for f, c, bound in calls:
        for tmod, tfn in repo.resolve_call_by_name(c):
            if not isinstance(tfn, FuncNode) or not isinstance(parent(tfn), ast.ClassDef):
                continue
            a = tfn.args
            pos = [p.arg for p in a.posonlyargs + a.args][1:]
            names = set(pos) | {p.arg for p in a.kwonlyargs}
            binding: Dict[str, object] = {}
            for k, attr in bound.items():
                if k.startswith("#"):
                    if int(k[1:]) < len(pos):
                        binding[pos[int(k[1:])]] = SHARED
                elif k in names:
                    binding[k] = SHARED
            if len(binding) != len(bound):
                continue  # another `execute` (different signature)
            n_targets += 1
            flow.analyse(tmod, tfn, binding, (f"{PIPE}:Pipeline.{f.name}",))
    if not n_targets:
        raise AnalysisError("no execute(...) definition accepts what Pipeline hands over")
    for (rel, qn, text), (st, path) in sorted(flow.sites.items(), key=lambda kv: kv[0]):
        R.violation(
            r_spec, rel, qn, text,
            "in-place store into an object owned by the long-lived Pipeline (reached from the specification it hands to every run) on the per-run path: "
            "what this run computed - a generated / specialised class, a resolved object - becomes the input of the next run of the same Pipeline, "
            "so per-run results chain (each run's class derives from the previous run's) or stay pinned for the life of the Pipeline",
            getattr(st, "lineno", 0), list(path),
        )
    for (rel, qn), n in sorted(flow.visited.items()):
        if n and not any(k[0] == rel and k[1] == qn for k in flow.sites):
            R.ok(r_spec, rel, qn, f"{n} in-place store(s) on values derived from the run input: all on run-owned copies", "")
    R.extra["spec_flow_functions"] = len(flow.visited)


# ---------------------------------------------------------------------------------------------- D4
# Ownership analysis of the specification a long-lived Pipeline hands to every run.
#
# Abstract value of an expression: SHARED (the object itself belongs to the Pipeline: a store into it
# survives the run), OWNED (created by this run, or unrelated) or a tree _Own(children, default): the
# object itself is run-owned, what it holds under key k is children[k] (else default).

PIPE = "semantiva/pipeline/pipeline.py"
SHARED, OWNED = "SHARED", "OWNED"
COPY_CALLS = {"dict", "list", "copy", "set", "tuple", "sorted", "frozenset", "OrderedDict"}
VIEW_CALLS = {"items", "values", "enumerate", "zip", "reversed", "iter", "keys"}
STORE_MUTATORS = {
    "append", "extend", "add", "update", "pop", "popitem", "setdefault", "clear", "remove", "insert",
    "discard", "sort", "reverse", "__setitem__", "__delitem__",
}


class _Own:
    __slots__ = ("children", "default")

    def __init__(self, children=None, default=OWNED):
        self.children = dict(children or {})
        self.default = default


def _own_child(v, key):
    if v in (SHARED, OWNED):
        return v
    if key != "*" and key in v.children:
        return v.children[key]
    if key == "*":
        out = v.default
        for c in v.children.values():
            out = _own_join(out, c)
        return out
    return _own_join(v.default, v.children["*"]) if "*" in v.children else v.default


def _own_join(a, b):
    if a == SHARED or b == SHARED:
        return SHARED
    if a == OWNED:
        return b
    if b == OWNED:
        return a
    keys = set(a.children) | set(b.children)
    return _Own({k: _own_join(_own_child(a, k) if k in a.children else a.default, _own_child(b, k) if k in b.children else b.default) for k in keys}, _own_join(a.default, b.default))


def _own_copy(v):
    """Ownership of dict(x) / list(x) / x.copy(): a new top level holding what x held."""
    if v == OWNED:
        return OWNED
    if v == SHARED:
        return _Own(default=SHARED)
    return _Own(v.children, v.default)


def _own_key(v):
    if v in (SHARED, OWNED):
        return v
    return ("T", tuple(sorted((str(k), _own_key(c)) for k, c in v.children.items())), _own_key(v.default))


def _is_related(v) -> bool:
    return v != OWNED


class _SpecFlow:
    """Interprocedural (depth-bounded, memoised) search for stores into objects the Pipeline owns."""

    MAX_DEPTH = 8

    def __init__(self, repo: Repo):
        self.repo = repo
        self.memo: Dict[Tuple[int, tuple], object] = {}
        self.sites: Dict[Tuple[str, str, str], Tuple[ast.AST, Tuple[str, ...]]] = {}
        self.visited: Dict[Tuple[str, str], int] = {}

    # -- one function --------------------------------------------------------------------------
    def analyse(self, mod, fn: ast.AST, params: Dict[str, object], path: Tuple[str, ...]) -> object:
        from ..cfg import CFG

        key = (id(fn), tuple(sorted((k, _own_key(v)) for k, v in params.items())))
        if key in self.memo:
            return self.memo[key]
        self.memo[key] = OWNED  # recursion: assume owned while in progress
        if len(path) > self.MAX_DEPTH:
            return OWNED
        qn = qualname_of(fn)
        here = path + (f"{mod.rel}:{qn}",)
        self.repo.consulted.add(mod.rel)
        g = CFG(fn, may_raise=lambda p: set())
        ctx = _FnCtx(self, mod, fn, g, params, here)
        n_sites = 0
        for st, container in _store_sites(fn):
            v = ctx.value(container, st)
            if _is_related(v) or _mentions(container, params):
                n_sites += 1
            if v == SHARED:
                self.sites.setdefault((mod.rel, qn, norm(st)), (st, here))
        self.visited[(mod.rel, qn)] = self.visited.get((mod.rel, qn), 0) + n_sites
        # calls that receive a related value
        for c in calls_in(fn):
            ctx.call_result(c)
        ret: object = OWNED
        for n in walk_no_nested(fn):
            if isinstance(n, ast.Return) and n.value is not None:
                ret = _own_join(ret, ctx.value(n.value, n))
        self.memo[key] = ret
        return ret


def _mentions(expr: ast.AST, params: Dict[str, object]) -> bool:
    return any(isinstance(x, ast.Name) and x.id in params for x in ast.walk(expr))


def _store_sites(fn: ast.AST) -> List[Tuple[ast.AST, ast.AST]]:
    """(statement, container expression) for every in-place store / delete / mutator call in *fn*."""
    out = []
    for n in walk_no_nested(fn):
        tgts: List[ast.AST] = []
        if isinstance(n, ast.Assign):
            tgts = list(n.targets)
        elif isinstance(n, (ast.AugAssign, ast.AnnAssign)):
            tgts = [n.target]
        elif isinstance(n, ast.Delete):
            tgts = list(n.targets)
        for t in tgts:
            for el in (t.elts if isinstance(t, (ast.Tuple, ast.List)) else [t]):
                if isinstance(el, ast.Subscript):
                    out.append((n, el.value))
        if isinstance(n, ast.Call) and isinstance(n.func, ast.Attribute) and n.func.attr in STORE_MUTATORS:
            out.append((stmt_of(n), n.func.value))
    return out


class _FnCtx:
    def __init__(self, flow: _SpecFlow, mod, fn, g, params: Dict[str, object], path: Tuple[str, ...]):
        self.flow, self.mod, self.fn, self.g, self.params, self.path = flow, mod, fn, g, params, path
        self.name_cache: Dict[Tuple[str, int], object] = {}
        self.call_cache: Dict[int, object] = {}

    def _use_node(self, at: ast.AST) -> Optional[int]:
        st = at
        while st is not None and not self.g.nodes_for(st):
            if st is self.fn:
                return None
            st = parent(st)
        if st is None:
            return None
        ids = self.g.nodes_for(st)
        return ids[0] if ids else None

    def value(self, expr: Optional[ast.AST], at: ast.AST, env: Optional[Dict[str, object]] = None) -> object:
        from ..cfg import reaching_defs

        if expr is None or isinstance(expr, ast.Constant):
            return OWNED
        if isinstance(expr, ast.Name):
            if env and expr.id in env:
                return env[expr.id]
            use = self._use_node(at)
            if use is None:
                return self.params.get(expr.id, OWNED)
            ck = (expr.id, use)
            if ck in self.name_cache:
                return self.name_cache[ck]
            self.name_cache[ck] = OWNED
            defs = reaching_defs(self.g, expr.id, use)
            if not defs:
                out = self.params.get(expr.id, OWNED)
            else:
                out = OWNED
                # a parameter that may still hold its incoming value on some path
                if expr.id in self.params:
                    blocked = {d.id for d in defs if d.id != use}
                    if use in self.g.reach([self.g.entry], blocked=blocked):
                        out = self.params[expr.id]
                for d in defs:
                    out = _own_join(out, self._def_value(d, expr.id))
            self.name_cache[ck] = out
            return out
        if isinstance(expr, ast.Subscript):
            base = self.value(expr.value, at, env)
            if isinstance(expr.slice, ast.Slice):
                return _own_copy(base)
            return _own_child(base, expr.slice.value if isinstance(expr.slice, ast.Constant) else "*")
        if isinstance(expr, ast.Starred):
            return self.value(expr.value, at, env)
        if isinstance(expr, ast.NamedExpr):
            return self.value(expr.value, at, env)
        if isinstance(expr, ast.Call):
            name = call_attr(expr)
            f = expr.func
            if name == "deepcopy":
                return OWNED
            if name == "loads":
                return OWNED
            if name in ("get", "pop", "setdefault") and isinstance(f, ast.Attribute) and expr.args:
                base = self.value(f.value, at, env)
                got = _own_child(base, expr.args[0].value if isinstance(expr.args[0], ast.Constant) else "*")
                if len(expr.args) > 1:
                    got = _own_join(got, self.value(expr.args[1], at, env))
                return got
            if name in COPY_CALLS:
                src = expr.args[0] if expr.args else (f.value if isinstance(f, ast.Attribute) else None)
                out = _own_copy(self.value(src, at, env)) if src is not None else OWNED
                for kw in expr.keywords:  # dict(x, k=v)
                    if kw.arg is not None and _is_related(self.value(kw.value, at, env)):
                        out = _own_join(out if out != OWNED else _Own(), _Own({kw.arg: self.value(kw.value, at, env)}))
                return out
            if name in VIEW_CALLS:
                srcs = list(expr.args) if isinstance(f, ast.Name) else [f.value]
                out = OWNED
                for s in srcs:
                    out = _own_join(out, self.value(s, at, env))
                return out
            if name == "cast" and len(expr.args) == 2:
                return self.value(expr.args[1], at, env)
            if env is None:
                return self.call_result(expr)
            return self._call_with(expr, at, env)
        if isinstance(expr, ast.Dict):
            children: Dict[object, object] = {}
            default: object = OWNED
            related = False
            for k, v in zip(expr.keys, expr.values):
                inner = self.value(v, at, env)
                related = related or _is_related(inner)
                if k is None:
                    if inner == SHARED:
                        default = SHARED
                    elif isinstance(inner, _Own):
                        default = _own_join(default, inner.default)
                        for kk, vv in inner.children.items():
                            children[kk] = vv
                elif isinstance(k, ast.Constant):
                    children[k.value] = inner
                else:
                    children["*"] = _own_join(children.get("*", OWNED), inner)
            return _Own(children, default) if related else OWNED
        if isinstance(expr, (ast.List, ast.Tuple, ast.Set)):
            worst: object = OWNED
            for e in expr.elts:
                worst = _own_join(worst, self.value(e, at, env))
            return _Own({"*": worst}) if _is_related(worst) else OWNED
        if isinstance(expr, (ast.ListComp, ast.SetComp, ast.GeneratorExp, ast.DictComp)):
            env2 = dict(env or {})
            for gen in expr.generators:
                it = self.value(gen.iter, at, env2)
                elem = _own_child(it, "*")
                for nm in [x.id for x in ast.walk(gen.target) if isinstance(x, ast.Name)]:
                    env2[nm] = elem
            elt = expr.value if isinstance(expr, ast.DictComp) else expr.elt
            inner = self.value(elt, at, env2)
            return _Own({"*": inner}) if _is_related(inner) else OWNED
        if isinstance(expr, ast.IfExp):
            return _own_join(self.value(expr.body, at, env), self.value(expr.orelse, at, env))
        if isinstance(expr, ast.BoolOp):
            out = OWNED
            for v in expr.values:
                out = _own_join(out, self.value(v, at, env))
            return out
        return OWNED

    def _def_value(self, d, name: str) -> object:
        a = d.ast
        if d.kind == "for" and isinstance(a, ast.For):
            return _own_child(self.value(a.iter, a), "*")
        if d.kind in ("with", "except"):
            return OWNED
        val = getattr(a, "value", None)
        if val is None:
            return OWNED
        if isinstance(a, ast.AugAssign):
            return _own_join(self.value(a.value, a), OWNED)
        tgts = a.targets if isinstance(a, ast.Assign) else [a.target]
        out: object = OWNED
        for t in tgts:
            if isinstance(t, ast.Name) and t.id == name:
                out = _own_join(out, self.value(val, a))
            elif isinstance(t, (ast.Tuple, ast.List)):
                names = [x.id if isinstance(x, ast.Name) else None for x in t.elts]
                if name in names:
                    if isinstance(val, (ast.Tuple, ast.List)) and len(val.elts) == len(t.elts):
                        out = _own_join(out, self.value(val.elts[names.index(name)], a))
                    else:
                        whole = self.value(val, a)
                        out = _own_join(out, _own_child(whole, names.index(name)) if isinstance(whole, _Own) and names.index(name) in whole.children else _own_child(whole, "*"))
                elif any(isinstance(x, ast.Name) and x.id == name for x in ast.walk(t)):
                    out = _own_join(out, _own_child(_own_child(self.value(val, a), "*"), "*"))
        return out

    # -- calls ---------------------------------------------------------------------------------
    def call_result(self, call: ast.Call) -> object:
        if id(call) in self.call_cache:
            return self.call_cache[id(call)]
        self.call_cache[id(call)] = OWNED
        out = self._call_with(call, call, None)
        self.call_cache[id(call)] = out
        return out

    def _call_with(self, call: ast.Call, at: ast.AST, env) -> object:
        argvals = [(None, self.value(a, at, env)) for a in call.args if not isinstance(a, ast.Starred)]
        kwvals = [(k.arg, self.value(k.value, at, env)) for k in call.keywords if k.arg is not None]
        if not any(_is_related(v) for _k, v in argvals + kwvals):
            return OWNED
        try:
            targets = self.flow.repo.resolve_call(self.mod, call)
        except Exception:
            targets = []
        out: object = OWNED
        for tmod, tfn in targets:
            if not isinstance(tfn, FuncNode):
                continue
            a = tfn.args
            pos = [p.arg for p in a.posonlyargs + a.args]
            deco = {dotted_name(d) for d in tfn.decorator_list}
            in_class = isinstance(parent(tfn), ast.ClassDef)
            if in_class and "staticmethod" not in deco and pos:
                pos = pos[1:]
            binding: Dict[str, object] = {}
            for p, (_k, v) in zip(pos, argvals):
                binding[p] = v
            names = set(pos) | {p.arg for p in a.kwonlyargs}
            for k, v in kwvals:
                if k in names:
                    binding[k] = v
                elif a.kwarg is not None:
                    binding[a.kwarg.arg] = _own_join(binding.get(a.kwarg.arg, OWNED), _Own({"*": v}) if _is_related(v) else OWNED)
            binding = {k: v for k, v in binding.items() if _is_related(v)}
            if not binding:
                continue
            res = self.flow.analyse(tmod, tfn, binding, self.path)
            if tfn.name != "__init__":
                out = _own_join(out, res)
        return out
