"""C18 - repeated execution leaves no per-run residue in the process.

D1 the component registry cannot pin per-run generated classes (weak / keyed insertion, or every
   reachable creation site memoised),
D2 process-global accumulators (module- and class-level containers with growing mutations,
   stdlib process-wide registrars) are exactly the frozen, bounded ones,
D3 long-lived objects (orchestrators, pipeline, transports, drivers, executors, emitters) do not
   accumulate per run; every publish has a consumer,
D4 the specification a long-lived Pipeline hands to every run is read-only on the run path
   (interprocedural ownership analysis: every in-place store reachable from execute() hits a copy the
   run made, never an object the Pipeline owns) and is never rebound / mutated by the Pipeline after
   construction - otherwise run N's generated classes become run N+1's input (subclass chains).
Round 6, two interface conditions between a per-run call site and a longer-lived object it feeds:
D2 log handlers: the handler list of a `logging` logger is process-wide and append-only; a statement that adds a handler
   is either bounded by a type-only existence test or is not requested (truthy argument reaching its enabling parameter,
   followed through parameters / defaults / a once-per-process class latch) from a per-run / per-job / per-launch path,
D3 unconsumed messages die with their pipeline: the transport an unconsumed publish lands on is followed back through
   parameters and attributes; at every run boundary (constructor of the holder, a run entry point) the object handed
   over is none, made for the call, or passed on once - never shared by all turns of a per-job loop.
"""
from __future__ import annotations

import ast
from fnmatch import fnmatch
from typing import Dict, List, Optional, Set, Tuple

from ..engine import (
    GROWERS,
    AnalysisError,
    FuncNode,
    Repo,
    ancestors,
    call_attr,
    call_name,
    calls_in,
    dotted_name,
    enclosing_class,
    enclosing_function,
    kwarg,
    norm,
    parent,
    qualname_of,
    stmt_of,
    walk_no_nested,
)
from ..normal import nfunc
from ..report import Report

COMP = "semantiva/core/semantiva_component.py"
CONTAINER_CALLS = {"dict", "list", "set", "defaultdict", "OrderedDict", "deque", "WeakSet", "WeakValueDictionary", "WeakKeyDictionary", "Counter", "ChainMap"}
WEAK_CALLS = {"WeakSet", "WeakValueDictionary"}

# process-global accumulators confirmed by reading, identified by ROLE - what kind of container it is and through
# which public entry points of the package it is grown - not by its (private) name or the module it is declared in:
# (kind, {(file, public function that grows it)}, name it had when it was read [tie-breaker only], why bounded,
#  membership-guard texts for the appending ones)
ECR = "semantiva/execution/component_registry.py"
NRR = "semantiva/registry/name_resolver_registry.py"
PRR = "semantiva/registry/parameter_resolver_registry.py"
PLUG = "semantiva/registry/plugin_registry.py"
PROC = "semantiva/registry/processor_registry.py"
# the component metaclass is a private class: it is found by role (`_component_metaclass`) and its `__init__` appears in the
# entry-point sets below under this marker, whatever the class is called
META_INIT_ROLE = "<component metaclass>.__init__"
GLOBAL_ROLES: List[Tuple[str, frozenset, str, str]] = [
    ("map", frozenset({(COMP, META_INIT_ROLE)}), "_COMPONENT_REGISTRY", "category -> weak set of classes (D1)"),
    ("map", frozenset({(ECR, "ExecutionComponentRegistry.register_executor")}), "_executors", "keyed by registered name"),
    ("map", frozenset({(ECR, "ExecutionComponentRegistry.register_orchestrator")}), "_orchestrators", "keyed by registered name"),
    ("map", frozenset({(ECR, "ExecutionComponentRegistry.register_transport")}), "_transports", "keyed by registered name"),
    ("map", frozenset({(NRR, "NameResolverRegistry.register_resolver")}), "_resolvers", "keyed by prefix"),
    ("seq", frozenset({(PRR, "ParameterResolverRegistry.register_resolver")}), "_resolvers", "append guarded by `not in`"),
    ("set", frozenset({(PRR, "ParameterResolverRegistry.register_resolver")}), "_builtin_names", "set of resolver names"),
    ("set", frozenset({(PLUG, "load_extensions")}), "_LOADED_EXTENSIONS", "set of extension names, guarded by membership"),
    ("seq", frozenset({(PROC, "ProcessorRegistry.register_modules")}), "_module_history", "append guarded by the membership test on the set of registered module names"),
    ("map", frozenset({(PROC, "ProcessorRegistry.register_processor"), (PROC, "ProcessorRegistry.register_modules")}), "_processors", "keyed by processor name"),
    ("set", frozenset({(PROC, "ProcessorRegistry.register_modules")}), "_registered_modules", "set of module names"),
]
# what an appending registry that lost its membership guard means, per public entry point
APPEND_TEXTS = {
    (PROC, "ProcessorRegistry.register_modules"): ("module history append guarded by membership", "module history grows on every registration call (workers apply the profile per job)"),
    (PRR, "ParameterResolverRegistry.register_resolver"): ("resolver append guarded by membership", "resolver list grows on every registration"),
}
# instance-level accumulators on long-lived objects
LONG_LIVED_DIRS = (
    "semantiva/execution/",
    "semantiva/pipeline/pipeline.py",
    "semantiva/trace/drivers/",
    "semantiva/trace/runtime/",
)
# (file, class, attribute) -> why bounded; the attribute is part of the class's public surface
INSTANCE_TABLE: Dict[Tuple[str, str, str], str] = {
    ("semantiva/execution/job_queue/queue_orchestrator.py", "QueueSemantivaOrchestrator", "self.pending_futures"): "entry deleted when the job's status arrives",
}
# (file, class, public method) -> why a de-duplication set grown there is bounded.  The attribute is private: it is
# recognised by its role - a set that only ever receives `add(k)` in that method, on the branch where `k not in <it>`
INSTANCE_DEDUP_ROLES: Dict[Tuple[str, str, str], str] = {
    ("semantiva/trace/runtime/run_space_emitter.py", "RunSpaceTraceEmitter", "emit_start"): "one entry per launch of this emitter (an emitter lives for one CLI launch)",
}
# stdlib calls that insert into process-wide registries
REGISTRARS = {"weakref.finalize", "finalize", "atexit.register", "signal.signal", "sys.settrace", "sys.setprofile", "threading.excepthook", "gc.callbacks.append", "copyreg.pickle"}
# collector switches: after the first one of a pair, cyclic garbage (node <-> processor, class <-> mro) is no longer
# reclaimed until the second one runs
GC_PAIRS = {"gc.freeze": "gc.unfreeze", "gc.disable": "gc.enable"}
GC_WHY = {
    "gc.freeze": "moves every object alive at that moment - the previous run's Pipeline, its nodes and the node / adapter / shorthand classes generated for it, still "
                 "referenced by the caller's locals and by reference cycles - into the permanent generation, which no later collection examines: they are never reclaimed",
    "gc.disable": "switches the cycle collector off: nodes and generated classes live in reference cycles (node <-> processor, class <-> mro) and are reclaimed by the collector only",
    "gc.set_threshold": "a zero threshold switches the cycle collector off: nodes and generated classes live in reference cycles and are reclaimed by the collector only",
    "gc.set_debug": "with DEBUG_SAVEALL every unreachable object is appended to gc.garbage instead of being freed",
}
WARN_CALLS = {"warnings.warn", "warnings.warn_explicit"}
UNBOUNDED_CACHE_DECORATORS = {"cache", "functools.cache", "lru_cache", "functools.lru_cache"}


def _is_container(v: Optional[ast.AST]) -> bool:
    if isinstance(v, (ast.Dict, ast.List, ast.Set, ast.DictComp, ast.ListComp, ast.SetComp)):
        return True
    return isinstance(v, ast.Call) and call_attr(v) in CONTAINER_CALLS


def _all_grow_sites(repo: Repo) -> List[Tuple[str, str, ast.AST, str]]:
    # memo kept on the Repo object itself: a module-level table keyed by id(repo) would be a process-lifetime cache
    # with a non-injective key (ids are reused once a Repo is collected) - the selftest workers analyse many trees
    # in one process
    cached = repo.__dict__.get("_c18_grow_sites")
    if cached is None:
        sites = []
        for mod, qn, f in repo.all_functions():
            for n in walk_no_nested(f):
                tgt = None
                if isinstance(n, ast.Call) and isinstance(n.func, ast.Attribute) and n.func.attr in GROWERS:
                    tgt = dotted_name(n.func.value)
                elif isinstance(n, ast.Assign):
                    for t in n.targets:
                        if isinstance(t, ast.Subscript):
                            tgt = dotted_name(t.value)
                if tgt:
                    sites.append((mod.rel, qn, n, tgt))
        cached = repo.__dict__["_c18_grow_sites"] = sites
    return cached


def _module_dotted(repo: Repo, rel: str) -> Set[str]:
    return {d for d, m in repo.by_dotted.items() if m.rel == rel}


def _growers_of(repo: Repo, rel: str, cls: Optional[str], name: str) -> List[Tuple[str, str, ast.AST]]:
    """Growing sites of the module-level name / class-level attribute declared in *rel*: in the declaring module, through
    a dotted path ending in the name, and in every module that imports the name (`from .state import _SEEN [as _S]`)."""
    out = []
    declared_as = {f"{d}.{name}" for d in _module_dotted(repo, rel)} if cls is None else set()
    for mrel, qn, n, tgt in _all_grow_sites(repo):
        head = tgt.split(".")[0]
        if cls is None and "." not in tgt and mrel != rel:
            if repo.modules[mrel].imports.get(tgt) in declared_as:  # imported (possibly under another name)
                out.append((mrel, qn, n))
            continue
        if tgt.split(".")[-1] != name:
            continue
        if cls is None:
            if (tgt == name and mrel == rel) or (tgt.endswith("." + name) and head not in ("self", "cls")):
                out.append((mrel, qn, n))
        else:
            simple = cls.split(".")[-1]
            ec = enclosing_class(n)
            mod = repo.modules[mrel]
            in_family = ec is not None and (ec.name == simple or any(b[1].name == simple for b in repo.mro(mod, ec)))
            if (head in ("cls", "self") and in_family) or head == simple:
                out.append((mrel, qn, n))
    return out


def _container_kind(v: Optional[ast.AST]) -> str:
    if isinstance(v, (ast.Dict, ast.DictComp)):
        return "map"
    if isinstance(v, (ast.Set, ast.SetComp)):
        return "set"
    if isinstance(v, (ast.List, ast.ListComp)):
        return "seq"
    name = call_attr(v) if isinstance(v, ast.Call) else None
    if name in ("dict", "defaultdict", "OrderedDict", "Counter", "ChainMap", "WeakValueDictionary", "WeakKeyDictionary"):
        return "map"
    if name in ("set", "WeakSet"):
        return "set"
    return "seq"


def _is_private(name: str) -> bool:
    return name.startswith("_") and not (name.startswith("__") and name.endswith("__"))


def _public_entries(repo: Repo, mrel: str, qn: str, depth: int = 0, seen: Optional[Set[int]] = None) -> Set[Tuple[str, str]]:
    """The public functions through which the function *qn* of *mrel* runs: itself when it is public (or a dunder
    method), the function it is nested in, else - for a private helper, wherever it lives - its callers, transitively.
    A private helper nobody calls stands for itself."""
    seen = set() if seen is None else seen
    mod = repo.modules[mrel]
    fn = mod.defs.get(qn)
    if fn is None or id(fn) in seen:
        return set()
    seen.add(id(fn))
    outer = fn
    for a in ancestors(fn):
        if isinstance(a, FuncNode):
            outer = a
    if outer is not fn:
        return _public_entries(repo, mrel, qualname_of(outer), depth, seen)
    if not _is_private(fn.name) or depth > 3:
        return {(mrel, qn)}
    out: Set[Tuple[str, str]] = set()
    for m2, qn2, f2 in repo.all_functions():
        if f2 is fn:
            continue
        for c in calls_in(f2):
            if call_attr(c) != fn.name:
                continue
            try:
                targets = repo.resolve_call(m2, c)
            except Exception:
                targets = []
            if any(t is fn for _m, t in targets):
                out |= _public_entries(repo, m2.rel, qn2, depth + 1, seen)
                break
    return out or {(mrel, qn)}


def _channel_templates(repo: Repo, mod, f: ast.AST, expr: Optional[ast.AST], depth: int = 0) -> Optional[List[str]]:
    """The channel names *expr* can denote, as fnmatch-able templates (formatted fields -> "0000"); None = unknown.
    Locals are followed to their assignments, parameters to the arguments at the call sites of *f*,
    module-level names to their literal value."""
    if expr is None or depth > 4:
        return None
    if isinstance(expr, ast.Constant) and isinstance(expr.value, str):
        return [expr.value]
    if isinstance(expr, ast.JoinedStr):
        return ["".join(str(v.value) if isinstance(v, ast.Constant) else "0000" for v in expr.values)]
    if isinstance(expr, ast.IfExp):
        a, b = _channel_templates(repo, mod, f, expr.body, depth + 1), _channel_templates(repo, mod, f, expr.orelse, depth + 1)
        return None if a is None or b is None else a + b
    if isinstance(expr, ast.Name):
        from ..engine import assigned_value

        vals = assigned_value(f, expr.id) if isinstance(f, FuncNode) else []
        if vals:
            out: List[str] = []
            for v in vals:
                t = _channel_templates(repo, mod, f, v, depth + 1)
                if t is None:
                    return None
                out.extend(t)
            return out
        if isinstance(f, FuncNode):
            a = f.args
            pos = [p.arg for p in a.posonlyargs + a.args]
            if expr.id in pos or expr.id in [p.arg for p in a.kwonlyargs]:
                skip = 1 if isinstance(parent(f), ast.ClassDef) and pos and pos[0] in ("self", "cls") else 0
                out = []
                n_sites = 0
                for m2, _qn2, f2 in repo.all_functions():
                    for c in calls_in(f2):
                        if call_attr(c) != f.name:
                            continue
                        if not any(fn is f for _m, fn in repo.resolve_call(m2, c)):
                            continue
                        n_sites += 1
                        arg = kwarg(c, expr.id)
                        if arg is None and expr.id in pos:
                            i = pos.index(expr.id) - (skip if isinstance(c.func, ast.Attribute) else 0)
                            arg = c.args[i] if 0 <= i < len(c.args) else None
                        if arg is None:
                            defaults = dict(zip(pos[len(pos) - len(a.defaults):], a.defaults))
                            arg = defaults.get(expr.id)
                        t = _channel_templates(repo, m2, f2, arg, depth + 1)
                        if t is None:
                            return None
                        out.extend(t)
                return out if n_sites else None
        for st in mod.tree.body:
            if isinstance(st, (ast.Assign, ast.AnnAssign)) and getattr(st, "value", None) is not None:
                tg = st.targets[0] if isinstance(st, ast.Assign) else st.target
                if isinstance(tg, ast.Name) and tg.id == expr.id:
                    return _channel_templates(repo, mod, None, st.value, depth + 1)
    return None


def _loop_ancestors(fn: ast.AST, node: ast.AST) -> List[ast.AST]:
    """The loop statements of *fn* that enclose *node* (innermost first)."""
    out = []
    for a in ancestors(node):
        if a is fn:
            break
        if isinstance(a, (ast.For, ast.AsyncFor, ast.While)):
            out.append(a)
    return out


def _raises_unless_plain_container_op(part: ast.AST) -> Set[str]:
    """may_raise for pairing questions: anything that calls, subscripts, imports or raises may raise an Exception,
    except the plain container operations `<name>.add(x)` / `<name>.append(x)` themselves (if they raised, nothing
    was recorded).  KeyboardInterrupt-class aborts are not a way a run completes and are left out."""
    for n in walk_no_nested(part):
        if isinstance(n, ast.Call):
            if isinstance(n.func, ast.Attribute) and n.func.attr in ("add", "append") and dotted_name(n.func.value) and all(isinstance(a, (ast.Name, ast.Constant)) for a in n.args):
                continue
            return {"EXC"}
        if isinstance(n, (ast.Raise, ast.Assert, ast.Await, ast.Yield, ast.YieldFrom, ast.Import, ast.ImportFrom)):
            return {"EXC"}
        if isinstance(n, ast.Subscript) and isinstance(n.ctx, ast.Load):
            return {"EXC"}
    return set()


def _appends_guarded_by_membership(fn: ast.AST, list_name: str) -> Tuple[bool, str]:
    """Every `<x>.<list_name>.append(v)` in *fn* is dominated by a branch edge on which `v not in M` holds,
    where M is the list itself or a container that receives v in the same function (the seen-set idiom).
    A guard on a *separate* seen-set M bounds the list only if the two stay in step: whenever v is appended, v is
    also recorded in M before the guard is evaluated for the next value - on every way the iteration can end
    (fall through, `continue`, a caught exception), not only on the straight path.  Returns (ok, why not)."""
    from ..cfg import CFG, edges_guaranteeing

    from ..engine import assigned_value

    def denotes(e: ast.AST) -> Optional[str]:
        """Dotted name of a container expression, local aliases (`known = cls._seen`) followed."""
        if isinstance(e, ast.Name):
            vals = assigned_value(fn, e.id)
            if len(vals) == 1 and isinstance(vals[0], (ast.Attribute, ast.Name)):
                return denotes(vals[0]) if not (isinstance(vals[0], ast.Name) and vals[0].id == e.id) else e.id
        return dotted_name(e)

    appends = [c for c in calls_in(fn) if isinstance(c.func, ast.Attribute) and c.func.attr in ("append", "insert", "extend") and (denotes(c.func.value) or "").split(".")[-1] == list_name]
    if not appends:
        raise AnalysisError(f"{qualname_of(fn)}: no append to {list_name} found")
    g = CFG(fn, may_raise=lambda p: set())
    gx = CFG(fn, may_raise=_raises_unless_plain_container_op)  # with the exception edges into the handlers
    for c in appends:
        if c.func.attr != "append" or len(c.args) != 1:
            return False, f"`{norm(c)[:60]}` is not a single-value append"
        v = ast.unparse(c.args[0])
        target = denotes(c.func.value)
        recorders: Dict[Optional[str], List[ast.Call]] = {target: []}
        for o in calls_in(fn):
            if isinstance(o.func, ast.Attribute) and o.func.attr in ("add", "append") and len(o.args) == 1 and ast.unparse(o.args[0]) == v:
                recorders.setdefault(denotes(o.func.value), []).append(o)
        ids = g.nodes_for(stmt_of(c))
        if not ids:
            return False, f"`{norm(c)[:60]}`: statement not in the control-flow graph"
        guarded_by: List[Optional[str]] = []
        for member in recorders:

            def atom(e: ast.AST, member=member) -> Optional[bool]:
                if isinstance(e, ast.Compare) and len(e.ops) == 1 and ast.unparse(e.left) == v and denotes(e.comparators[0]) == member:
                    if isinstance(e.ops[0], ast.NotIn):
                        return True
                    if isinstance(e.ops[0], ast.In):
                        return False
                return None

            for n in g.nodes:
                if n.kind in ("if", "while") and n.part is not None:
                    for lab in edges_guaranteeing(n.part, atom):
                        if all(g.dominated_by_edge(t, n.id, lab) for t in ids) and member not in guarded_by:
                            guarded_by.append(member)
        if not guarded_by:
            return False, f"`{norm(c)[:60]}` is not dominated by a `{v} not in <the list / a set that receives {v}>` test"
        if target in guarded_by:
            continue  # the list is its own membership record
        # guarded by a separate seen-set: the append and the recording must be inseparable
        why = ""
        for member in guarded_by:
            rec_nodes = {i for o in recorders[member] for i in gx.nodes_for(stmt_of(o))}
            app_nodes = [i for i in gx.nodes_for(stmt_of(c)) if i not in rec_nodes]
            if not app_nodes:
                why = ""
                break  # recorded in the same statement
            headers = [i for lp in _loop_ancestors(fn, c) for i in gx.nodes_for(lp)]
            # recorded first: no way from the start of the call / of an iteration to the append that skips the recording
            before = gx.reach([gx.entry] + headers, blocked=set(rec_nodes))
            if not any(i in before for i in app_nodes):
                why = ""
                break
            # recorded afterwards: every way the iteration / the call can go on from the append passes the recording
            after = gx.reach(app_nodes, blocked=set(rec_nodes))
            ends = [t for t in headers + [gx.ret_exit] if t in after and t not in app_nodes]
            if not ends:
                why = ""
                break
            path = gx.path_to(after, ends[0])
            why = (f"`{norm(c)[:60]}` is guarded by `{v} not in {member}`, but {member} does not receive {v} on every path on which the list does "
                   f"(e.g. {' -> '.join(x.split(': ', 1)[-1].split(' <-')[0][:40] for x in path[1:4])}): for such a value the guard stays open, and every later call "
                   f"(workers apply the registry profile per job) appends it again - the list, and the profile built from it, grow with the number of runs")
        if why:
            return False, why
    return True, ""


FINISHERS = {"set_result", "set_exception", "cancel"}
UNWRAP_CALLS = {"list", "tuple", "sorted", "iter", "reversed", "set", "frozenset", "enumerate"}


class _ReleaseFlow:
    """A keyed container on a long-lived object that is bounded *because entries are released* (the master's map of
    pending futures): finishing an entry (set_result / set_exception / cancel on a value taken from the container)
    is the last use the owner has for it, so on every way the code goes on from a finishing call - to the next
    message of the service loop or out of the function - the entry is released (del / pop / clear), or it was taken
    out (`pop`) before it was finished.  Helpers are followed with what their parameters denote (the container, an
    entry); a helper that finishes and returns without releasing hands the obligation to its call sites."""

    def __init__(self, repo: Repo, attr: str, within: Set[int]):
        self.repo, self.attr, self.within = repo, attr, within
        self.memo: Dict[Tuple[int, tuple], Tuple[Optional[ast.AST], bool]] = {}
        self.violations: List[Tuple[str, str, ast.AST, str]] = []
        self.finish_sites: Set[int] = set()

    def kind(self, fn: ast.AST, e: Optional[ast.AST], env: Dict[str, str], depth: int = 0) -> Optional[str]:
        """"A": the container; "ELEM": one of its entries; None: anything else."""
        from ..engine import assigned_value

        if e is None or depth > 5:
            return None
        if isinstance(e, ast.NamedExpr):
            return self.kind(fn, e.value, env, depth + 1)
        if isinstance(e, ast.Attribute) and dotted_name(e) == self.attr:
            return "A"
        if isinstance(e, ast.Name):
            kinds = set()
            if e.id in env:
                kinds.add(env[e.id])
            for v in assigned_value(fn, e.id):
                if isinstance(v, ast.Name) and v.id == e.id:
                    continue
                if isinstance(v, ast.Constant) and v.value is None:
                    continue
                kinds.add(self.kind(fn, v, env, depth + 1))
            for lp in walk_no_nested(fn):  # `for k, fut in list(A.items())`, `for fut in A.values()`
                if isinstance(lp, (ast.For, ast.AsyncFor, ast.comprehension)):
                    it = lp.iter
                    while isinstance(it, ast.Call) and call_attr(it) in UNWRAP_CALLS and it.args:
                        it = it.args[0]
                    if isinstance(it, ast.Call) and isinstance(it.func, ast.Attribute) and self.kind(fn, it.func.value, env, depth + 1) == "A":
                        t = lp.target
                        if it.func.attr == "values" and isinstance(t, ast.Name) and t.id == e.id:
                            kinds.add("ELEM")
                        if it.func.attr == "items" and isinstance(t, ast.Tuple) and len(t.elts) == 2 and isinstance(t.elts[1], ast.Name) and t.elts[1].id == e.id:
                            kinds.add("ELEM")
            return kinds.pop() if len(kinds) == 1 else None
        if isinstance(e, ast.Subscript):
            return "ELEM" if self.kind(fn, e.value, env, depth + 1) == "A" else None
        if isinstance(e, ast.Call) and isinstance(e.func, ast.Attribute) and e.func.attr in ("get", "pop", "setdefault", "__getitem__"):
            return "ELEM" if self.kind(fn, e.func.value, env, depth + 1) == "A" else None
        if isinstance(e, ast.IfExp):
            ks = {self.kind(fn, x, env, depth + 1) for x in (e.body, e.orelse) if not (isinstance(x, ast.Constant) and x.value is None)}
            return ks.pop() if len(ks) == 1 else None
        return None

    def _enumerates_container(self, fn: ast.AST, lp: ast.AST, env: Dict[str, str]) -> bool:
        it = getattr(lp, "iter", None)
        while isinstance(it, ast.Call) and call_attr(it) in UNWRAP_CALLS and it.args:
            it = it.args[0]
        if isinstance(it, ast.Call) and isinstance(it.func, ast.Attribute) and it.func.attr in ("items", "values", "keys"):
            it = it.func.value
        return self.kind(fn, it, env) == "A"

    def has_release(self, fn: ast.AST) -> bool:
        """Some statement of *fn* removes entries from the container (named directly or through a local alias)."""
        for n in walk_no_nested(fn):
            if isinstance(n, ast.Delete) and any(isinstance(t, ast.Subscript) and self.kind(fn, t.value, {}) == "A" for t in n.targets):
                return True
            if isinstance(n, ast.Call) and isinstance(n.func, ast.Attribute) and n.func.attr in ("pop", "popitem", "clear") and self.kind(fn, n.func.value, {}) == "A":
                return True
        return False

    def _classify(self, mod, fn: ast.AST, x: ast.AST, env: Dict[str, str]) -> Tuple[bool, bool]:
        """(releases, finishes) for the expression / simple statement *x* evaluated at one CFG node."""
        rel = fin = False
        for n in [x] + list(walk_no_nested(x)) if not isinstance(x, FuncNode) else []:
            if isinstance(n, ast.Delete):
                rel = rel or any(isinstance(t, ast.Subscript) and self.kind(fn, t.value, env) == "A" for t in n.targets)
            elif isinstance(n, (ast.Assign, ast.AnnAssign)) and getattr(n, "value", None) is not None:
                tg = n.targets if isinstance(n, ast.Assign) else [n.target]
                rel = rel or any(isinstance(t, ast.Attribute) and dotted_name(t) == self.attr for t in tg)  # rebound to a fresh map
            elif isinstance(n, ast.Call) and isinstance(n.func, ast.Attribute):
                m = n.func.attr
                if m in ("pop", "popitem", "clear") and self.kind(fn, n.func.value, env) == "A":
                    rel = True
                    continue
                if m in FINISHERS and self.kind(fn, n.func.value, env) == "ELEM":
                    fin = True
                    self.finish_sites.add(id(n))
                    continue
            if isinstance(n, ast.Call):
                for tmod, tfn, env2 in self._callees(mod, fn, n, env):
                    leak, always = self.analyse(tmod, tfn, env2)
                    rel = rel or always
                    fin = fin or leak is not None
        return rel, fin

    def _callees(self, mod, fn: ast.AST, call: ast.Call, env: Dict[str, str]):
        try:
            targets = self.repo.resolve_call(mod, call)
        except Exception:
            targets = []
        for tmod, tfn in targets:
            if not isinstance(tfn, FuncNode) or tfn is fn:
                continue
            a = tfn.args
            pos = [p.arg for p in a.posonlyargs + a.args]
            deco = {dotted_name(d) for d in tfn.decorator_list}
            if isinstance(parent(tfn), ast.ClassDef) and "staticmethod" not in deco and pos and isinstance(call.func, ast.Attribute):
                pos = pos[1:]
            env2: Dict[str, str] = {}
            for p_, v in zip(pos, [x for x in call.args if not isinstance(x, ast.Starred)]):
                k = self.kind(fn, v, env)
                if k:
                    env2[p_] = k
            names = set(pos) | {p.arg for p in a.kwonlyargs}
            for kw_ in call.keywords:
                k = self.kind(fn, kw_.value, env) if kw_.arg in names else None
                if k:
                    env2[kw_.arg] = k
            if env2 or id(tfn) in self.within:
                yield tmod, tfn, env2

    def analyse(self, mod, fn: ast.AST, env: Dict[str, str]) -> Tuple[Optional[ast.AST], bool]:
        """(a finishing statement after which *fn* can return without a release - or None, *fn* releases on every return)."""
        from ..cfg import CFG

        key = (id(fn), tuple(sorted(env.items())))
        if key in self.memo:
            return self.memo[key]
        self.memo[key] = (None, False)
        g = CFG(fn, may_raise=lambda p: set())
        rel_nodes: Set[int] = set()
        fin_nodes: List[int] = []
        for n in g.nodes:
            x = n.part if n.kind in ("if", "for", "while", "with") else n.ast if n.kind == "stmt" else None
            if x is None or isinstance(x, FuncNode + (ast.ClassDef,)):
                continue
            rel, fin = self._classify(mod, fn, x, env)
            if rel:
                rel_nodes.add(n.id)
            elif fin:
                fin_nodes.append(n.id)
        always = bool(rel_nodes) and g.ret_exit not in g.reach([g.entry], blocked=rel_nodes)
        leak: Optional[ast.AST] = None
        qn = qualname_of(fn)
        for c in fin_nodes:
            st = g.nodes[c].ast
            loops = [lp for lp in _loop_ancestors(fn, st) if not self._enumerates_container(fn, lp, env)]
            headers = [i for lp in loops for i in g.nodes_for(lp) if i != c]
            if c not in g.reach([g.entry] + headers, blocked=rel_nodes):
                continue  # taken out of the container before it is finished
            after = g.reach([c], blocked=rel_nodes)
            hit = [h for h in headers if h in after]
            if hit:
                path = g.path_to(after, hit[0])
                self.violations.append((mod.rel, qn, st, " -> ".join(x.split(": ", 1)[-1].split(" <-")[0][:40] for x in path[1:5])))
            elif g.ret_exit in after:
                leak = leak or st
        self.memo[key] = (leak, always)
        return leak, always


REGISTRY = "_COMPONENT_REGISTRY"


def _local_names(fn: ast.AST) -> Set[str]:
    """Names bound inside *fn* (assignment / loop / with / except / comprehension targets), parameters excluded."""
    out: Set[str] = set()
    for n in ast.walk(fn):
        if isinstance(n, ast.Name) and isinstance(n.ctx, ast.Store):
            out.add(n.id)
        elif isinstance(n, ast.ExceptHandler) and n.name:
            out.add(n.name)
    return out


def _component_metaclass(repo: Repo) -> str:
    """Qualified name of the component metaclass in COMP, found by role: the one class of the module that is a metaclass
    (a base - followed through the package - is `type` / `ABCMeta`), defines `__init__`, and is named as `metaclass=` by a
    class of the package."""
    mod = repo.module(COMP)

    def is_meta(m, c: ast.ClassDef, depth: int = 0) -> bool:
        for b in c.bases:
            if (dotted_name(b) or "").split(".")[-1] in ("type", "ABCMeta", "EnumMeta"):
                return True
        if depth < 4:
            for bm, bc in repo.class_bases(m, c):
                if is_meta(bm, bc, depth + 1):
                    return True
        return False

    used: Set[int] = set()
    for m2, _qn, c2 in repo.all_classes():
        for k in c2.keywords:
            if k.arg == "metaclass":
                try:
                    hit = repo.resolve_name(m2, k.value)
                except Exception:
                    hit = None
                if hit is not None and isinstance(hit[1], ast.ClassDef):
                    used.add(id(hit[1]))
    cands = [qn for qn, c in mod.defs.items() if isinstance(c, ast.ClassDef) and id(c) in used and is_meta(mod, c)
             and any(isinstance(n, FuncNode) and n.name == "__init__" for n in c.body)]
    if len(cands) != 1:
        raise AnalysisError(f"{COMP}: component metaclass (a metaclass with __init__ used as `metaclass=` in the package) not found: {cands}")
    return cands[0]


def _registry_insertions(repo: Repo, meta_init: ast.AST) -> Tuple[Optional[ast.AST], str]:
    """Decide, by role, how the metaclass inserts the class being created (its first parameter) into containers:
    every such insertion must go into a self-cleaning weak container (WeakSet / WeakValueDictionary) that is a bucket
    of the registry; the class (or a tuple / reference object holding it) must not be put into any other
    process-global container (a queue in front of the registry pins exactly like a strong registry).  Functions the
    class is handed to are followed.  Returns (offending node or None, reason)."""
    pos = [p.arg for p in meta_init.args.posonlyargs + meta_init.args.args]
    if not pos:
        raise AnalysisError("component metaclass __init__ has no parameters")
    seen: Set[Tuple[int, Tuple[str, ...]]] = set()
    total = 0
    todo: List[Tuple[object, ast.AST, Set[str], int]] = [(repo.module(COMP), meta_init, {pos[0]}, 0)]
    while todo:
        mod, fn, tainted, depth = todo.pop(0)
        key = (id(fn), tuple(sorted(tainted)))
        if key in seen:
            continue
        seen.add(key)
        site, why, n_sites, callees = _class_insertions_in(repo, mod, fn, set(tainted))
        if site is not None:
            return site, why
        total += n_sites
        if depth < 3:
            todo.extend((m, f, t, depth + 1) for m, f, t in callees)
    if total == 0:
        raise AnalysisError("component metaclass __init__: registry insertion not found")
    return None, ""


def _class_insertions_in(repo: Repo, mod, meta_init: ast.AST, tainted: Set[str]):
    """One function of the registration path; *tainted* = the names that denote the class being created (or a
    tuple / list / reference object holding it).  Returns (offending node, reason, sites decided, callees)."""
    from ..engine import assigned_value

    locals_ = _local_names(meta_init)
    a = meta_init.args
    params = {p.arg for p in a.posonlyargs + a.args + a.kwonlyargs} | ({a.vararg.arg} if a.vararg else set()) | ({a.kwarg.arg} if a.kwarg else set())

    def holds(e: Optional[ast.AST]) -> bool:
        """*e* evaluates to the class itself or to a wrapper object that holds it (tuple / list / dict display,
        weakref.ref(...), a conditional of those) - not to something merely computed from it (cls.__name__, cls.f())."""
        if e is None:
            return False
        if isinstance(e, ast.Name):
            return e.id in tainted
        if isinstance(e, (ast.Tuple, ast.List, ast.Set)):
            return any(holds(x) for x in e.elts)
        if isinstance(e, ast.Dict):
            return any(holds(x) for x in list(e.keys) + list(e.values))
        if isinstance(e, ast.Starred):
            return holds(e.value)
        if isinstance(e, ast.NamedExpr):
            return holds(e.value)
        if isinstance(e, ast.IfExp):
            return holds(e.body) or holds(e.orelse)
        if isinstance(e, ast.BoolOp):
            return any(holds(x) for x in e.values)
        if isinstance(e, ast.Call) and call_attr(e) in ("ref", "proxy", "tuple", "list", "dict", "set", "frozenset", "cast"):
            return any(holds(x) for x in e.args)
        return False

    changed = True
    while changed:  # locals that alias / wrap the class: `entry = (cat, cls)`
        changed = False
        for n in ast.walk(meta_init):
            if isinstance(n, (ast.Assign, ast.AnnAssign)) and holds(getattr(n, "value", None)):
                for t in (n.targets if isinstance(n, ast.Assign) else [n.target]):
                    if isinstance(t, ast.Name) and t.id not in tainted:
                        tainted.add(t.id)
                        changed = True

    def mentions_cls(e: ast.AST) -> bool:
        return any(isinstance(x, ast.Name) and x.id in tainted for x in ast.walk(e))

    def is_registry(e: ast.AST) -> bool:
        if isinstance(e, ast.Name) and e.id != REGISTRY:
            vals = assigned_value(meta_init, e.id)
            return bool(vals) and all(is_registry(v) for v in vals)
        return (dotted_name(e) or "").split(".")[-1] == REGISTRY

    def is_weak_ctor(e: Optional[ast.AST]) -> bool:
        return isinstance(e, ast.Call) and call_attr(e) in WEAK_CALLS

    # everything that can become a bucket of the registry (in this function)
    bucket_values: List[ast.AST] = []
    for n in ast.walk(meta_init):
        if isinstance(n, ast.Call) and call_attr(n) == "setdefault" and isinstance(n.func, ast.Attribute) and is_registry(n.func.value) and len(n.args) > 1:
            bucket_values.append(n.args[1])
        if isinstance(n, ast.Assign):
            for t in n.targets:
                if isinstance(t, ast.Subscript) and is_registry(t.value):
                    bucket_values.append(n.value)

    def bucket_weak(e: ast.AST, depth: int = 0) -> Optional[bool]:
        """True: a weak bucket of the registry; False: a strong / non-self-cleaning container; None: not a registry bucket."""
        if depth > 4:
            return False
        if is_weak_ctor(e):
            return True
        if isinstance(e, ast.Call) and call_attr(e) == "setdefault" and isinstance(e.func, ast.Attribute) and is_registry(e.func.value):
            return is_weak_ctor(e.args[1]) if len(e.args) > 1 else False
        if isinstance(e, ast.Call) and call_attr(e) == "get" and isinstance(e.func, ast.Attribute) and is_registry(e.func.value) or isinstance(e, ast.Subscript) and is_registry(e.value):
            cands = [v for v in bucket_values if not (isinstance(v, ast.Name))]
            return bool(cands) and all(is_weak_ctor(v) for v in cands)
        if isinstance(e, ast.Name):
            vals = assigned_value(meta_init, e.id)
            if not vals:
                return None
            # a container created here is a bucket of the registry only if it is stored into the registry
            # (`b = REG[k] = set()`, `REG[k] = b`); otherwise it is local bookkeeping that dies with the call
            stored_names = {b.id for b in bucket_values if isinstance(b, ast.Name)}
            kinds = []
            for v in vals:
                if isinstance(v, ast.Constant) and v.value is None:
                    continue
                fresh = is_weak_ctor(v) or isinstance(v, (ast.List, ast.Dict, ast.Set, ast.ListComp, ast.DictComp, ast.SetComp)) or isinstance(v, ast.Call) and call_attr(v) in CONTAINER_CALLS
                if fresh and not (e.id in stored_names or any(v is b for b in bucket_values)):
                    kinds.append(None)
                else:
                    kinds.append(bucket_weak(v, depth + 1))
            if any(k is False for k in kinds):
                return False
            return True if kinds and all(k is True for k in kinds) else None
        if isinstance(e, ast.NamedExpr):
            return bucket_weak(e.value, depth + 1)
        if isinstance(e, ast.BoolOp) or isinstance(e, ast.IfExp):
            parts = e.values if isinstance(e, ast.BoolOp) else [e.body, e.orelse]
            kinds = [bucket_weak(v, depth + 1) for v in parts]
            return False if any(k is False for k in kinds) else (True if any(k is True for k in kinds) else None)
        if isinstance(e, (ast.List, ast.Dict, ast.Set)) or isinstance(e, ast.Call) and call_attr(e) in CONTAINER_CALLS:
            return False
        return None

    def process_global(e: ast.AST, depth: int = 0) -> Optional[Tuple[str, Optional[ast.AST]]]:
        """(dotted name, declared value or None) when the container expression *e* denotes an object that is not
        local to this call - a module-level name or a class-level attribute reached through one; None for locals,
        parameters and attributes of the class being created."""
        if depth > 4:
            return None
        if isinstance(e, ast.Subscript) or isinstance(e, ast.Call) and isinstance(e.func, ast.Attribute) and e.func.attr in ("setdefault", "get", "__getitem__"):
            # a bucket of a process-global map: `_BY_KIND.setdefault(kind, [])`, `_BY_KIND[kind]`
            g = process_global(e.value if isinstance(e, ast.Subscript) else e.func.value, depth + 1)
            if g is None:
                return None
            inner = e.args[1] if isinstance(e, ast.Call) and e.func.attr == "setdefault" and len(e.args) > 1 else None
            return g[0], inner
        d = dotted_name(e)
        if d is None:
            return None
        head = d.split(".")[0]
        if head in tainted or head in params:
            return None
        if head in locals_:
            if "." in d:
                return None
            for v in assigned_value(meta_init, head):
                if isinstance(v, (ast.Name, ast.Attribute)) and dotted_name(v) != d:
                    g = process_global(v, depth + 1)
                    if g is not None:
                        return g
            return None
        return d, _global_decl(repo, mod, d)

    n_sites = 0
    for n in ast.walk(meta_init):
        container = value = None
        inserted: List[ast.AST] = []
        if isinstance(n, ast.Call) and isinstance(n.func, ast.Attribute) and n.func.attr in GROWERS and any(mentions_cls(a) for a in list(n.args) + [k.value for k in n.keywords]):
            container, value = n.func.value, n
            inserted = list(n.args) + [k.value for k in n.keywords]
        elif isinstance(n, ast.Assign) and mentions_cls(n.value) and any(isinstance(t, ast.Subscript) for t in n.targets):
            container, value = next(t.value for t in n.targets if isinstance(t, ast.Subscript)), n
            inserted = [n.value]
        if container is None:
            continue
        if is_registry(container):
            n_sites += 1
            stored = (n.args[1] if isinstance(n, ast.Call) and len(n.args) > 1 else n.value if isinstance(n, ast.Assign) else None)
            if not (isinstance(stored, ast.Call) and call_attr(stored) in ("ref",) + tuple(WEAK_CALLS)):
                return n, "the class is stored strongly in a slot of the process-global registry: every run's generated node / adapter / shorthand classes stay registered (or, keyed by a name generated classes share, evict each other) for the life of the process", n_sites, []
            continue
        kind = bucket_weak(container)
        if kind is None:
            # not a registry bucket: local bookkeeping is fine, a process-global container is not
            g = process_global(container)
            if g is None or not any(holds(x) for x in inserted):
                continue
            gname, decl = g
            direct = isinstance(n, ast.Call) and n.func.attr == "add" and len(n.args) == 1 and isinstance(n.args[0], ast.Name)
            if is_weak_ctor(decl) and (direct or isinstance(n, ast.Assign)):
                n_sites += 1  # a weak set / weak-valued map beside the registry: self-cleaning
                continue
            n_sites += 1
            return n, (f"the class being created (or a tuple / reference object holding it) is put into the process-global container `{gname}`"
                       + (f" (declared `{norm(decl)[:50]}`)" if decl is not None else "")
                       + ", which is not a self-cleaning weak container: whatever later moves the entries into the weak registry, until then - and for ever in a process "
                       "that only runs pipelines and never reads the registry - every run's generated node / adapter / shorthand classes stay alive, one entry per class per run"), n_sites, []
        n_sites += 1
        if kind is True and not (isinstance(n, ast.Call) and n.func.attr == "add"):
            return n, "the class is stored under a key in a weak-valued bucket: generated classes share qualified names, so classes created per run evict each other and the registry - the count C18 is measured by - no longer reflects the live generated classes (component classes are held strongly or keyed by a name generated classes share)", n_sites, []
        if kind is False:
            ins = n.args[-1] if isinstance(n, ast.Call) and n.args else None
            if isinstance(ins, ast.Call) and call_attr(ins) == "ref":
                return n, "a weak *reference object* per created class is appended to a plain container of the process-global registry: the class dies but its dead weakref.ref stays (only a reader that compacts the list removes it), so the registry gains one gc-tracked object per generated class per run", n_sites, []
            return n, "component classes are held strongly (or keyed by a name generated classes share) in the process-global registry: every run's generated node / adapter / shorthand classes stay registered (or evict each other) for the life of the process", n_sites, []
    # functions the class is handed to (helpers the normal form did not inline: public, other module)
    callees = []
    for c in calls_in(meta_init):
        if isinstance(c.func, ast.Attribute) and c.func.attr in GROWERS:
            continue
        if not any(holds(x) for x in list(c.args) + [k.value for k in c.keywords]):
            continue
        try:
            targets = repo.resolve_call(mod, c)
        except Exception:
            targets = []
        for tmod, tfn in targets:
            if not isinstance(tfn, FuncNode) or tfn.name == "__init__" and isinstance(c.func, ast.Attribute) and isinstance(c.func.value, ast.Call):
                continue  # super().__init__(...)
            ta = tfn.args
            tpos = [p.arg for p in ta.posonlyargs + ta.args]
            deco = {dotted_name(d) for d in tfn.decorator_list}
            if isinstance(parent(tfn), ast.ClassDef) and "staticmethod" not in deco and tpos and isinstance(c.func, ast.Attribute):
                tpos = tpos[1:]
            bound = {p for p, v in zip(tpos, c.args) if holds(v)} | {k.arg for k in c.keywords if k.arg and holds(k.value)}
            if bound:
                callees.append((tmod, tfn, bound))
    return None, "", n_sites, callees


def _global_decl(repo: Repo, mod, dotted: str) -> Optional[ast.AST]:
    """Declared value of the module-level name / class-level attribute *dotted* (imports followed one step)."""
    head, _, rest = dotted.partition(".")

    def top(m, name):
        for st in m.tree.body:
            if isinstance(st, (ast.Assign, ast.AnnAssign)) and getattr(st, "value", None) is not None:
                tg = st.targets[0] if isinstance(st, ast.Assign) else st.target
                if isinstance(tg, ast.Name) and tg.id == name:
                    return st.value
            if isinstance(st, ast.ClassDef) and st.name == name:
                return st
        return None

    node = top(mod, head)
    if node is None and head in getattr(mod, "imports", {}):
        target = mod.imports[head]
        mname, _, sym = target.rpartition(".")
        for m in repo.modules.values():
            if m.rel[:-3].replace("/", ".") in (mname, target) or m.rel[:-3].replace("/", ".") + ".__init__" == mname:
                node = top(m, sym) if m.rel[:-3].replace("/", ".") == mname else None
                if node is not None:
                    break
    for part in [p for p in rest.split(".") if p]:
        if not isinstance(node, ast.ClassDef):
            return None
        nxt = None
        for st in node.body:
            if isinstance(st, (ast.Assign, ast.AnnAssign)) and getattr(st, "value", None) is not None:
                tg = st.targets[0] if isinstance(st, ast.Assign) else st.target
                if isinstance(tg, ast.Name) and tg.id == part:
                    nxt = st.value
        node = nxt
    return None if isinstance(node, ast.ClassDef) else node


def _resolved_call_name(mod, c: ast.Call) -> str:
    """Dotted name of the callee with import aliases undone (`import gc as _gc`, `from warnings import warn as w`)."""
    d = call_name(c) or ""
    head, _, rest = d.partition(".")
    if head in mod.imports:
        d = mod.imports[head] + ("." + rest if rest else "")
    return d


def _per_run_reach(repo: Repo) -> Optional[Dict[int, Tuple[object, ast.AST, Tuple[str, ...]]]]:
    """Functions that run once per run / per job: the call-graph closure (method calls matched by name where the
    receiver is unknown) of the four ways of repeating a run - Pipeline construction and processing, the orchestrators'
    execute, the queue master and worker loops, the CLI run loop, building a pipeline from YAML.  None when the entry
    points cannot be located (callers then treat every function as per-run)."""
    cached = repo.__dict__.get("_c18_per_run_reach", 0)
    if cached != 0:
        return cached
    roots = []
    for mod, qn, f in repo.all_functions():
        if mod.rel.startswith("semantiva/examples/"):
            continue
        cls = enclosing_class(f)
        last = qn.split(".")[-1]
        if last in ("worker_loop", "load_pipeline_from_yaml") and cls is None:
            roots.append((mod, f))
        elif cls is not None and last in ("execute", "enqueue", "run_forever", "submit") and mod.rel.startswith("semantiva/execution/"):
            roots.append((mod, f))
        elif cls is not None and mod.rel == PIPE and cls.name == "Pipeline" and "." not in qn.split("Pipeline.", 1)[-1]:
            roots.append((mod, f))
        elif mod.rel.startswith("semantiva/cli/") and cls is None and "." not in qn and any(
            isinstance(lp, (ast.For, ast.While)) and any(isinstance(x, ast.Call) and call_attr(x) == "process" for x in ast.walk(lp)) for lp in ast.walk(f)
        ):
            roots.append((mod, f))  # the run loop of a launch
    names = {qualname_of(f).split(".")[-1] for _m, f in roots}
    out = None
    if "worker_loop" in names and "execute" in names:
        out = repo.call_graph_closure(roots, by_name_fallback=True, ignore_names=("get", "items", "values", "keys", "append", "add", "update", "pop", "format", "join"))
    repo.__dict__["_c18_per_run_reach"] = out
    repo.__dict__["_c18_per_run_roots"] = roots
    return out


def _per_run_path(repo: Repo, f: ast.AST) -> Tuple[bool, str]:
    """(runs per run / per job, one call path as text)."""
    reach = _per_run_reach(repo)
    if reach is None:
        return True, ""
    top = f
    for a in ancestors(f):
        if isinstance(a, FuncNode):
            top = a
    for cand in (f, top):
        hit = reach.get(id(cand))
        if hit is not None:
            return True, " -> ".join(x.split(":", 1)[-1] for x in hit[2][-4:])
    return False, ""


def _collector_switched_off(mod, f: ast.AST, c: ast.Call, d: str) -> Optional[str]:
    """Why the call *c* (resolved name *d*) leaves the collector unable to reclaim the previous runs' objects; None
    when it does not (not a collector switch, or switched back on every way out of the function)."""
    from ..cfg import CFG

    if d == "gc.set_threshold":
        a0 = c.args[0] if c.args else None
        return GC_WHY[d] if isinstance(a0, ast.Constant) and a0.value == 0 else None
    if d == "gc.set_debug":
        flags = {(dotted_name(x) or "").split(".")[-1] for a in c.args for x in ast.walk(a)}
        return GC_WHY[d] if flags & {"DEBUG_SAVEALL", "DEBUG_LEAK"} else None
    if d not in GC_PAIRS:
        return None
    undo = GC_PAIRS[d]
    if isinstance(f, FuncNode):
        g = CFG(f)
        starts = g.nodes_for(stmt_of(c))

        def undoes(n) -> bool:
            x = n.part if n.part is not None else n.ast
            if x is None or n.id in starts or isinstance(x, FuncNode + (ast.ClassDef,)):
                return False
            return any(isinstance(y, ast.Call) and _resolved_call_name(mod, y) == undo for y in [x] + list(walk_no_nested(x)))

        # from where the switch has happened (its own failure switches nothing off)
        after = [t for st in starts for t, lab in g.successors(st) if lab not in ("EXC", "BASE") and not undoes(g.nodes[t])]
        if starts and not g.must_pass(after, [g.ret_exit, g.exc_exit], undoes):
            return None  # a bracket: undone on every way out
    return GC_WHY[d]


def _run_time_parts_of_text(repo: Repo, mod, f: ast.AST, e: Optional[ast.AST], depth: int = 0) -> List[str]:
    """The sub-expressions that make the text *e* vary from call to call (empty: the text is the same every time this
    line runs).  Literals, literal building (+, %, f-strings, format / join of literals), locals and module-level
    names bound to such texts, and warning objects built from them are constant."""
    from ..engine import assigned_value

    if e is None or isinstance(e, ast.Constant):
        return []
    if depth > 6:
        return [norm(e)[:30]]
    rec = lambda x: _run_time_parts_of_text(repo, mod, f, x, depth + 1)  # noqa: E731
    if isinstance(e, ast.JoinedStr):
        return [p for v in e.values for p in rec(v)]
    if isinstance(e, ast.FormattedValue):
        return rec(e.value)
    if isinstance(e, (ast.Tuple, ast.List)):
        return [p for v in e.elts for p in rec(v)]
    if isinstance(e, ast.BinOp) and isinstance(e.op, (ast.Add, ast.Mod, ast.Mult)):
        return rec(e.left) + rec(e.right)
    if isinstance(e, ast.IfExp):
        return rec(e.body) + rec(e.orelse)
    if isinstance(e, ast.NamedExpr):
        return rec(e.value)
    if isinstance(e, ast.Call):
        fn = e.func
        args = list(e.args) + [k.value for k in e.keywords]
        if isinstance(fn, ast.Attribute) and fn.attr in ("format", "join", "strip", "lower", "upper", "rstrip", "lstrip", "capitalize", "format_map"):
            return rec(fn.value) + [p for a in args for p in rec(a)]
        name = call_attr(e) or ""
        if name in ("str", "repr", "dedent", "fill") or name.endswith(("Warning", "Error")):
            return [p for a in args for p in rec(a)]
        return [norm(e)[:30]]
    if isinstance(e, ast.Name):
        vals = assigned_value(f, e.id) if isinstance(f, FuncNode) else []
        if vals:
            return [e.id] if any(rec(v) for v in vals) else []
        a = f.args if isinstance(f, FuncNode) else None
        if a is not None and e.id in {p.arg for p in a.posonlyargs + a.args + a.kwonlyargs}:
            return [e.id]
        for st in mod.tree.body:
            if isinstance(st, (ast.Assign, ast.AnnAssign)) and getattr(st, "value", None) is not None:
                tg = st.targets[0] if isinstance(st, ast.Assign) else st.target
                if isinstance(tg, ast.Name) and tg.id == e.id:
                    return _run_time_parts_of_text(repo, mod, None, st.value, depth + 1)
        if e.id in mod.imports:
            tgt = mod.imports[e.id]
            m2 = repo.by_dotted.get(tgt.rpartition(".")[0])
            if m2 is not None:
                for st in m2.tree.body:
                    if isinstance(st, (ast.Assign, ast.AnnAssign)) and getattr(st, "value", None) is not None:
                        tg = st.targets[0] if isinstance(st, ast.Assign) else st.target
                        if isinstance(tg, ast.Name) and tg.id == tgt.rpartition(".")[2]:
                            return _run_time_parts_of_text(repo, m2, None, st.value, depth + 1)
        return [e.id]
    return [norm(e)[:30]]


def _callers_closure(repo: Repo, mrel: str, qn: str, depth: int = 3) -> Set[Tuple[str, str]]:
    """The function itself and the functions that (transitively, *depth* steps) call it."""
    out = {(mrel, qn)}
    frontier = [(mrel, qn)]
    for _ in range(depth):
        nxt = []
        for rel, q in frontier:
            fn = repo.modules[rel].defs.get(q)
            if fn is None:
                continue
            for m2, qn2, f2 in repo.all_functions():
                if (m2.rel, qn2) in out:
                    continue
                for c in calls_in(f2):
                    if call_attr(c) != fn.name:
                        continue
                    try:
                        targets = repo.resolve_call(m2, c)
                    except Exception:
                        targets = []
                    if any(t is fn for _m, t in targets):
                        out.add((m2.rel, qn2))
                        nxt.append((m2.rel, qn2))
                        break
        frontier = nxt
    return out


# Template-method hooks: (file, public base class, public method, public parameter of it) -> the name under which findings in
# the hook are registered (known_findings.json is keyed by function).  The hook itself is a *private* abstract method, so it
# is found by its ROLE - the abstract method of the base class that the public method calls on `self` handing over that
# parameter - and a site in an override of it is attributed to `<class>.<registered name>` whatever the hook is called
# today (renaming a private method is behaviour-preserving and must not turn a recorded finding into a new one).
HOOK_ROLES: Dict[Tuple[str, str, str, str], str] = {
    ("semantiva/execution/orchestrator/orchestrator.py", "SemantivaOrchestrator", "execute", "transport"): "_publish",
}


def _hook_role_labels(repo: Repo) -> Dict[int, str]:
    """id(method) -> `<class>.<registered hook name>` for every definition (base class and subclasses) of the abstract
    hooks of HOOK_ROLES.  A role that is not found (or is ambiguous) labels nothing: sites are then reported under the
    name of the function they are in."""
    out: Dict[int, str] = {}
    for (rel, base, entry, param), registered in HOOK_ROLES.items():
        if not repo.has_module(rel):
            continue
        bmod = repo.module(rel)
        try:
            bcls = repo.cls(rel, base)
            raw = repo.func(rel, f"{base}.{entry}")
        except AnalysisError:
            continue
        if param not in _param_names(raw):
            continue
        abstract = {n.name for n in bcls.body if isinstance(n, FuncNode) and any((dotted_name(d) or "").split(".")[-1] == "abstractmethod" for d in n.decorator_list)}
        try:
            efn = nfunc(repo, rel, f"{base}.{entry}", keep=tuple(sorted(abstract)))
        except Exception:
            efn = raw
        self_name = raw.args.args[0].arg if raw.args.args else "self"
        hooks: Set[str] = set()
        for c in calls_in(efn):
            if not (isinstance(c.func, ast.Attribute) and isinstance(c.func.value, ast.Name) and c.func.value.id == self_name and c.func.attr in abstract):
                continue
            handed = list(c.args) + [k.value for k in c.keywords]
            if any(isinstance(a, ast.Name) and a.id == param for a in handed):
                hooks.add(c.func.attr)
        if len(hooks) != 1:
            continue
        hook = next(iter(hooks))
        repo.consulted.add(rel)
        for cm, cc in [(bmod, bcls)] + list(repo.subclasses(bcls)):
            for n in cc.body:
                if isinstance(n, FuncNode) and n.name == hook:
                    out[id(n)] = f"{qualname_of(cc)}.{registered}"
    return out


def _publish_in_normal_form(repo: Repo, rel: str, qn: str, f: ast.AST, c: ast.Call) -> ast.Call:
    """The publish call with every local that is bound exactly once in the function replaced by what it is bound to
    (recursively), so that naming a sub-expression (`processor = node.processor`, `channel = processor.semantic_id()`)
    does not change how the site is reported.  Used to *describe* the site, not to decide anything."""
    import copy

    from ..engine import assigned_value

    stores: Dict[str, int] = {}
    for n in ast.walk(f):
        if isinstance(n, ast.Name) and isinstance(n.ctx, ast.Store):
            stores[n.id] = stores.get(n.id, 0) + 1

    class Subst(ast.NodeTransformer):
        def __init__(self):
            self.depth = 0

        def visit_Name(self, n: ast.Name):
            if isinstance(n.ctx, ast.Load) and stores.get(n.id) == 1 and self.depth < 5:
                vals = assigned_value(f, n.id)
                if len(vals) == 1 and not isinstance(vals[0], (ast.Lambda, ast.Await, ast.Yield, ast.YieldFrom)):
                    self.depth += 1
                    out = self.visit(copy.deepcopy(vals[0]))
                    self.depth -= 1
                    return out
            return n

    try:
        new = Subst().visit(copy.deepcopy(c))
        ast.fix_missing_locations(new)
        ast.unparse(new)
        return new
    except Exception:
        return c


def _payload_pins(repo: Repo, c: ast.Call) -> List[str]:
    """Sub-expressions of the payload of the publish call *c* (everything but the channel) that reference the class
    of an object derived from the node rather than plain data: a method taken without calling it (a bound method
    holds its object and class), `type(x)`, `x.__class__`.  Objects that are themselves handed over whole as payload
    (data, context) are not looked into: they are retained anyway."""
    idx = repo._build_func_index()
    payload = [a for a in c.args[1:]] + [k.value for k in c.keywords if k.arg != "channel"]
    whole = {a.id for a in payload if isinstance(a, ast.Name)}
    out: List[str] = []

    def root(e: ast.AST) -> Optional[str]:
        while isinstance(e, (ast.Attribute, ast.Subscript)):
            e = e.value
        return e.id if isinstance(e, ast.Name) else None

    def is_method(name: str) -> bool:
        defs = idx.get(name, [])
        return bool(defs) and not any((dotted_name(d) or "").split(".")[-1] in ("property", "cached_property") for _m, fn in defs for d in fn.decorator_list)

    up: Dict[int, ast.AST] = {id(ch): n for n in ast.walk(c) for ch in ast.iter_child_nodes(n)}
    for arg in payload:
        for n in ast.walk(arg):
            par = up.get(id(n))
            called = isinstance(par, ast.Call) and par.func is n
            if isinstance(n, ast.Call) and isinstance(n.func, ast.Name) and n.func.id == "getattr" and len(n.args) >= 2 and isinstance(n.args[1], ast.Constant):
                if not called and is_method(str(n.args[1].value)) and root(n.args[0]) not in whole | {None}:
                    out.append(norm(n)[:60])
            elif isinstance(n, ast.Attribute) and isinstance(n.ctx, ast.Load) and not called and not isinstance(par, ast.Attribute):
                if n.attr == "__class__" or is_method(n.attr):
                    if root(n.value) not in whole | {None}:
                        out.append(norm(n)[:60])
            elif isinstance(n, ast.Call) and isinstance(n.func, ast.Name) and n.func.id == "type" and len(n.args) == 1 and not isinstance(par, ast.Attribute):
                if root(n.args[0]) not in whole | {None}:
                    out.append(norm(n)[:60])
    return out


def _dedup_set_role(rel: str, cls_qn: str, attr: str, sites: List[Tuple[ast.AST, ast.AST]]) -> Optional[str]:
    """The frozen reason when *attr* plays the role of a de-duplication set of a frozen (class, public method): every
    growing site is `<attr>.add(k)` in that method, reached only over a branch edge on which `k not in <attr>` holds.
    Decided by role, the attribute's (private) name is irrelevant."""
    from ..cfg import CFG, edges_guaranteeing

    whys = set()
    for f, n in sites:
        why = INSTANCE_DEDUP_ROLES.get((rel, cls_qn, f.name))
        if why is None:
            return None
        if not (isinstance(n, ast.Call) and isinstance(n.func, ast.Attribute) and n.func.attr == "add" and len(n.args) == 1 and not n.keywords):
            return None
        if enclosing_function(n) is not f:
            return None
        v = ast.unparse(n.args[0])

        def atom(e: ast.AST, v=v) -> Optional[bool]:
            if isinstance(e, ast.Compare) and len(e.ops) == 1 and ast.unparse(e.left) == v and dotted_name(e.comparators[0]) == attr:
                if isinstance(e.ops[0], ast.NotIn):
                    return True
                if isinstance(e.ops[0], ast.In):
                    return False
            return None

        g = CFG(f, may_raise=lambda p: set())
        ids = g.nodes_for(stmt_of(n))
        if not ids:
            return None
        ok = False
        for node in g.nodes:
            if node.kind in ("if", "while") and node.part is not None:
                for lab in edges_guaranteeing(node.part, atom):
                    if all(g.dominated_by_edge(t, node.id, lab) for t in ids):
                        ok = True
        if not ok:
            return None
        whys.add(why)
    return whys.pop() if len(whys) == 1 else None


# ---------------------------------------------------------------------------------------------- round 6
# Two interface conditions between a per-run call site and a process-/worker-lifetime object it feeds:
#  * the handler list of a `logging` logger (process-wide, found by role: whatever receives `addHandler`),
#  * the transport on which the orchestrator's unconsumed node messages land.
# Both are decided on the call graph, with arguments bound to parameters by name (positional, keyword, default).

def _call_site_index(repo: Repo) -> Dict[int, List[Tuple[object, ast.AST, ast.Call]]]:
    """id(function) -> [(module, calling function, call)] for every call in a function of the package that resolves to
    it (constructor calls resolve to `__init__`).  A method call on a receiver the resolver cannot type
    (`self.orchestrator.execute(..)`) is matched by name against the definitions whose signature accepts the
    keywords used at the call."""
    idx = repo.__dict__.get("_c18_call_sites")
    if idx is None:
        idx = {}
        for m, _qn, f in repo.all_functions():
            if m.rel.startswith("semantiva/examples/"):
                continue
            for c in calls_in(f):
                try:
                    targets = repo.resolve_call(m, c)
                except Exception:
                    targets = []
                if not targets and isinstance(c.func, ast.Attribute) and not (isinstance(c.func.value, ast.Name) and c.func.value.id in m.imports):
                    kws = {k.arg for k in c.keywords if k.arg}
                    for tm, tf in repo.resolve_call_by_name(c):
                        if not isinstance(tf, FuncNode) or not isinstance(parent(tf), ast.ClassDef):
                            continue
                        a = tf.args
                        names = {p.arg for p in a.posonlyargs + a.args + a.kwonlyargs}
                        if kws <= names or a.kwarg is not None:
                            targets.append((tm, tf))
                for _tm, tf in targets:
                    idx.setdefault(id(tf), []).append((m, f, c))
        repo.__dict__["_c18_call_sites"] = idx
    return idx


def _param_names(fn: ast.AST) -> List[str]:
    a = fn.args
    return [p.arg for p in a.posonlyargs + a.args + a.kwonlyargs]


def _bound_arg(call: ast.Call, fn: ast.AST, pname: str) -> Tuple[str, Optional[ast.AST]]:
    """What the parameter *pname* of *fn* receives at *call*: ("arg", expression), ("default", declared default or
    None when there is none) or ("unknown", None) when star-arguments hide it."""
    a = fn.args
    pos = [p.arg for p in a.posonlyargs + a.args]
    deco = {dotted_name(d) for d in fn.decorator_list}
    if isinstance(parent(fn), ast.ClassDef) and "staticmethod" not in deco and pos and (fn.name == "__init__" or isinstance(call.func, ast.Attribute)):
        pos = pos[1:]
    for k in call.keywords:
        if k.arg == pname:
            return "arg", k.value
    plain = [x for x in call.args]
    if pname in pos:
        i = pos.index(pname)
        if i < len(plain) and not any(isinstance(x, ast.Starred) for x in plain[: i + 1]):
            return "arg", plain[i]
    if any(k.arg is None for k in call.keywords) or any(isinstance(x, ast.Starred) for x in plain):
        return "unknown", None
    all_pos = [p.arg for p in a.posonlyargs + a.args]
    defaults: Dict[str, ast.AST] = dict(zip(all_pos[len(all_pos) - len(a.defaults):], a.defaults))
    defaults.update({p.arg: d for p, d in zip(a.kwonlyargs, a.kw_defaults) if d is not None})
    return "default", defaults.get(pname)


def _service_loops(f: ast.AST) -> List[ast.AST]:
    """The polling loops of a service function (worker / master): `while` loops that subscribe to a channel on each
    turn.  What runs once per job is what such a loop contains; the code around it runs once per service."""
    return [lp for lp in walk_no_nested(f) if isinstance(lp, ast.While) and any(isinstance(x, ast.Call) and call_attr(x) == "subscribe" for x in ast.walk(lp))]


def _per_job_reach(repo: Repo) -> Optional[Tuple[Dict[int, Tuple[object, ast.AST, Tuple[str, ...]]], Dict[int, Tuple[object, ast.AST]]]]:
    """Like `_per_run_reach`, with the service functions entered through their polling loop only: the set-up a worker
    or master does once before it starts polling is not repeated per job."""
    cached = repo.__dict__.get("_c18_per_job_reach", 0)
    if cached != 0:
        return cached
    base = _per_run_reach(repo)
    out = None
    if base is not None:
        ignore = ("get", "items", "values", "keys", "append", "add", "update", "pop", "format", "join")
        roots: List[Tuple[object, ast.AST]] = []
        services: List[Tuple[object, ast.AST]] = []
        setup: List[Tuple[object, ast.AST]] = []  # functions that only lead to a polling loop (the loop moved into a helper)

        def leads_to_service(m, f, depth: int, seen: Set[int]) -> bool:
            if id(f) in seen or depth > 3:
                return False
            seen.add(id(f))
            if _service_loops(f):
                if not any(f is s for _m, s in services):
                    services.append((m, f))
                return True
            hit = False
            for c in calls_in(f):
                try:
                    targets = repo.resolve_call(m, c)
                except Exception:
                    targets = []
                for tm, tf in targets:
                    if isinstance(tf, FuncNode) and tf.name != "__init__" and leads_to_service(tm, tf, depth + 1, seen):
                        hit = True
            if hit:
                setup.append((m, f))
            return hit

        for m, f in repo.__dict__.get("_c18_per_run_roots", []):
            if not leads_to_service(m, f, 0, set()):
                roots.append((m, f))
        for m, f in services:
            for lp in _service_loops(f):
                for c in [x for x in ast.walk(lp) if isinstance(x, ast.Call)]:
                    try:
                        targets = repo.resolve_call(m, c)
                    except Exception:
                        targets = []
                    if not targets and isinstance(c.func, ast.Attribute) and c.func.attr not in ignore:
                        targets = repo.resolve_call_by_name(c)
                    roots.extend((tm, tf) for tm, tf in targets if isinstance(tf, FuncNode) and not any(tf is s for _m, s in services))
        closure = dict(repo.call_graph_closure(roots, by_name_fallback=True, ignore_names=ignore))
        for m, f in services + setup:
            closure.pop(id(f), None)
        out = (closure, {id(f): (m, f) for m, f in services + setup})
    repo.__dict__["_c18_per_job_reach"] = out
    return out


def _runs_per_job(repo: Repo, f: ast.AST, at: ast.AST) -> Tuple[bool, str]:
    """(the node *at* of function *f* is evaluated once per run / job / launch, one call path as text)."""
    both = _per_job_reach(repo)
    if both is None:
        return True, ""
    reach, services = both
    top = f
    for a in ancestors(f):
        if isinstance(a, FuncNode):
            top = a
    if id(top) in services:
        inside = any(any(x is at for x in ast.walk(lp)) for lp in _service_loops(top))
        return inside, (f"the polling loop of {qualname_of(top)}" if inside else "")
    for cand in (f, top):
        hit = reach.get(id(cand))
        if hit is not None:
            return True, " -> ".join(x.split(":", 1)[-1] for x in hit[2][-4:])
    return False, ""


def _const_truth(e: Optional[ast.AST]) -> Optional[bool]:
    """Truth value of a literal (None for anything that is not a literal)."""
    if e is None:
        return False
    if isinstance(e, ast.Constant):
        return bool(e.value)
    if isinstance(e, (ast.List, ast.Tuple, ast.Set)) and not e.elts or isinstance(e, ast.Dict) and not e.keys:
        return False
    return None


def _existence_guard(fn: ast.AST, call: ast.Call) -> Tuple[Optional[bool], str]:
    """How the `<logger>.addHandler(h)` call *call* of *fn* is protected against a second handler:
    (True, text)  it runs only where `any(<test> for x in <logger>.handlers)` is false and <test> looks at the *type*
                  of the installed handlers only - at most one handler per type, whatever happens at run time;
    (False, text) it is guarded by an existence test that compares with run-time state (the current `sys.stdout`
                  object, a path, a parameter): the same request adds another handler whenever that state differs;
    (None, "")    no existence test at all."""
    from ..cfg import CFG, edges_guaranteeing
    from ..engine import assigned_value

    recv = ast.unparse(call.func.value) if isinstance(call.func, ast.Attribute) else ""
    g = CFG(fn, may_raise=lambda p: set())
    ids = g.nodes_for(stmt_of(call))
    if not ids:
        return None, ""

    def existence_test(e: ast.AST, depth: int = 0) -> Optional[ast.AST]:
        """The `any(.. for x in <recv>.handlers)` (or non-emptiness of a list comprehension over it) that *e* denotes."""
        if depth > 3:
            return None
        if isinstance(e, ast.Name):
            vals = assigned_value(fn, e.id)
            return existence_test(vals[0], depth + 1) if len(vals) == 1 else None
        if isinstance(e, ast.Call) and call_attr(e) in ("any", "bool", "len") and len(e.args) == 1:
            return existence_test(e.args[0], depth + 1)
        if isinstance(e, (ast.GeneratorExp, ast.ListComp)) and len(e.generators) == 1:
            it = e.generators[0].iter
            while isinstance(it, ast.Call) and call_attr(it) in UNWRAP_CALLS and it.args:
                it = it.args[0]
            if isinstance(it, ast.Attribute) and ast.unparse(it.value) == recv:
                return e
        return None

    found: List[ast.AST] = []

    def atom(e: ast.AST) -> Optional[bool]:
        t = existence_test(e)
        if t is not None:
            found.append(t)
            return False  # the fact "no such handler yet" holds where the test is false
        return None

    guards: List[ast.AST] = []
    for n in g.nodes:
        if n.kind in ("if", "while") and n.part is not None:
            del found[:]
            for lab in edges_guaranteeing(n.part, atom):
                if all(g.dominated_by_edge(t, n.id, lab) for t in ids):
                    guards.extend(found)
    if not guards:
        return None, ""
    for comp in guards:
        gen = comp.generators[0]
        var = gen.target.id if isinstance(gen.target, ast.Name) else None
        tests = [comp.elt] + list(gen.ifs) if not (isinstance(comp.elt, ast.Name) and comp.elt.id == var) else list(gen.ifs)

        def type_only(t: ast.AST) -> bool:
            if isinstance(t, ast.BoolOp):
                return all(type_only(v) for v in t.values)
            if isinstance(t, ast.UnaryOp) and isinstance(t.op, ast.Not):
                return type_only(t.operand)
            if isinstance(t, ast.Call) and isinstance(t.func, ast.Name) and t.func.id == "isinstance" and len(t.args) == 2:
                return isinstance(t.args[0], ast.Name) and t.args[0].id == var and all(dotted_name(x) for x in (t.args[1].elts if isinstance(t.args[1], ast.Tuple) else [t.args[1]]))
            if isinstance(t, ast.Compare) and len(t.ops) == 1 and isinstance(t.ops[0], (ast.Is, ast.Eq)):
                sides = [t.left, t.comparators[0]]
                return any(isinstance(s, ast.Call) and isinstance(s.func, ast.Name) and s.func.id == "type" for s in sides) and all(
                    dotted_name(s) or isinstance(s, ast.Call) and isinstance(s.func, ast.Name) and s.func.id == "type" for s in sides)
            return False

        if tests and all(type_only(t) for t in tests):
            return True, norm(comp)[:80]
    return False, norm(guards[0])[:90]


def _enabling_param(fn: ast.AST, node: ast.AST) -> Optional[str]:
    """The parameter of *fn* whose truth the evaluation of *node* is conditional on (`if enable: ..`), if any."""
    from ..cfg import CFG, edges_guaranteeing

    g = CFG(fn, may_raise=lambda p: set())
    ids = g.nodes_for(stmt_of(node))
    if not ids:
        return None
    for p in _param_names(fn):
        def atom(e: ast.AST, p=p) -> Optional[bool]:
            return True if isinstance(e, ast.Name) and e.id == p else None

        stored = any(isinstance(x, ast.Name) and x.id == p and isinstance(x.ctx, ast.Store) for x in walk_no_nested(fn))
        if stored:
            continue
        for n in g.nodes:
            if n.kind in ("if", "while") and n.part is not None:
                for lab in edges_guaranteeing(n.part, atom):
                    if all(g.dominated_by_edge(t, n.id, lab) for t in ids):
                        return p
    return None


def _under_process_latch(fn: ast.AST, st: ast.AST) -> bool:
    """The statement *st* of *fn* runs at most once per process: it is reached only where a class-level flag is still
    false (`not self._ready` / `not cls._ready`), and on every way out of the function from there the flag is set on
    the *class* (`type(self)._ready = True`, `cls._ready = True`, `<Class>._ready = True`) - not on the instance,
    which would latch per object."""
    from ..cfg import CFG, edges_guaranteeing

    cls = enclosing_class(fn)
    g = CFG(fn, may_raise=lambda p: set())
    ids = g.nodes_for(st)
    if not ids:
        return False
    sets: Dict[str, List[int]] = {}
    for n in g.nodes:
        x = n.ast if n.kind == "stmt" else None
        if isinstance(x, ast.Assign) and isinstance(x.value, ast.Constant) and x.value.value is True:
            for t in x.targets:
                if isinstance(t, ast.Attribute):
                    on_class = (isinstance(t.value, ast.Name) and (t.value.id == "cls" or cls is not None and t.value.id == cls.name)
                                or isinstance(t.value, ast.Call) and isinstance(t.value.func, ast.Name) and t.value.func.id == "type"
                                or isinstance(t.value, ast.Attribute) and t.value.attr == "__class__")
                    if on_class:
                        sets.setdefault(t.attr, []).append(n.id)
    for flag, setters in sets.items():
        def atom(e: ast.AST, flag=flag) -> Optional[bool]:
            return False if isinstance(e, ast.Attribute) and e.attr == flag else None

        for n in g.nodes:
            if n.kind in ("if", "while") and n.part is not None:
                for lab in edges_guaranteeing(n.part, atom):
                    if all(g.dominated_by_edge(t, n.id, lab) for t in ids):
                        after = g.reach(ids, blocked=set(setters))
                        if g.ret_exit not in after:
                            return True
    return False


def _request_outcomes(gfn: ast.AST, e: Optional[ast.AST], depth: int = 0) -> Set[object]:
    """What the expression *e* of *gfn*, bound to a parameter that enables an installation, can amount to:
    "always" (a truthy literal, or a value computed at run time), ("param", q) (the entry value of gfn's own parameter
    q, handed on - decided at gfn's call sites); the empty set means it is never truthy (`None`, `False`).  Locals
    are followed to their assignments; a truthy literal assigned under a once-per-process class latch does not count."""
    if e is None or depth > 4:
        return set() if e is None else {"always"}
    truth = _const_truth(e)
    if truth is not None:
        return {"always"} if truth else set()
    if isinstance(e, ast.IfExp):
        return _request_outcomes(gfn, e.body, depth + 1) | _request_outcomes(gfn, e.orelse, depth + 1)
    if isinstance(e, ast.BoolOp):
        out: Set[object] = set()
        for v in e.values:
            out |= _request_outcomes(gfn, v, depth + 1)
        return out
    if isinstance(e, ast.NamedExpr):
        return _request_outcomes(gfn, e.value, depth + 1)
    if isinstance(e, ast.Name):
        out = set()
        is_param = e.id in _param_names(gfn)
        if is_param:
            out.add(("param", e.id))
        bound = False
        for x in walk_no_nested(gfn):
            if isinstance(x, ast.Name) and x.id == e.id and isinstance(x.ctx, ast.Store):
                st = stmt_of(x)
                plain = isinstance(st, (ast.Assign, ast.AnnAssign)) and getattr(st, "value", None) is not None and any(t is x for t in (st.targets if isinstance(st, ast.Assign) else [st.target]))
                if not plain:
                    out.add("always")  # unpacked / loop target / with-target: a run-time value
                    bound = True
                    continue
                bound = True
                if isinstance(st.value, ast.Name) and st.value.id == e.id:
                    continue
                t = _const_truth(st.value)
                if t is False or t is True and _under_process_latch(gfn, st):
                    continue
                out |= _request_outcomes(gfn, st.value, depth + 1)
        if not is_param and not bound:
            out.add("always")  # a module-level / closure value
        return out
    return {"always"}


def _handler_installs(repo: Repo, R: Report, r_log) -> None:
    """C18-D2-log-handlers-installed-once (see the rule text)."""
    idx = _call_site_index(repo)
    # (a) the installing statements
    installers: Dict[int, Tuple[object, ast.AST, Optional[str], ast.Call, str]] = {}  # id(fn) -> (mod, fn, enabling parameter, addHandler call, guard text)
    todo: List[int] = []
    n_sites = 0
    for mod, qn, f in repo.all_functions():
        if mod.rel.startswith("semantiva/examples/"):
            continue
        for c in calls_in(f):
            if not (isinstance(c.func, ast.Attribute) and (c.func.attr == "addHandler" or c.func.attr in ("append", "insert", "extend") and (dotted_name(c.func.value) or "").endswith(".handlers"))):
                continue
            n_sites += 1
            repo.consulted.add(mod.rel)
            bounded, text = _existence_guard(f, c)
            if bounded:
                R.ok(r_log, mod.rel, qn, norm(c)[:70], f"runs only where no handler of that type is installed yet (`{text}`): at most one per logger, whatever the run-time state", c.lineno)
                continue
            if id(f) not in installers:
                installers[id(f)] = (mod, f, _enabling_param(f, c), c, text)
                todo.append(id(f))
    R.extra["log_handler_install_sites"] = n_sites
    # (b) who asks for an installation: arguments bound to the enabling parameter, parameters passed through
    requests: List[Tuple[object, ast.AST, ast.Call, int]] = []
    origin: Dict[int, int] = {i: i for i in installers}  # installer -> the function with the addHandler it leads to
    while todo:
        fid = todo.pop()
        _tm, tfn, pname, _c, _t = installers[fid]
        for m, gfn, call in idx.get(fid, []):
            if gfn is tfn:
                continue
            if pname is None:
                requests.append((m, gfn, call, fid))
                continue
            how, arg = _bound_arg(call, tfn, pname)
            if how == "unknown":
                continue
            if how == "default" and arg is None:
                continue  # no argument and no default value: nothing asks
            outcomes = _request_outcomes(gfn, arg)
            if "always" in outcomes:
                requests.append((m, gfn, call, fid))
            for q in sorted(o[1] for o in outcomes if isinstance(o, tuple)):
                # the caller's own parameter, handed on: decided where *it* is bound
                if id(gfn) not in installers:
                    installers[id(gfn)] = (m, gfn, q, call, "")
                    origin[id(gfn)] = origin[fid]
                    todo.append(id(gfn))
    # (c) no such request on a path that runs per run / job / launch
    for m, gfn, call, fid in requests:
        per_run, via = _runs_per_job(repo, gfn, call)
        if not per_run:
            continue
        _om, ofn, _p, add_call, guard = installers[origin[fid]]
        R.violation(r_log, m.rel, qualname_of(gfn), norm(call)[:90],
                    f"this call asks for a log handler to be installed each time it runs, and it runs for every run / job / launch{' (' + via + ')' if via else ''}: it reaches "
                    f"`{norm(add_call)[:50]}` in {qualname_of(ofn)}, which is "
                    + (f"guarded only by `{guard}` - an existence test against run-time state (the stream object that is current at that moment), not against a configuration-determined key: "
                       "whenever that state differs from the one an earlier launch saw (captured / redirected output, a new path) " if guard else "not guarded by any existence test: every time ")
                    + "another handler is appended to the process-wide logger's handler list. Handlers are never removed: each keeps its stream alive and receives every later record, so live objects and "
                    "the cost of each log call grow with the number of runs", call.lineno)
    for fid in sorted(set(origin.values()), key=lambda i: (installers[i][0].rel, installers[i][1].lineno)):
        om, ofn, _p, add_call, guard = installers[fid]
        mine = [r for r in requests if origin[r[3]] == fid]
        if not any(_runs_per_job(repo, r[1], r[2])[0] for r in mine):
            R.ok(r_log, om.rel, qualname_of(ofn), norm(add_call)[:70],
                 f"may add a handler per request ({'guard `' + guard + '` depends on run-time state' if guard else 'no existence guard'}); {len(mine)} requesting call site(s), none on a per-run path (explicit requests are made once per process / service)", add_call.lineno)
    R.extra["log_handler_requests"] = len(requests)


def _transport_lifetime(repo: Repo, R: Report, r_own, unconsumed: List[Tuple[object, ast.AST, ast.Call]]) -> None:
    """C18-D3-unconsumed-messages-die-with-their-pipeline (see the rule text)."""
    from ..engine import assigned_value

    if not unconsumed:
        R.ok(r_own, "semantiva", "<package>", "no transport.publish without a subscriber", "nothing is retained on a transport, whoever owns it")
        return
    idx = _call_site_index(repo)
    # a hand-over is a lifetime question only at a *run boundary*: the constructor (or setter) of the object that keeps
    # the transport for its runs, a function that is itself one run (execute / process), and whatever passes a
    # transport on to those; inside one run (execute -> its helpers, node after node) every call shares the run's transport
    _per_run_reach(repo)
    run_entries = {id(f) for _m, f in repo.__dict__.get("_c18_per_run_roots", [])}
    sinks: Dict[Tuple[int, str], Tuple[object, ast.AST, Tuple[str, ...], bool]] = {}   # (id(fn), parameter) -> (mod, fn, chain, at / above a run boundary)
    attr_sinks: Dict[Tuple[int, str], Tuple[object, ast.ClassDef, Tuple[str, ...]]] = {}  # (id(class), attribute)
    todo: List[Tuple[str, Tuple[int, str]]] = []

    def feed(mod, fn: ast.AST, e: Optional[ast.AST], chain: Tuple[str, ...], boundary: bool, depth: int = 0) -> None:
        """*e*, evaluated in *fn*, becomes the transport of an unconsumed publish: follow it to parameters / attributes."""
        if e is None or depth > 4:
            return
        if isinstance(e, (ast.BoolOp,)):
            for v in e.values:
                feed(mod, fn, v, chain, boundary, depth + 1)
        elif isinstance(e, ast.IfExp):
            feed(mod, fn, e.body, chain, boundary, depth + 1)
            feed(mod, fn, e.orelse, chain, boundary, depth + 1)
        elif isinstance(e, ast.NamedExpr):
            feed(mod, fn, e.value, chain, boundary, depth + 1)
        elif isinstance(e, ast.Name):
            if e.id in _param_names(fn) and (id(fn), e.id) not in sinks:
                sinks[(id(fn), e.id)] = (mod, fn, chain, boundary or id(fn) in run_entries)
                todo.append(("param", (id(fn), e.id)))
            for v in assigned_value(fn, e.id):
                if not (isinstance(v, ast.Name) and v.id == e.id):
                    feed(mod, fn, v, chain, boundary, depth + 1)
        elif isinstance(e, ast.Attribute) and isinstance(e.value, ast.Name) and e.value.id == "self":
            cls = enclosing_class(fn)
            if cls is not None and (id(cls), e.attr) not in attr_sinks:
                attr_sinks[(id(cls), e.attr)] = (mod, cls, chain)
                todo.append(("attr", (id(cls), e.attr)))

    for mod, f, c in unconsumed:
        if isinstance(c.func, ast.Attribute):
            feed(mod, f, c.func.value, (f"{qualname_of(f)}: `{norm(c)[:50]}`",), False)
    checked: List[Tuple[object, ast.AST, ast.Call, ast.AST, str, Optional[ast.AST], Tuple[str, ...]]] = []
    while todo:
        kind, key = todo.pop()
        if kind == "attr":
            mod, cls, chain = attr_sinks[key]
            family = [(mod, cls)] + list(repo.subclasses(cls))
            for cm, cc in family:
                for meth in [n for n in cc.body if isinstance(n, FuncNode)]:
                    for x in walk_no_nested(meth):
                        if isinstance(x, (ast.Assign, ast.AnnAssign)) and getattr(x, "value", None) is not None:
                            tg = x.targets if isinstance(x, ast.Assign) else [x.target]
                            if any(isinstance(t, ast.Attribute) and isinstance(t.value, ast.Name) and t.value.id == "self" and t.attr == key[1] for t in tg):
                                feed(cm, meth, x.value, chain + (f"{qualname_of(meth)}: `{norm(x)[:50]}`",), True)
            continue
        mod, fn, chain, boundary = sinks[key]
        for m, gfn, call in idx.get(key[0], []):
            how, arg = _bound_arg(call, fn, key[1])
            if how == "unknown":
                continue
            if boundary:
                checked.append((m, gfn, call, fn, key[1], arg if how == "arg" else None, chain))
            if how == "arg":
                feed(m, gfn, arg, chain + (f"{qualname_of(gfn)}: `{norm(call)[:50]}`",), boundary)
    # every hand-over of a transport into that flow: the object must not outlive what it is handed to
    seen_calls: Set[int] = set()
    for m, gfn, call, fn, pname, arg, chain in checked:
        if id(call) in seen_calls:
            continue
        seen_calls.add(id(call))
        repo.consulted.add(m.rel)
        what = f"`{pname}` of {qualname_of(fn)} at `{norm(call)[:60]}`"
        if arg is None or isinstance(arg, ast.Constant) and arg.value is None:
            R.ok(r_own, m.rel, qualname_of(gfn), what, "no transport handed over: the callee creates its own, which dies with it", call.lineno)
            continue
        why = _outlives_the_call(repo, gfn, call, arg, holder=fn.name == "__init__")
        if why is None:
            R.ok(r_own, m.rel, qualname_of(gfn), what, "the transport handed over is as short-lived as the call (created for it, or the caller's own parameter / attribute passed on once)", call.lineno)
            continue
        R.violation(r_own, m.rel, qualname_of(gfn), norm(call)[:90],
                    f"{why}, and it becomes the transport on which node outputs are published without a subscriber ({' <- '.join(chain[:4])}): nothing in the package consumes those "
                    "channels, so the one Message per node per run - with the run's data, its context and their loggers - no longer dies with the per-run / per-job Pipeline but stays queued on "
                    "the longer-lived transport: its population of live objects grows with the number of runs / jobs, and every subscription scan walks the ever longer channel map", call.lineno)


def _outlives_the_call(repo: Repo, gfn: ast.AST, call: ast.Call, arg: ast.AST, holder: bool) -> Optional[str]:
    """Why the object *arg* evaluates to outlives the repeated evaluation of *call* in *gfn* (None: it does not):
    it is bound outside a loop that repeats the call (the caller's parameter, a local set up before the loop), or -
    when the callee is a constructor that keeps it (*holder*) on a per-run path - an attribute of the long-lived
    caller / a module-level object."""
    from ..cfg import CFG, reaching_defs

    loops = _loop_ancestors(gfn, call)
    if isinstance(arg, (ast.BoolOp, ast.IfExp)):
        parts = arg.values if isinstance(arg, ast.BoolOp) else [arg.body, arg.orelse]
        for v in parts:
            why = _outlives_the_call(repo, gfn, call, v, holder)
            if why:
                return why
        return None
    if isinstance(arg, ast.Name):
        if loops:
            g = CFG(gfn, may_raise=lambda p: set())
            use = g.nodes_for(stmt_of(call))
            defs = [d for u in use for d in reaching_defs(g, arg.id, u)]
            outer = loops[-1]
            inside = {id(x) for x in ast.walk(outer)}
            is_param = arg.id in _param_names(gfn)
            outside = [d for d in defs if id(d.ast) not in inside]
            if outside or (is_param and not defs) or (is_param and use and any(u in g.reach([g.entry], blocked={d.id for d in defs}) for u in use)):
                src = f"the parameter `{arg.id}` of {qualname_of(gfn)}" if is_param and not outside else f"`{arg.id}`, bound before the loop (`{norm(outside[0].ast)[:40]}`)"
                return f"{src} is one object for all turns of the loop `{norm(outer)[:40].split(':')[0]}:` that repeats this call once per run / job"
        return None
    if isinstance(arg, ast.Attribute) and holder:
        d = dotted_name(arg) or ""
        per_run, via = _runs_per_job(repo, gfn, call)
        if d.startswith("self.") and (per_run or loops):
            return f"`{d}` belongs to the long-lived object whose method {qualname_of(gfn)} runs per run / job{' (' + via + ')' if via else ''}"
    return None


# ---------------------------------------------------------------------------------------------- round 7
# Interface condition between the package and the libraries it uses: a class-level table of a *library* class (PyYAML's
# implicit-resolver / constructor / representer tables, inherited by every loader subclass the package declares), a
# module-level list of a library module (`sys.path`, `sys.meta_path`, codec search functions, audit hooks, fork handlers)
# lives as long as the process.  The package owns none of them, so D2's scan of the package's own containers cannot see
# them: the construct that feeds one is found by role - a registration-style method the package does not define, called on
# an object that is (or derives from / is an attribute of) something imported from outside the package.

# methods of library classes / modules that put an entry into a class-level or module-level table, by what the table is:
# "append" - one more entry per call, whatever the arguments (never idempotent);
# "keyed"  - the entry replaces the one stored under the same key (first argument): idempotent for a configuration-determined key
LIBRARY_TABLE_METHODS = {
    "add_implicit_resolver": "append",   # yaml: (tag, regexp) appended to the per-first-character lists of yaml_implicit_resolvers
    "addaudithook": "append",            # sys
    "register_at_fork": "append",        # os
    "add_constructor": "keyed", "add_multi_constructor": "keyed", "add_representer": "keyed", "add_multi_representer": "keyed",
    "add_path_resolver": "keyed",        # yaml
    "add_type": "keyed", "addLevelName": "keyed", "register_error": "keyed", "register_dialect": "keyed",
    "register_adapter": "keyed", "register_converter": "keyed", "register_namespace": "keyed",
    "register_archive_format": "keyed", "register_unpack_format": "keyed",
}
LIBRARY_REGISTRAR_PREFIXES = ("add_", "register")
LIST_GROWERS = {"append", "insert", "extend", "appendleft"}
# self-cleaning library registries (weak): `<ABC subclass>.register(cls)` goes into a WeakSet
WEAK_LIBRARY_REGISTRARS = {("abc", "register")}


def _pkg_roots(repo: Repo) -> Set[str]:
    return {d.split(".")[0] for d in repo.by_dotted}


def _declared_in_package(repo: Repo, mod, cls: ast.ClassDef, member: str) -> bool:
    """*member* is a method / class-level attribute the package itself gives the class (in a class body of its MRO, or by
    a store `<x>.<member> = ..` in one of the MRO's modules): its growth is the package's own business (D1-D3)."""
    mro = repo.mro(mod, cls)
    for _m, c in mro:
        for st in c.body:
            if isinstance(st, FuncNode) and st.name == member:
                return True
            if isinstance(st, (ast.Assign, ast.AnnAssign)):
                for t in (st.targets if isinstance(st, ast.Assign) else [st.target]):
                    if isinstance(t, ast.Name) and t.id == member:
                        return True
    for m in {id(m): m for m, _c in mro}.values():
        for n in ast.walk(m.tree):
            if isinstance(n, ast.Attribute) and n.attr == member and isinstance(n.ctx, ast.Store):
                return True
    return False


def _library_base(repo: Repo, mod, cls: ast.ClassDef) -> Optional[str]:
    """Dotted name of a base class (anywhere in the package part of the MRO) that is imported from outside the package."""
    roots = _pkg_roots(repo)
    for m, c in repo.mro(mod, cls):
        for b in c.bases:
            if repo.resolve_name(m, b, c) is not None:
                continue
            d = dotted_name(b.value if isinstance(b, ast.Subscript) else b)
            if d is None:
                continue
            head, _, rest = d.partition(".")
            target = m.imports.get(head)
            if target and target.split(".")[0] not in roots:
                return target + ("." + rest if rest else "")
    return None


def _library_owner(repo: Repo, mod, f: Optional[ast.AST], e: ast.AST, member: str, depth: int = 0) -> Optional[Tuple[str, str]]:
    """What the receiver expression *e* (evaluated in function *f* of *mod*, None = at module level) denotes, as far as
    the member *member* looked up on it is concerned:
    ("library", text)  something imported from outside the package (a library module, class or module-level object),
                       or a class of the package that inherits *member* from a library base class - a process-lifetime
                       object whose tables the package does not own;
    ("instance", text) an object made by calling such a class (class-level tables are reachable through it as well);
    None               anything else (locals, parameters, objects and classes of the package that define *member*)."""
    from ..engine import assigned_value

    if depth > 5:
        return None
    roots = _pkg_roots(repo)

    def of_class(m, c: ast.ClassDef) -> Optional[Tuple[str, str]]:
        if _declared_in_package(repo, m, c, member):
            return None
        base = _library_base(repo, m, c)
        if base is None or (base.split(".")[0], member) in WEAK_LIBRARY_REGISTRARS:
            return None
        return "library", f"the class {c.name}, which inherits `{member}` from the library class {base}"

    own_cls = enclosing_class(f) if f is not None else None
    if isinstance(e, ast.Call):
        if isinstance(e.func, ast.Name) and e.func.id == "type" and len(e.args) == 1 and isinstance(e.args[0], ast.Name) and e.args[0].id == "self" and own_cls is not None:
            return of_class(mod, own_cls)
        made_from = _library_owner(repo, mod, f, e.func, member, depth + 1)
        if made_from is not None and made_from[0] == "library":
            return "instance", "an instance of " + made_from[1]
        return None
    if isinstance(e, ast.Attribute) and e.attr == "__class__" and isinstance(e.value, ast.Name) and e.value.id == "self" and own_cls is not None:
        return of_class(mod, own_cls)
    d = dotted_name(e)
    if d is None:
        return None
    head, _, rest = d.partition(".")
    if isinstance(f, FuncNode):
        a = f.args
        params = {p.arg for p in a.posonlyargs + a.args + a.kwonlyargs} | ({a.vararg.arg} if a.vararg else set()) | ({a.kwarg.arg} if a.kwarg else set())
        if head in params and not any(isinstance(x, ast.Name) and x.id == head and isinstance(x.ctx, ast.Store) for x in walk_no_nested(f)):
            deco = {dotted_name(x) for x in f.decorator_list}
            if not rest and own_cls is not None and "classmethod" in deco and (a.posonlyargs + a.args) and (a.posonlyargs + a.args)[0].arg == head:
                return of_class(mod, own_cls)
            return None
        if head in _local_names(f) or head in params:
            if rest:
                return None  # an attribute of a local object
            for v in assigned_value(f, head):
                if isinstance(v, (ast.Name, ast.Attribute, ast.Call)) and not (isinstance(v, ast.Name) and v.id == head):
                    got = _library_owner(repo, mod, f, v, member, depth + 1)
                    if got is not None:
                        return got
            return None
        # a name of an enclosing function
        outer = enclosing_function(f)
        if outer is not None and head in _local_names(outer):
            return _library_owner(repo, mod, outer, e, member, depth + 1)
    if head in mod.imports:
        target = mod.imports[head] + ("." + rest if rest else "")
        if target.split(".")[0] in roots:
            r = repo.resolve_dotted(target)
            if r is not None and isinstance(r[1], ast.ClassDef):
                return of_class(r[0], r[1])
            return None
        return "library", f"`{target}` (imported from outside the package)"
    node = mod.defs.get(d)
    if isinstance(node, ast.ClassDef):
        return of_class(mod, node)
    if not rest:
        for st in mod.tree.body:  # a module-level alias: `_LOADER = yaml.SafeLoader`
            if isinstance(st, (ast.Assign, ast.AnnAssign)) and getattr(st, "value", None) is not None:
                tg = st.targets[0] if isinstance(st, ast.Assign) else st.target
                if isinstance(tg, ast.Name) and tg.id == head and isinstance(st.value, (ast.Name, ast.Attribute)):
                    return _library_owner(repo, mod, None, st.value, member, depth + 1)
    return None


def _library_table(repo: Repo, mod, f: ast.AST, e: ast.AST, depth: int = 0) -> Optional[str]:
    """Text naming the table when the container expression *e* denotes an attribute (or a bucket of an attribute) of a
    library object / of a package class that inherits the attribute from a library class; None otherwise."""
    from ..engine import assigned_value

    if depth > 5:
        return None
    if isinstance(e, ast.Subscript):
        return _library_table(repo, mod, f, e.value, depth + 1)
    if isinstance(e, ast.Call):
        if isinstance(e.func, ast.Attribute) and e.func.attr in ("setdefault", "get", "__getitem__"):
            return _library_table(repo, mod, f, e.func.value, depth + 1)
        if isinstance(e.func, ast.Name) and e.func.id == "getattr" and len(e.args) >= 2 and isinstance(e.args[1], ast.Constant) and isinstance(e.args[1].value, str):
            owner = _library_owner(repo, mod, f, e.args[0], e.args[1].value, depth + 1)
            return f"`{e.args[1].value}` of {owner[1]}" if owner is not None and owner[0] == "library" else None
        return None
    if isinstance(e, ast.Attribute):
        owner = _library_owner(repo, mod, f, e.value, e.attr, depth + 1)
        if owner is not None and owner[0] == "library":
            return f"`{e.attr}` of {owner[1]}"
        return _library_table(repo, mod, f, e.value, depth + 1)
    if isinstance(e, ast.Name) and isinstance(f, FuncNode) and e.id in _local_names(f):
        for v in assigned_value(f, e.id):
            if isinstance(v, (ast.Attribute, ast.Subscript, ast.Call)):
                got = _library_table(repo, mod, f, v, depth + 1)
                if got is not None:
                    return got
    return None


def _config_determined_key(repo: Repo, mod, f: ast.AST, e: Optional[ast.AST], depth: int = 0) -> bool:
    """The key expression *e* is the same object / text every time the line runs: a literal, literal building, a
    module-level name (a constant, a class, a function, an import)."""
    from ..engine import assigned_value

    if e is None or depth > 4:
        return False
    if isinstance(e, ast.Constant):
        return True
    if isinstance(e, (ast.Tuple, ast.List)):
        return all(_config_determined_key(repo, mod, f, x, depth + 1) for x in e.elts)
    if isinstance(e, (ast.Name, ast.Attribute)):
        d = dotted_name(e)
        if d is None:
            return False
        head = d.split(".")[0]
        if isinstance(f, FuncNode):
            if head in _param_names(f) or (f.args.vararg and f.args.vararg.arg == head) or (f.args.kwarg and f.args.kwarg.arg == head):
                return False
            if head in _local_names(f):
                vals = assigned_value(f, head)
                return "." not in d and bool(vals) and all(_config_determined_key(repo, mod, f, v, depth + 1) for v in vals) and sum(
                    1 for x in walk_no_nested(f) if isinstance(x, ast.Name) and x.id == head and isinstance(x.ctx, ast.Store)) == len(vals)
        return True  # module-level name / import
    return not _run_time_parts_of_text(repo, mod, f, e)


def _once_per_process(mod, f: ast.AST, st: ast.AST) -> Optional[str]:
    """Why the statement *st* of *f* runs at most once per process although *f* is called again and again (None: it does
    not): a class-level latch (`_under_process_latch`), a module-level flag tested false on the way in and set (under
    `global`) on every way out, or *f* being a parameterless function memoised with `functools.cache`."""
    from ..cfg import CFG, edges_guaranteeing

    if not isinstance(f, FuncNode):
        return None
    a = f.args
    if not (a.posonlyargs or a.args or a.kwonlyargs or a.vararg or a.kwarg):
        for dec in f.decorator_list:
            dn = dotted_name(dec.func if isinstance(dec, ast.Call) else dec) or ""
            head, _, rest = dn.partition(".")
            if head in mod.imports:
                dn = mod.imports[head] + ("." + rest if rest else "")
            if dn.split(".")[-1] in ("cache", "lru_cache"):
                return f"the parameterless function is memoised (@{dn}): its body runs once"
    if _under_process_latch(f, st):
        return "guarded by a class-level once-per-process latch"
    flags = {nm for n in walk_no_nested(f) if isinstance(n, ast.Global) for nm in n.names}
    if not flags:
        return None
    g = CFG(f, may_raise=lambda p: set())
    ids = g.nodes_for(st)
    if not ids:
        return None
    for flag in sorted(flags):
        setters = [n.id for n in g.nodes if n.kind == "stmt" and isinstance(n.ast, ast.Assign) and _const_truth(n.ast.value) is True
                   and any(isinstance(t, ast.Name) and t.id == flag for t in n.ast.targets)]
        if not setters:
            continue

        def atom(e: ast.AST, flag=flag) -> Optional[bool]:
            return False if isinstance(e, ast.Name) and e.id == flag else None

        for n in g.nodes:
            if n.kind in ("if", "while") and n.part is not None:
                for lab in edges_guaranteeing(n.part, atom):
                    if all(g.dominated_by_edge(t, n.id, lab) for t in ids):
                        starts = [i for i in ids if i not in setters]
                        if g.ret_exit not in g.reach(starts, blocked=set(setters)):
                            return f"guarded by the module-level latch `{flag}` (tested false on the way in, set on every way out)"
    return None


def _library_tables(repo: Repo, R: Report, r_lib) -> None:
    """C18-D2-library-tables-not-fed-per-run (see the rule text)."""
    n_sites = 0
    n_bad = 0
    for mod, qn, f in repo.all_functions():
        if mod.rel.startswith("semantiva/examples/"):
            continue
        for c in calls_in(f):
            if not isinstance(c.func, ast.Attribute):
                continue
            meth = c.func.attr
            is_reg = meth in LIBRARY_TABLE_METHODS or meth.startswith(LIBRARY_REGISTRAR_PREFIXES)
            is_grow = meth in LIST_GROWERS
            if not (is_reg or is_grow):
                continue
            d = _resolved_call_name(mod, c)
            if d in REGISTRARS or d.endswith(".finalize") and "weakref" in d:
                continue  # reported by C18-D2-global-accumulators
            if is_reg:
                try:
                    if repo.resolve_call(mod, c):
                        continue  # a function of the package: what it grows is visible to D2 / D3
                except Exception:
                    pass
                owner = _library_owner(repo, mod, f, c.func.value, meth)
                if owner is None:
                    continue
                kind, otext = owner
                if kind == "instance" and meth not in LIBRARY_TABLE_METHODS:
                    continue  # `parser.add_argument(..)`: the table lives in the object made for this call
                how = LIBRARY_TABLE_METHODS.get(meth, "unknown")
                what = f"`{meth}` is called on {otext}"
            else:
                table = _library_table(repo, mod, f, c.func.value)
                if table is None:
                    continue
                how = "append"
                what = f"`{meth}` grows {table}"
            n_sites += 1
            repo.consulted.add(mod.rel)
            st = stmt_of(c)
            per_run, via = _runs_per_job(repo, f, c)
            if not per_run:
                R.ok(r_lib, mod.rel, qn, norm(c)[:80], f"{what}; not reachable from a per-run / per-job / per-launch entry point (set-up code)", c.lineno)
                continue
            once = _once_per_process(mod, f, st)
            if once:
                R.ok(r_lib, mod.rel, qn, norm(c)[:80], f"{what} on a per-run path, but {once}", c.lineno)
                continue
            if how == "keyed":
                key = c.args[0] if c.args else (c.keywords[0].value if c.keywords else None)
                if _config_determined_key(repo, mod, f, key):
                    R.ok(r_lib, mod.rel, qn, norm(c)[:80], f"{what} on a per-run path with the configuration-determined key `{norm(key)[:40]}`: the entry replaces itself (idempotent)", c.lineno)
                    continue
            n_bad += 1
            effect = {
                "append": "every call puts one more entry into it, whatever the arguments (registering the same thing twice is not idempotent)",
                "keyed": "the entry is stored under a key computed at run time, so every distinct key adds an entry that is never removed",
                "unknown": "a registration into a library-owned table that the package neither owns nor ever clears; nothing shows it to be idempotent",
            }[how]
            R.violation(r_lib, mod.rel, qn, norm(c)[:90],
                        f"{what} on a path that runs for every run / job / launch{' (' + via + ')' if via else ''}: that table belongs to the library, is shared by every user of the class / module "
                        f"and lives as long as the process - {effect}. The process-wide table (and the population of gc-tracked objects) grows with the number of runs, and whatever consults the "
                        "table (every scalar parsed, every import, every lookup) walks all accumulated entries, so the cost of run N depends on N. Register once - at import time or under a "
                        "once-per-process latch", c.lineno)
    R.ok(r_lib, "semantiva", "<package>", f"registrations into library-owned class-level / module-level tables: {n_sites} site(s), {n_bad} fed per run", "none fed per run")
    R.extra["library_table_sites"] = n_sites


def run(repo: Repo, R: Report) -> None:
    R.assume(
        "garbage collection reclaims unreferenced classes and objects (cycles included)",
        "names registered at import / registration time (processor names, module names, extension names, resolver prefixes) form a set determined by the configuration, not by the number of runs",
    )
    R.undecided(
        "measured counts of registered classes / gc-tracked objects (nothing is run)",
        "residue inside third-party libraries",
        "attribute stores on node / processor objects built from the specification (D4 follows dict / list structure through calls and returns, not object fields)",
    )

    # ------------------------------------------------------------------ D1
    r_reg = R.rule("C18-D1-registry-cannot-pin-classes", "the metaclass inserts every new component class into the process-global registry through a weak container (or a configuration-keyed slot), so per-run generated node/adapter/shorthand classes do not accumulate", 2)
    # consts=False: the normaliser substitutes module-level *mutable* literals (`_PENDING: list = []`) when they are only
    # mutated through a local alias (`q = _PENDING; q.append(x)`), which would turn a process-global queue into a local
    meta_qn = _component_metaclass(repo) + ".__init__"
    meta_init = nfunc(repo, COMP, meta_qn, consts=False)
    deferred: Optional[AnalysisError] = None
    try:
        site, why = _registry_insertions(repo, meta_init)
    except AnalysisError as exc:
        # the insertion was moved somewhere this rule does not follow: D2 (who grows process-global containers) still
        # sees where the classes go; the anchor loss is reported only if nothing else locates a violation
        deferred = exc
    else:
        R.check(site is None, r_reg, COMP, meta_qn, norm(stmt_of(site)) if site is not None else "every insertion of the new class goes into a weak bucket of _COMPONENT_REGISTRY",
                why, meta_init.lineno)
    getter = repo.func(COMP, "get_component_registry")
    rets = [n for n in walk_no_nested(getter) if isinstance(n, ast.Return)]
    live = {t.id for st in repo.module(COMP).tree.body if isinstance(st, (ast.Assign, ast.AnnAssign)) and _is_container(getattr(st, "value", None))
            for t in (st.targets if isinstance(st, ast.Assign) else [st.target]) if isinstance(t, ast.Name)}
    ok = bool(rets) and all(not (isinstance(r.value, ast.Name) and r.value.id in live) for r in rets)
    R.check(ok, r_reg, COMP, "get_component_registry", "returns a snapshot, not the live weak registry", "callers receive the live registry object (can pin or mutate it)", getter.lineno)

    # ------------------------------------------------------------------ D2
    r_glob = R.rule("C18-D2-global-accumulators", "module- and class-level containers that some function grows are exactly the frozen, bounded registries; no stdlib process-wide registrar (weakref.finalize, atexit, unbounded caches, the warning registry through per-run warning texts) is fed per run and the cycle collector is not switched off / frozen on a per-run path", 11)
    found: Dict[Tuple[str, Optional[str], str], ast.AST] = {}
    for mod in repo.modules.values():
        for st in mod.tree.body:
            if isinstance(st, (ast.Assign, ast.AnnAssign)) and _is_container(getattr(st, "value", None)):
                t = st.targets[0] if isinstance(st, ast.Assign) else st.target
                if isinstance(t, ast.Name):
                    found[(mod.rel, None, t.id)] = st
        for qn, c in mod.defs.items():
            if isinstance(c, ast.ClassDef):
                for st in c.body:
                    if isinstance(st, (ast.Assign, ast.AnnAssign)) and _is_container(getattr(st, "value", None)):
                        t = st.targets[0] if isinstance(st, ast.Assign) else st.target
                        if isinstance(t, ast.Name):
                            found[(mod.rel, qn, t.id)] = st
    # a module-level placeholder (`_CACHE = None`) bound to a container under `global` at run time is the same cell
    for mod, qn, f in repo.all_functions():
        gl = {nm for n in walk_no_nested(f) if isinstance(n, ast.Global) for nm in n.names}
        if not gl:
            continue
        for n in walk_no_nested(f):
            if isinstance(n, (ast.Assign, ast.AnnAssign)) and _is_container(getattr(n, "value", None)):
                for t in (n.targets if isinstance(n, ast.Assign) else [n.target]):
                    if isinstance(t, ast.Name) and t.id in gl:
                        found.setdefault((mod.rel, None, t.id), n)
    R.extra["global_containers_scanned"] = len(found)
    # every grown container is matched against the frozen roles: same kind of container, grown through the same public
    # entry points.  Its name only breaks ties (two containers of one kind grown by one function).
    grown: List[Tuple[Tuple[str, Optional[str], str], ast.AST, list, str, frozenset]] = []
    for key, decl in sorted(found.items(), key=str):
        rel, cls, name = key
        if rel.startswith("semantiva/examples/"):
            continue
        gs = _growers_of(repo, rel, cls, name)
        if not gs:
            continue
        repo.consulted.add(rel)
        entries = frozenset((COMP, META_INIT_ROLE) if e == (COMP, meta_qn) else e for mrel, qn, _n in gs for e in _public_entries(repo, mrel, qn))
        grown.append((key, decl, gs, _container_kind(getattr(decl, "value", None)), entries))
    unclaimed = list(range(len(GLOBAL_ROLES)))
    claimed: Dict[int, int] = {}  # index in grown -> index in GLOBAL_ROLES
    for by_name in (True, False):
        for gi, (key, _decl, _gs, kind, entries) in enumerate(grown):
            if gi in claimed:
                continue
            for ri in unclaimed:
                rkind, rentries, rname, _why = GLOBAL_ROLES[ri]
                if rkind == kind and rentries == entries and (not by_name or rname == key[2]):
                    claimed[gi] = ri
                    unclaimed.remove(ri)
                    break
    # growth moved into a (public) function that the frozen entry point calls: every growing site runs under one of the
    # role's entry points and every entry point of the role still reaches a growing site
    for by_name in (True, False):
        for gi, (key, _decl, gs, kind, _entries) in enumerate(grown):
            if gi in claimed:
                continue
            under = [{(COMP, META_INIT_ROLE) if e == (COMP, meta_qn) else e for e in _callers_closure(repo, mrel, qn)} for mrel, qn, _n in gs]
            for ri in unclaimed:
                rkind, rentries, rname, _why = GLOBAL_ROLES[ri]
                if rkind == kind and (not by_name or rname == key[2]) and all(u & rentries for u in under) and all(any(e in u for u in under) for e in rentries):
                    claimed[gi] = ri
                    unclaimed.remove(ri)
                    break
    for gi, (key, decl, gs, kind, entries) in enumerate(grown):
        rel, cls, name = key
        where = f"{cls}.{name}" if cls else name
        if gi in claimed:
            R.ok(r_glob, rel, cls or "<module>", f"{where}: {len(gs)} growing site(s)", GLOBAL_ROLES[claimed[gi]][3], decl.lineno)
        else:
            site = gs[0]
            R.violation(r_glob, rel, cls or "<module>", f"{where} grown by `{norm(stmt_of(site[2]))[:70]}` in {site[1]}",
                        "a new process-global container is grown at run time: entries (and whatever they reference - generated classes, payloads, drivers) survive every run", decl.lineno)
    for ri in unclaimed:
        R.note(f"frozen accumulator {GLOBAL_ROLES[ri][2]} ({GLOBAL_ROLES[ri][0]} grown through {sorted(GLOBAL_ROLES[ri][1])}) no longer exists")
    # bounded idioms of the frozen entries that append: every function that appends to such a list guards the append
    n_guard = 0
    for gi, ri in sorted(claimed.items()):
        if GLOBAL_ROLES[ri][0] != "seq":
            continue
        key, _decl, gs, _kind, entries = grown[gi]
        for mrel, qn in sorted({(mrel, qn) for mrel, qn, _n in gs}):
            fn = repo.func(mrel, qn)
            lifted = sorted(_public_entries(repo, mrel, qn))
            what_ok, what_bad = APPEND_TEXTS.get(lifted[0], (f"append to {key[2]} guarded by membership", f"{key[2]} grows on every call"))
            guarded, why_not = _appends_guarded_by_membership(fn, key[2])
            n_guard += 1
            R.check(guarded, r_glob, mrel, qn, what_ok, what_bad + (": " + why_not if why_not else ""), fn.lineno)
    if n_guard < 2 and not R.violations():
        deferred = deferred or AnalysisError("the appending registries (module history, parameter resolvers) were not recognised")
    # stdlib registrars and unbounded caches
    n_reg = 0
    n_warn = 0
    for mod, qn, f in repo.all_functions():
        if mod.rel.startswith("semantiva/examples/"):
            continue
        for c in calls_in(f):
            d = call_name(c) or ""
            head, _, rest = d.partition(".")
            if head in mod.imports:  # `import weakref as wr`, `from atexit import register as at_exit`
                d = mod.imports[head] + ("." + rest if rest else "")
            if d in REGISTRARS or d.endswith(".finalize") and "weakref" in d:
                n_reg += 1
                R.violation(r_glob, mod.rel, qn, norm(c)[:80], f"`{d}` inserts into a process-wide registry each time this runs; the registered callback keeps its arguments (driver, file, node) alive", c.lineno)
            # the collector's own state is process-wide: switched off (or everything parked in the permanent
            # generation) on a path that runs per run / per job, the previous runs' cyclic garbage stays for ever
            if d.startswith("gc."):
                why = _collector_switched_off(mod, f, c, d)
                per_run, via = _per_run_path(repo, f) if why else (False, "")
                if why and per_run:
                    n_reg += 1
                    R.violation(r_glob, mod.rel, qn, norm(c)[:80],
                                f"`{d}()` on a path that runs for every run / job{' (' + via + ')' if via else ''}: it {why} - the registered component classes and the "
                                "population of live objects then grow with the number of runs", c.lineno)
                elif why:
                    R.note(f"{mod.rel}:{qn}: `{norm(c)[:40]}` is not reachable from a per-run entry point")
            # the per-module `__warningregistry__` is a process-wide table keyed by the warning *text*: a text that
            # varies per run / job adds one key per run
            if d in WARN_CALLS:
                n_warn += 1
                parts = _run_time_parts_of_text(repo, mod, f, c.args[0] if c.args else kwarg(c, "message"))
                per_run, via = _per_run_path(repo, f) if parts else (False, "")
                if parts and per_run:
                    n_reg += 1
                    R.violation(r_glob, mod.rel, qn, norm(c)[:80],
                                f"the text of this warning is built from run-time values ({', '.join('`' + x + '`' for x in sorted(set(parts))[:4])}) on a path that runs for every run / job"
                                f"{' (' + via + ')' if via else ''}: under the default filter every distinct (text, category, line) is recorded as a key of the calling module's "
                                "`__warningregistry__`, a process-wide dict that nothing clears in a long-running worker - one more gc-tracked entry per run that reaches this line", c.lineno)
                elif parts:
                    R.note(f"{mod.rel}:{qn}: warning text varies ({parts[:3]}) but the call is not reachable from a per-run entry point")
        for dec in getattr(f, "decorator_list", []):
            dn = dotted_name(dec.func if isinstance(dec, ast.Call) else dec) or ""
            if dn in UNBOUNDED_CACHE_DECORATORS:
                unbounded = dn.endswith("cache") and not dn.endswith("lru_cache") or (isinstance(dec, ast.Call) and isinstance(kwarg(dec, "maxsize") or (dec.args[0] if dec.args else None), ast.Constant) and (kwarg(dec, "maxsize") or dec.args[0]).value is None)
                # `self` is a key like any other argument (the memo pins every instance it was called on); only the
                # class of a classmethod is a configuration-determined key
                fa = f.args
                keyed = [p.arg for p in fa.posonlyargs + fa.args + fa.kwonlyargs] + ([fa.vararg.arg] if fa.vararg else []) + ([fa.kwarg.arg] if fa.kwarg else [])
                takes_objects = any(p != "cls" for p in keyed)
                if unbounded and takes_objects:
                    R.violation(r_glob, mod.rel, qn, f"@{dn}", "an unbounded memo keyed by its arguments keeps every per-run argument object alive", f.lineno)
        # a mutable default argument is created once per process; a function that grows it keeps a process-lifetime
        # memo / accumulator under a parameter name
        fa = f.args
        pos_params = fa.posonlyargs + fa.args
        with_default = list(zip(pos_params[len(pos_params) - len(fa.defaults):], fa.defaults)) + [(p, d) for p, d in zip(fa.kwonlyargs, fa.kw_defaults) if d is not None]
        for prm, dflt in with_default:
            if not _is_container(dflt) or isinstance(dflt, ast.Call) and call_attr(dflt) in WEAK_CALLS | {"WeakKeyDictionary"}:
                continue
            rebound = any(isinstance(n, ast.Name) and n.id == prm.arg and isinstance(n.ctx, ast.Store) for n in walk_no_nested(f))
            grow = None
            for n in walk_no_nested(f):
                if isinstance(n, ast.Call) and isinstance(n.func, ast.Attribute) and n.func.attr in GROWERS and isinstance(n.func.value, ast.Name) and n.func.value.id == prm.arg:
                    grow = grow or n
                elif isinstance(n, ast.Assign) and any(isinstance(t, ast.Subscript) and isinstance(t.value, ast.Name) and t.value.id == prm.arg for t in n.targets):
                    grow = grow or n
            if grow is not None and not rebound:
                n_reg += 1
                R.violation(r_glob, mod.rel, qn, f"{prm.arg}={norm(dflt)}: grown by `{norm(stmt_of(grow))[:60]}`",
                            "a mutable default argument is one object for the life of the process: growing it is a process-global memo / accumulator that keeps every key and value it was given (per-run classes, evaluators, payloads) alive", grow.lineno)
    R.ok(r_glob, "semantiva", "<package>", f"stdlib registrars / unbounded caches / mutable-default memos / collector switches / per-run warning texts fed at run time: {n_reg}", "none")
    R.extra["warning_call_sites"] = n_warn
    # the handler list of a logging logger is a process-wide list as well
    r_log = R.rule("C18-D2-log-handlers-installed-once", "the handler list of a `logging` logger is process-wide and nothing ever removes from it: every statement that adds a handler either runs only where no handler "
                   "of that *type* is installed yet, or is not asked to run by any call on a per-run / per-job / per-launch path (an explicit request - a truthy argument reaching the parameter that "
                   "enables the installation - is made once per process or per service; a class-level once-per-process latch counts, an existence test against run-time state such as the current "
                   "`sys.stdout` object does not)", 2)
    _handler_installs(repo, R, r_log)
    # class-level / module-level tables of the libraries the package uses are process-wide registries the package does not own
    r_lib = R.rule("C18-D2-library-tables-not-fed-per-run", "a class-level table of a library class (PyYAML's resolver / constructor / representer tables, which every loader subclass declared in the "
                   "package shares or copies once) or a module-level list of a library module (`sys.path`, import / audit / fork hooks) lives as long as the process and is never cleared by the "
                   "package: a call that registers into one - a registration method the package does not define (`add_*` / `register*`) called on something imported from outside the package, on a "
                   "package class that inherits the method from a library base, or an in-place append to an attribute of such an object - is not evaluated on a per-run / per-job / per-launch path, "
                   "unless it is latched once per process or stores under a configuration-determined key of a keyed table (idempotent)", 1)
    _library_tables(repo, R, r_lib)

    # ------------------------------------------------------------------ D3
    r_obj = R.rule("C18-D3-long-lived-objects", "orchestrators, Pipeline, transports, drivers, executors and emitters do not grow containers per run (beyond the frozen, bounded ones); every transport.publish has a subscriber that can consume it", 4)
    for mod, qn, c in repo.all_classes():
        if not mod.rel.startswith(LONG_LIVED_DIRS) or "." in qn:
            continue
        hits: Dict[str, ast.AST] = {}
        all_sites: Dict[str, List[Tuple[ast.AST, ast.AST]]] = {}
        for f in [n for n in c.body if isinstance(n, FuncNode)]:
            for n in ast.walk(f):
                tgt = None
                if isinstance(n, ast.Call) and isinstance(n.func, ast.Attribute) and n.func.attr in GROWERS:
                    tgt = dotted_name(n.func.value)
                elif isinstance(n, ast.Assign):
                    for t in n.targets:
                        if isinstance(t, ast.Subscript) and not isinstance(t.slice, ast.Constant):
                            tgt = dotted_name(t.value)
                if tgt and tgt.startswith("self.") and tgt.count(".") == 1 and tgt != "self.__dict__":
                    hits.setdefault(tgt, n)
                    all_sites.setdefault(tgt, []).append((f, n))
        for attr, site in hits.items():
            repo.consulted.add(mod.rel)
            key = (mod.rel, qn, attr)
            dedup_why = _dedup_set_role(mod.rel, qn, attr, all_sites[attr])
            if key in INSTANCE_TABLE:
                R.ok(r_obj, mod.rel, qn, f"{attr} grown by `{norm(stmt_of(site))[:60]}`", INSTANCE_TABLE[key], site.lineno)
            elif dedup_why:
                R.ok(r_obj, mod.rel, qn, f"{attr} grown by `{norm(stmt_of(site))[:60]}`", dedup_why, site.lineno)
            else:
                R.violation(r_obj, mod.rel, qn, f"{attr} grown by `{norm(stmt_of(site))[:70]}`", "a long-lived object accumulates one entry per run / node / job and never releases it", site.lineno)
    # a frozen accumulator that is bounded because entries are released: the release must exist on the consuming path
    qrel = "semantiva/execution/job_queue/queue_orchestrator.py"
    qo = repo.func(qrel, "QueueSemantivaOrchestrator.run_forever")
    qmod = repo.module(qrel)
    qcls = enclosing_class(qo)
    reach = [fn for _m, fn, _p in repo.call_graph_closure([(qmod, qo)]).values() if enclosing_class(fn) is qcls]
    rflow = _ReleaseFlow(repo, "self.pending_futures", {id(fn) for fn in reach})
    released = any(rflow.has_release(fn) for fn in reach)
    R.check(released, r_obj, qrel, "QueueSemantivaOrchestrator.run_forever", "pending_futures entry released on completion", "completed futures stay registered forever", qo.lineno)
    # ... and on *every* way the loop goes on after a future was completed (result or failure), not only on one branch
    leak, _always = rflow.analyse(qmod, qo, {})
    if leak is not None:
        rflow.violations.append((qrel, "QueueSemantivaOrchestrator.run_forever", leak, "return"))
    for vrel, vqn, vst, vpath in rflow.violations:
        R.violation(r_obj, vrel, vqn, norm(vst)[:90],
                    f"a pending future is completed here and the code goes on ({vpath}) without releasing its entry of self.pending_futures: the completed Future - "
                    "with its result or its exception, whose traceback holds the job's Pipeline, nodes and generated classes - stays registered for the life of the master, one entry per such job", getattr(vst, "lineno", qo.lineno))
    if not rflow.violations:
        if not rflow.finish_sites:
            deferred = deferred or AnalysisError("QueueSemantivaOrchestrator.run_forever: no completion (set_result / set_exception) of a pending future found on the master's loop")
        else:
            R.ok(r_obj, qrel, "QueueSemantivaOrchestrator.run_forever", f"{len(rflow.finish_sites)} completion site(s) of pending futures: the entry is released on every continuation", "entry released after (or taken out before) every completion", qo.lineno)
    # publish / subscribe pairing
    patterns = []
    for mod, qn, f in repo.all_functions():
        for c in calls_in(f):
            if call_attr(c) == "subscribe" and c.args:
                patterns.extend(_channel_templates(repo, mod, f, c.args[0]) or [])
    per_id_channels: List[Tuple[str, str, str, ast.AST]] = []
    transport_publish = {id(fn) for m, fn in repo._build_func_index().get("publish", []) if m.rel.startswith("semantiva/execution/transport/")}
    if not transport_publish:
        raise AnalysisError("no transport publish() definition found")
    unconsumed: List[Tuple[object, ast.AST, ast.Call]] = []
    hook_labels = _hook_role_labels(repo)
    for mod, qn, f in repo.all_functions():
        if mod.rel.startswith(("semantiva/examples/", "semantiva/execution/transport/")):
            continue
        # a site in (an override of) a private template-method hook is attributed to the hook's role, not to its current name
        qn = hook_labels.get(id(f), qn)
        for c in calls_in(f):
            if call_attr(c) == "publish" and isinstance(c.func, ast.Attribute) and not repo.resolve_call(mod, c):
                ch = c.args[0] if c.args else kwarg(c, "channel")
                tmpls = _channel_templates(repo, mod, f, ch)
                consumed = bool(tmpls) and all(any(fnmatch(t, p) for p in patterns) for t in tmpls)
                repo.consulted.add(mod.rel)
                shown = c if consumed else _publish_in_normal_form(repo, mod.rel, qn, f, c)
                defined_as = "" if qualname_of(f) == qn else f" (site attributed to the template-method hook by role; the method is defined as `{qualname_of(f)}`)"
                R.check(consumed, r_obj, mod.rel, qn, norm(shown)[:90], "messages are published to a channel nothing in the package subscribes to: the in-memory transport retains one Message (data, context) per node per run on a reused Pipeline" + defined_as, c.lineno)
                if not consumed:
                    unconsumed.append((mod, f, c))
                if not consumed:
                    # what such a retained message may reference: the run's data and context - never the node's processor,
                    # its class or a bound method of it (node / adapter / shorthand classes are generated per run, and
                    # the weak component registry can only drop a class nothing else references)
                    for pin in _payload_pins(repo, shown):
                        R.violation(r_obj, mod.rel, qn, f"payload of `{norm(shown)[:50]}` holds `{pin}`",
                                    "nothing consumes this channel, so the transport of a reused Pipeline keeps every message - and this one references a class object / a bound method "
                                    "(whose `__self__` is the processor or its class) instead of plain data: the node, IO-adapter and shorthand classes generated for this run stay "
                                    "referenced, the weak component registry cannot drop them, and the count of registered classes grows with every run", c.lineno)
                # a channel whose *name* is computed per job / per run (a formatted field in the name) makes the
                # transport's channel map grow by one entry (deque + lock) per name unless entries are released
                for t in sorted(set(tmpls or [])):
                    if "0000" in t:
                        per_id_channels.append((mod.rel, qn, t.replace("0000", "<id>"), c))
    tr_rel = "semantiva/execution/transport/in_memory.py"
    tr_mod = repo.module(tr_rel)
    tr_pub = repo.func(tr_rel, "InMemorySemantivaTransport.publish")
    ch_param = tr_pub.args.args[1].arg if len(tr_pub.args.args) > 1 else "channel"
    maps = {dotted_name(n.value) for n in ast.walk(tr_pub) if isinstance(n, ast.Subscript) and isinstance(n.slice, ast.Name) and n.slice.id == ch_param and (dotted_name(n.value) or "").startswith("self.")}
    maps |= {dotted_name(c.func.value) for c in calls_in(tr_pub) if call_attr(c) in ("setdefault", "get") and c.args and isinstance(c.args[0], ast.Name) and c.args[0].id == ch_param and (dotted_name(c.func.value) or "").startswith("self.")}
    maps.discard(None)
    if not maps:
        raise AnalysisError("InMemorySemantivaTransport.publish: channel map not recognised")
    map_attrs = {m.split(".", 1)[1] for m in maps}
    removal = []
    for n in ast.walk(tr_mod.tree):
        if isinstance(n, ast.Delete):
            for tg in n.targets:
                if isinstance(tg, ast.Subscript) and (dotted_name(tg.value) or "").split(".")[-1] in map_attrs:
                    removal.append(n)
        elif isinstance(n, ast.Call) and call_attr(n) in ("pop", "popitem", "clear") and isinstance(n.func, ast.Attribute) and (dotted_name(n.func.value) or "").split(".")[-1] in map_attrs:
            removal.append(n)
    R.extra["per_id_channel_publish_sites"] = len(per_id_channels)
    # reported at the transport (the construct that never releases), once per channel-name template, so that moving
    # a publish call into a helper does not change the finding
    by_tmpl: Dict[str, List[str]] = {}
    for rel, qn, tmpl, c in per_id_channels:
        by_tmpl.setdefault(tmpl, []).append(f"{rel}:{qn}")
    for tmpl, sites in sorted(by_tmpl.items()):
        R.check(bool(removal), r_obj, tr_rel, "InMemorySemantivaTransport.publish", f"channel entries for per-id channel `{tmpl}` are released", f"every new id creates a channel entry (deque + lock) in {sorted(maps)[0]} and no code path ever removes one (published from {sorted(set(sites))}): the master's transport grows by one entry per job for each such channel, and every subscription scan walks all of them", tr_pub.lineno)

    # what nobody consumes is retained by the transport it was published on: that transport must not outlive the
    # per-run / per-job Pipeline whose nodes published it (interface: whoever constructs / runs a pipeline per job)
    r_own = R.rule("C18-D3-unconsumed-messages-die-with-their-pipeline", "node outputs are published on channels nothing subscribes to, so the transport they are published on retains them: that transport is "
                   "followed back from the publish call through parameters and attributes to every place it is handed over, and at each hand-over the object is as short-lived as the call - none "
                   "(the callee creates a private one), created for it, or passed on once - never one object shared by all turns of a per-job loop or an attribute of a long-lived caller given to a "
                   "per-run constructed Pipeline", 2)
    _transport_lifetime(repo, R, r_own, unconsumed)

    # ------------------------------------------------------------------ D4
    _run_input_read_only(repo, R)
    if deferred is not None:
        raise deferred


def _spec_roots(repo: Repo) -> Tuple[ast.ClassDef, Dict[str, ast.AST], List[Tuple[ast.AST, ast.Call, Dict[str, str]]]]:
    """The Pipeline class, its configuration-derived attributes (attr -> defining statement in __init__)
    and the calls `<orchestrator>.execute(...)` with the parameter each such attribute is bound to."""
    mod = repo.module(PIPE)
    pcls = repo.cls(PIPE, "Pipeline")
    init = next((n for n in pcls.body if isinstance(n, FuncNode) and n.name == "__init__"), None)
    if init is None:
        raise AnalysisError("Pipeline.__init__ not found")
    a = init.args
    pos = a.posonlyargs + a.args
    required = {p.arg for p in pos[1:len(pos) - len(a.defaults)]} | {p.arg for p, d in zip(a.kwonlyargs, a.kw_defaults) if d is None}
    derived = set(required)
    attrs: Dict[str, ast.AST] = {}
    changed = True
    while changed:
        changed = False
        for n in walk_no_nested(init):
            if not isinstance(n, (ast.Assign, ast.AnnAssign)) or getattr(n, "value", None) is None:
                continue
            if not any(isinstance(x, ast.Name) and x.id in derived for x in ast.walk(n.value)):
                continue
            for t in (n.targets if isinstance(n, ast.Assign) else [n.target]):
                for x in ast.walk(t):
                    if isinstance(x, ast.Name) and isinstance(x.ctx, ast.Store) and x.id not in derived:
                        derived.add(x.id)
                        changed = True
                    if isinstance(x, ast.Attribute) and isinstance(x.value, ast.Name) and x.value.id == "self" and x.attr not in attrs:
                        attrs[x.attr] = n
                        changed = True
    calls = []
    for f in [n for n in pcls.body if isinstance(n, FuncNode)]:
        for c in calls_in(f):
            if call_attr(c) != "execute" or not isinstance(c.func, ast.Attribute):
                continue
            bound: Dict[str, str] = {}
            for k in c.keywords:
                d = dotted_name(k.value) or ""
                if k.arg and d.startswith("self.") and d[5:] in attrs:
                    bound[k.arg] = d[5:]
            for i, v in enumerate(c.args):
                d = dotted_name(v) or ""
                if d.startswith("self.") and d[5:] in attrs:
                    bound[f"#{i}"] = d[5:]
            if bound:
                calls.append((f, c, bound))
    return pcls, attrs, calls


def _run_input_read_only(repo: Repo, R: Report) -> None:
    r_spec = R.rule(
        "C18-D4-run-input-not-rewritten",
        "what a long-lived Pipeline hands to every run (the specification built from its configuration) is read-only on the run path: "
        "every in-place store reachable from execute() hits an object the run created (a copy down to the stored level), and the Pipeline "
        "never rebinds or mutates those attributes after construction - otherwise the output of run N (generated classes, resolved objects) "
        "is the input of run N+1",
        4,
    )
    pcls, attrs, calls = _spec_roots(repo)
    if not attrs or not calls:
        raise AnalysisError("Pipeline: configuration-derived attributes handed to <orchestrator>.execute not found")
    handed = {a for _f, _c, b in calls for a in b.values()}
    flow = _SpecFlow(repo)
    flow.shared_attrs[id(pcls)] = {f"self.{a}" for a in handed}
    pmod = repo.module(PIPE)
    # (a) the Pipeline itself keeps them as built
    for f in [n for n in pcls.body if isinstance(n, FuncNode)]:
        qn = f"Pipeline.{f.name}"
        for n in walk_no_nested(f):
            tgts = n.targets if isinstance(n, ast.Assign) else [n.target] if isinstance(n, (ast.AugAssign, ast.AnnAssign)) and getattr(n, "value", None) is not None else []
            for t in tgts:
                for x in ([t] if not isinstance(t, (ast.Tuple, ast.List)) else list(t.elts)):
                    d = dotted_name(x) or ""
                    if d.startswith("self.") and d[5:] in handed and f.name != "__init__":
                        R.violation(r_spec, PIPE, qn, norm(n), f"`{d}` is handed to every run and rebound after construction: the next run starts from what this one left", n.lineno)
        if f.name != "__init__":
            flow.analyse(pmod, f, {}, ())
    for attr in sorted(handed):
        R.ok(r_spec, PIPE, "Pipeline", f"self.{attr} bound in __init__ only", "configuration-derived, handed to execute()", attrs[attr].lineno)
    # (b) the run path does not store into them
    n_targets = 0
    for f, c, bound in calls:
        for tmod, tfn in repo.resolve_call_by_name(c):
            if not isinstance(tfn, FuncNode) or not isinstance(parent(tfn), ast.ClassDef):
                continue
            a = tfn.args
            pos = [p.arg for p in a.posonlyargs + a.args][1:]
            names = set(pos) | {p.arg for p in a.kwonlyargs}
            binding: Dict[str, object] = {}
            for k, attr in bound.items():
                if k.startswith("#"):
                    if int(k[1:]) < len(pos):
                        binding[pos[int(k[1:])]] = SHARED
                elif k in names:
                    binding[k] = SHARED
            if len(binding) != len(bound):
                continue  # another `execute` (different signature)
            n_targets += 1
            flow.analyse(tmod, tfn, binding, (f"{PIPE}:Pipeline.{f.name}",))
    if not n_targets:
        raise AnalysisError("no execute(...) definition accepts what Pipeline hands over")
    for (rel, qn, text), (st, path) in sorted(flow.sites.items(), key=lambda kv: kv[0]):
        R.violation(
            r_spec, rel, qn, text,
            "in-place store into an object owned by the long-lived Pipeline (reached from the specification it hands to every run) on the per-run path: "
            "what this run computed - a generated / specialised class, a resolved object - becomes the input of the next run of the same Pipeline, "
            "so per-run results chain (each run's class derives from the previous run's) or stay pinned for the life of the Pipeline",
            getattr(st, "lineno", 0), list(path),
        )
    for (rel, qn), n in sorted(flow.visited.items()):
        if n and not any(k[0] == rel and k[1] == qn for k in flow.sites):
            R.ok(r_spec, rel, qn, f"{n} in-place store(s) on values derived from the run input: all on run-owned copies", "")
    R.extra["spec_flow_functions"] = len(flow.visited)


# ---------------------------------------------------------------------------------------------- D4
# Ownership analysis of the specification a long-lived Pipeline hands to every run.
#
# Abstract value of an expression: SHARED (the object itself belongs to the Pipeline: a store into it
# survives the run), OWNED (created by this run, or unrelated) or a tree _Own(children, default): the
# object itself is run-owned, what it holds under key k is children[k] (else default).

PIPE = "semantiva/pipeline/pipeline.py"
SHARED, OWNED = "SHARED", "OWNED"
COPY_CALLS = {"dict", "list", "copy", "set", "tuple", "sorted", "frozenset", "OrderedDict"}
VIEW_CALLS = {"items", "values", "enumerate", "zip", "reversed", "iter", "keys"}
STORE_MUTATORS = {
    "append", "extend", "add", "update", "pop", "popitem", "setdefault", "clear", "remove", "insert",
    "discard", "sort", "reverse", "__setitem__", "__delitem__",
}


class _Own:
    __slots__ = ("children", "default")

    def __init__(self, children=None, default=OWNED):
        self.children = dict(children or {})
        self.default = default


def _own_child(v, key):
    if v in (SHARED, OWNED):
        return v
    if key != "*" and key in v.children:
        return v.children[key]
    if key == "*":
        out = v.default
        for c in v.children.values():
            out = _own_join(out, c)
        return out
    return _own_join(v.default, v.children["*"]) if "*" in v.children else v.default


def _own_join(a, b):
    if a == SHARED or b == SHARED:
        return SHARED
    if a == OWNED:
        return b
    if b == OWNED:
        return a
    keys = set(a.children) | set(b.children)
    return _Own({k: _own_join(_own_child(a, k) if k in a.children else a.default, _own_child(b, k) if k in b.children else b.default) for k in keys}, _own_join(a.default, b.default))


def _own_copy(v):
    """Ownership of dict(x) / list(x) / x.copy(): a new top level holding what x held."""
    if v == OWNED:
        return OWNED
    if v == SHARED:
        return _Own(default=SHARED)
    return _Own(v.children, v.default)


def _own_key(v):
    if v in (SHARED, OWNED):
        return v
    return ("T", tuple(sorted((str(k), _own_key(c)) for k, c in v.children.items())), _own_key(v.default))


def _is_related(v) -> bool:
    return v != OWNED


class _SpecFlow:
    """Interprocedural (depth-bounded, memoised) search for stores into objects the Pipeline owns."""

    MAX_DEPTH = 8

    def __init__(self, repo: Repo):
        self.repo = repo
        self.memo: Dict[Tuple[int, tuple], object] = {}
        self.sites: Dict[Tuple[str, str, str], Tuple[ast.AST, Tuple[str, ...]]] = {}
        self.visited: Dict[Tuple[str, str], int] = {}
        self.shared_attrs: Dict[int, Set[str]] = {}  # id(class) -> `self.x` expressions that denote Pipeline-owned objects

    # -- one function --------------------------------------------------------------------------
    def analyse(self, mod, fn: ast.AST, params: Dict[str, object], path: Tuple[str, ...]) -> object:
        from ..cfg import CFG

        key = (id(fn), tuple(sorted((k, _own_key(v)) for k, v in params.items())))
        if key in self.memo:
            return self.memo[key]
        self.memo[key] = OWNED  # recursion: assume owned while in progress
        if len(path) > self.MAX_DEPTH:
            return OWNED
        qn = qualname_of(fn)
        here = path + (f"{mod.rel}:{qn}",)
        self.repo.consulted.add(mod.rel)
        g = CFG(fn, may_raise=lambda p: set())
        ctx = _FnCtx(self, mod, fn, g, params, here)
        n_sites = 0
        for st, container in _store_sites(fn):
            v = ctx.value(container, st)
            if _is_related(v) or _mentions(container, params):
                n_sites += 1
            if v == SHARED:
                self.sites.setdefault((mod.rel, qn, norm(st)), (st, here))
        self.visited[(mod.rel, qn)] = self.visited.get((mod.rel, qn), 0) + n_sites
        # calls that receive a related value
        for c in calls_in(fn):
            ctx.call_result(c)
        ret: object = OWNED
        for n in walk_no_nested(fn):
            if isinstance(n, ast.Return) and n.value is not None:
                if isinstance(n.value, ast.Name) and n.value.id in params and _leaf_guarded(g, n, n.value.id):
                    continue  # returned only when it is neither a mapping nor a sequence: nothing to store into
                ret = _own_join(ret, ctx.value(n.value, n))
        self.memo[key] = ret
        return ret


MAPPING_TYPES = {"dict", "Mapping", "MutableMapping", "OrderedDict", "defaultdict"}
SEQUENCE_TYPES = {"list", "Sequence", "MutableSequence"}


def _leaf_guarded(g, ret: ast.Return, name: str) -> bool:
    """`return <name>` is reached only on paths where isinstance(<name>, <mapping>) and
    isinstance(<name>, <sequence>) were both tested false (the usual tail of a recursive copy)."""
    from ..cfg import returns_only_through

    ids = g.nodes_for(ret)
    if not ids:
        return False

    def atom_for(types):
        def atom(e: ast.AST) -> Optional[bool]:
            if isinstance(e, ast.Call) and isinstance(e.func, ast.Name) and e.func.id == "isinstance" and len(e.args) == 2 and isinstance(e.args[0], ast.Name) and e.args[0].id == name:
                t = e.args[1]
                names = {(dotted_name(x) or "").split(".")[-1] for x in (t.elts if isinstance(t, ast.Tuple) else [t])}
                if names & types:
                    return False  # the negation of "is not such a container"
            return None

        return atom

    return all(returns_only_through(g, atom_for(types), targets=ids)[0] for types in (MAPPING_TYPES, SEQUENCE_TYPES))


def _mentions(expr: ast.AST, params: Dict[str, object]) -> bool:
    return any(isinstance(x, ast.Name) and x.id in params for x in ast.walk(expr))


def _store_sites(fn: ast.AST) -> List[Tuple[ast.AST, ast.AST]]:
    """(statement, container expression) for every in-place store / delete / mutator call in *fn*."""
    cached = getattr(fn, "_c18_store_sites", None)
    if cached is not None:
        return cached
    out: List[Tuple[ast.AST, ast.AST]] = []
    fn._c18_store_sites = out  # type: ignore[attr-defined]
    for n in walk_no_nested(fn):
        tgts: List[ast.AST] = []
        if isinstance(n, ast.Assign):
            tgts = list(n.targets)
        elif isinstance(n, (ast.AugAssign, ast.AnnAssign)):
            tgts = [n.target]
        elif isinstance(n, ast.Delete):
            tgts = list(n.targets)
        for t in tgts:
            for el in (t.elts if isinstance(t, (ast.Tuple, ast.List)) else [t]):
                if isinstance(el, ast.Subscript):
                    out.append((n, el.value))
        if isinstance(n, ast.Call) and isinstance(n.func, ast.Attribute) and n.func.attr in STORE_MUTATORS:
            out.append((stmt_of(n), n.func.value))
    return out


class _FnCtx:
    def __init__(self, flow: _SpecFlow, mod, fn, g, params: Dict[str, object], path: Tuple[str, ...]):
        self.flow, self.mod, self.fn, self.g, self.params, self.path = flow, mod, fn, g, params, path
        self.name_cache: Dict[Tuple[str, int], object] = {}
        self.call_cache: Dict[int, object] = {}

    def _use_node(self, at: ast.AST) -> Optional[int]:
        st = at
        while st is not None and not self.g.nodes_for(st):
            if st is self.fn:
                return None
            st = parent(st)
        if st is None:
            return None
        ids = self.g.nodes_for(st)
        return ids[0] if ids else None

    def value(self, expr: Optional[ast.AST], at: ast.AST, env: Optional[Dict[str, object]] = None) -> object:
        from ..cfg import reaching_defs

        if expr is None or isinstance(expr, ast.Constant):
            return OWNED
        if isinstance(expr, ast.Name):
            if env and expr.id in env:
                return env[expr.id]
            use = self._use_node(at)
            if use is None:
                return self.params.get(expr.id, OWNED)
            ck = (expr.id, use)
            if ck in self.name_cache:
                return self.name_cache[ck]
            self.name_cache[ck] = OWNED
            defs = reaching_defs(self.g, expr.id, use)
            if not defs:
                out = self.params.get(expr.id, OWNED)
            else:
                out = OWNED
                # a parameter that may still hold its incoming value on some path
                if expr.id in self.params:
                    blocked = {d.id for d in defs if d.id != use}
                    if use in self.g.reach([self.g.entry], blocked=blocked):
                        out = self.params[expr.id]
                for d in defs:
                    out = _own_join(out, self._def_value(d, expr.id))
            if out != SHARED:
                out = self._weak_updates(expr.id, out)
            self.name_cache[ck] = out
            return out
        if isinstance(expr, ast.Attribute):
            cls = enclosing_class(self.fn)
            if cls is not None and (dotted_name(expr) or "") in self.flow.shared_attrs.get(id(cls), ()):
                return SHARED
            return OWNED
        if isinstance(expr, ast.Subscript):
            base = self.value(expr.value, at, env)
            if isinstance(expr.slice, ast.Slice):
                return _own_copy(base)
            return _own_child(base, expr.slice.value if isinstance(expr.slice, ast.Constant) else "*")
        if isinstance(expr, ast.Starred):
            return self.value(expr.value, at, env)
        if isinstance(expr, ast.NamedExpr):
            return self.value(expr.value, at, env)
        if isinstance(expr, ast.Call):
            name = call_attr(expr)
            f = expr.func
            if name == "deepcopy":
                return OWNED
            if name == "loads":
                return OWNED
            if name in ("get", "pop", "setdefault") and isinstance(f, ast.Attribute) and expr.args:
                base = self.value(f.value, at, env)
                got = _own_child(base, expr.args[0].value if isinstance(expr.args[0], ast.Constant) else "*")
                if len(expr.args) > 1:
                    got = _own_join(got, self.value(expr.args[1], at, env))
                return got
            if name in COPY_CALLS:
                src = expr.args[0] if expr.args else (f.value if isinstance(f, ast.Attribute) else None)
                out = _own_copy(self.value(src, at, env)) if src is not None else OWNED
                for kw in expr.keywords:  # dict(x, k=v)
                    if kw.arg is not None and _is_related(self.value(kw.value, at, env)):
                        out = _own_join(out if out != OWNED else _Own(), _Own({kw.arg: self.value(kw.value, at, env)}))
                return out
            if name in VIEW_CALLS:
                srcs = list(expr.args) if isinstance(f, ast.Name) else [f.value]
                out = OWNED
                for s in srcs:
                    out = _own_join(out, self.value(s, at, env))
                return out
            if name == "cast" and len(expr.args) == 2:
                return self.value(expr.args[1], at, env)
            if env is None:
                return self.call_result(expr)
            return self._call_with(expr, at, env)
        if isinstance(expr, ast.Dict):
            children: Dict[object, object] = {}
            default: object = OWNED
            related = False
            for k, v in zip(expr.keys, expr.values):
                inner = self.value(v, at, env)
                related = related or _is_related(inner)
                if k is None:
                    if inner == SHARED:
                        default = SHARED
                    elif isinstance(inner, _Own):
                        default = _own_join(default, inner.default)
                        for kk, vv in inner.children.items():
                            children[kk] = vv
                elif isinstance(k, ast.Constant):
                    children[k.value] = inner
                else:
                    children["*"] = _own_join(children.get("*", OWNED), inner)
            return _Own(children, default) if related else OWNED
        if isinstance(expr, ast.Tuple) and not any(isinstance(e, ast.Starred) for e in expr.elts):
            parts = {i: self.value(e, at, env) for i, e in enumerate(expr.elts)}
            return _Own(parts) if any(_is_related(v) for v in parts.values()) else OWNED
        if isinstance(expr, (ast.List, ast.Tuple, ast.Set)):
            worst: object = OWNED
            for e in expr.elts:
                worst = _own_join(worst, self.value(e, at, env))
            return _Own({"*": worst}) if _is_related(worst) else OWNED
        if isinstance(expr, (ast.ListComp, ast.SetComp, ast.GeneratorExp, ast.DictComp)):
            env2 = dict(env or {})
            for gen in expr.generators:
                it = self.value(gen.iter, at, env2)
                elem = _own_child(it, "*")
                for nm in [x.id for x in ast.walk(gen.target) if isinstance(x, ast.Name)]:
                    env2[nm] = elem
            elt = expr.value if isinstance(expr, ast.DictComp) else expr.elt
            inner = self.value(elt, at, env2)
            return _Own({"*": inner}) if _is_related(inner) else OWNED
        if isinstance(expr, ast.IfExp):
            return _own_join(self.value(expr.body, at, env), self.value(expr.orelse, at, env))
        if isinstance(expr, ast.BoolOp):
            out = OWNED
            for v in expr.values:
                out = _own_join(out, self.value(v, at, env))
            return out
        return OWNED

    def _weak_updates(self, name: str, out: object) -> object:
        """What is put into the local container *name* anywhere in the function (flow-insensitive)."""
        for st, container in _store_sites(self.fn):
            if not (isinstance(container, ast.Name) and container.id == name):
                continue
            add: Optional[_Own] = None
            if isinstance(st, (ast.Assign, ast.AnnAssign)) and getattr(st, "value", None) is not None:
                for t in (st.targets if isinstance(st, ast.Assign) else [st.target]):
                    if isinstance(t, ast.Subscript) and t.value is container:
                        v = self.value(st.value, st)
                        if _is_related(v):
                            add = _Own({t.slice.value if isinstance(t.slice, ast.Constant) else "*": v})
            for c in [x for x in walk_no_nested(st) if isinstance(x, ast.Call) and isinstance(x.func, ast.Attribute) and x.func.value is container]:
                m = c.func.attr
                if m in ("append", "add") and c.args:
                    v = self.value(c.args[0], st)
                    add = _Own({"*": v}) if _is_related(v) else add
                elif m == "insert" and len(c.args) > 1:
                    v = self.value(c.args[1], st)
                    add = _Own({"*": v}) if _is_related(v) else add
                elif m == "setdefault" and len(c.args) > 1:
                    v = self.value(c.args[1], st)
                    add = _Own({c.args[0].value if isinstance(c.args[0], ast.Constant) else "*": v}) if _is_related(v) else add
                elif m in ("extend", "update") and c.args:
                    v = _own_copy(self.value(c.args[0], st))
                    add = v if isinstance(v, _Own) else add
            if add is not None:
                out = _own_join(out if isinstance(out, _Own) else _Own(), add)
        return out

    def _def_value(self, d, name: str) -> object:
        a = d.ast
        if d.kind == "for" and isinstance(a, ast.For):
            return _own_child(self.value(a.iter, a), "*")
        if d.kind in ("with", "except"):
            return OWNED
        val = getattr(a, "value", None)
        if val is None:
            return OWNED
        if isinstance(a, ast.AugAssign):
            return _own_join(self.value(a.value, a), OWNED)
        tgts = a.targets if isinstance(a, ast.Assign) else [a.target]
        out: object = OWNED
        for t in tgts:
            if isinstance(t, ast.Name) and t.id == name:
                out = _own_join(out, self.value(val, a))
            elif isinstance(t, (ast.Tuple, ast.List)):
                names = [x.id if isinstance(x, ast.Name) else None for x in t.elts]
                if name in names:
                    if isinstance(val, (ast.Tuple, ast.List)) and len(val.elts) == len(t.elts):
                        out = _own_join(out, self.value(val.elts[names.index(name)], a))
                    else:
                        whole = self.value(val, a)
                        out = _own_join(out, _own_child(whole, names.index(name)) if isinstance(whole, _Own) and names.index(name) in whole.children else _own_child(whole, "*"))
                elif any(isinstance(x, ast.Name) and x.id == name for x in ast.walk(t)):
                    out = _own_join(out, _own_child(_own_child(self.value(val, a), "*"), "*"))
        return out

    # -- calls ---------------------------------------------------------------------------------
    def call_result(self, call: ast.Call) -> object:
        if id(call) in self.call_cache:
            return self.call_cache[id(call)]
        self.call_cache[id(call)] = OWNED
        out = self._call_with(call, call, None)
        self.call_cache[id(call)] = out
        return out

    def _call_with(self, call: ast.Call, at: ast.AST, env) -> object:
        argvals = [(None, self.value(a, at, env)) for a in call.args if not isinstance(a, ast.Starred)]
        kwvals = [(k.arg, self.value(k.value, at, env)) for k in call.keywords if k.arg is not None]
        if not any(_is_related(v) for _k, v in argvals + kwvals):
            return OWNED
        try:
            targets = self.flow.repo.resolve_call(self.mod, call)
        except Exception:
            targets = []
        out: object = OWNED
        for tmod, tfn in targets:
            if not isinstance(tfn, FuncNode):
                continue
            a = tfn.args
            pos = [p.arg for p in a.posonlyargs + a.args]
            deco = {dotted_name(d) for d in tfn.decorator_list}
            in_class = isinstance(parent(tfn), ast.ClassDef)
            if in_class and "staticmethod" not in deco and pos:
                pos = pos[1:]
            binding: Dict[str, object] = {}
            for p, (_k, v) in zip(pos, argvals):
                binding[p] = v
            names = set(pos) | {p.arg for p in a.kwonlyargs}
            for k, v in kwvals:
                if k in names:
                    binding[k] = v
                elif a.kwarg is not None:
                    binding[a.kwarg.arg] = _own_join(binding.get(a.kwarg.arg, OWNED), _Own({"*": v}) if _is_related(v) else OWNED)
            binding = {k: v for k, v in binding.items() if _is_related(v)}
            if not binding:
                continue
            res = self.flow.analyse(tmod, tfn, binding, self.path)
            if tfn.name != "__init__":
                out = _own_join(out, res)
        return out
