"""C18 - repeated execution leaves no per-run residue in the process.

D1 the component registry cannot pin per-run generated classes (weak / keyed insertion, or every
   reachable creation site memoised),
D2 process-global accumulators (module- and class-level containers with growing mutations,
   stdlib process-wide registrars) are exactly the frozen, bounded ones,
D3 long-lived objects (orchestrators, pipeline, transports, drivers, executors, emitters) do not
   accumulate per run; every publish has a consumer.
"""
from __future__ import annotations

import ast
from fnmatch import fnmatch
from typing import Dict, List, Optional, Set, Tuple

from ..engine import (
    GROWERS,
    AnalysisError,
    FuncNode,
    Repo,
    ancestors,
    call_attr,
    call_name,
    calls_in,
    dotted_name,
    enclosing_class,
    kwarg,
    norm,
    qualname_of,
    stmt_of,
    walk_no_nested,
)
from ..report import Report

COMP = "semantiva/core/semantiva_component.py"
CONTAINER_CALLS = {"dict", "list", "set", "defaultdict", "OrderedDict", "deque", "WeakSet", "WeakValueDictionary", "WeakKeyDictionary", "Counter", "ChainMap"}
WEAK_CALLS = {"WeakSet", "WeakValueDictionary"}

# process-global accumulators confirmed by reading: (file, class or None, name) -> why bounded
GLOBAL_TABLE: Dict[Tuple[str, Optional[str], str], str] = {
    (COMP, None, "_COMPONENT_REGISTRY"): "category -> weak set of classes (D1)",
    ("semantiva/execution/component_registry.py", "ExecutionComponentRegistry", "_executors"): "keyed by registered name",
    ("semantiva/execution/component_registry.py", "ExecutionComponentRegistry", "_orchestrators"): "keyed by registered name",
    ("semantiva/execution/component_registry.py", "ExecutionComponentRegistry", "_transports"): "keyed by registered name",
    ("semantiva/registry/name_resolver_registry.py", "NameResolverRegistry", "_resolvers"): "keyed by prefix",
    ("semantiva/registry/parameter_resolver_registry.py", "ParameterResolverRegistry", "_resolvers"): "append guarded by `not in`",
    ("semantiva/registry/parameter_resolver_registry.py", "ParameterResolverRegistry", "_builtin_names"): "set of resolver names",
    ("semantiva/registry/plugin_registry.py", None, "_LOADED_EXTENSIONS"): "set of extension names, guarded by membership",
    ("semantiva/registry/processor_registry.py", "ProcessorRegistry", "_module_history"): "append guarded by _registered_modules membership",
    ("semantiva/registry/processor_registry.py", "ProcessorRegistry", "_processors"): "keyed by processor name",
    ("semantiva/registry/processor_registry.py", "ProcessorRegistry", "_registered_modules"): "set of module names",
}
# instance-level accumulators on long-lived objects: (file, class, attribute) -> why bounded
LONG_LIVED_DIRS = (
    "semantiva/execution/",
    "semantiva/pipeline/pipeline.py",
    "semantiva/trace/drivers/",
    "semantiva/trace/runtime/",
)
INSTANCE_TABLE: Dict[Tuple[str, str, str], str] = {
    ("semantiva/execution/job_queue/queue_orchestrator.py", "QueueSemantivaOrchestrator", "self.pending_futures"): "entry deleted when the job's status arrives",
    ("semantiva/trace/runtime/run_space_emitter.py", "RunSpaceTraceEmitter", "self._seen"): "one entry per launch of this emitter (an emitter lives for one CLI launch)",
}
# stdlib calls that insert into process-wide registries
REGISTRARS = {"weakref.finalize", "finalize", "atexit.register", "signal.signal", "sys.settrace", "sys.setprofile", "threading.excepthook", "gc.callbacks.append", "copyreg.pickle"}
UNBOUNDED_CACHE_DECORATORS = {"cache", "functools.cache", "lru_cache", "functools.lru_cache"}


def _is_container(v: Optional[ast.AST]) -> bool:
    if isinstance(v, (ast.Dict, ast.List, ast.Set, ast.DictComp, ast.ListComp, ast.SetComp)):
        return True
    return isinstance(v, ast.Call) and call_attr(v) in CONTAINER_CALLS


_GROW_CACHE: Dict[int, List[Tuple[str, str, ast.AST, str]]] = {}


def _all_grow_sites(repo: Repo) -> List[Tuple[str, str, ast.AST, str]]:
    key = id(repo)
    if key not in _GROW_CACHE:
        sites = []
        for mod, qn, f in repo.all_functions():
            for n in walk_no_nested(f):
                tgt = None
                if isinstance(n, ast.Call) and isinstance(n.func, ast.Attribute) and n.func.attr in GROWERS:
                    tgt = dotted_name(n.func.value)
                elif isinstance(n, ast.Assign):
                    for t in n.targets:
                        if isinstance(t, ast.Subscript):
                            tgt = dotted_name(t.value)
                if tgt:
                    sites.append((mod.rel, qn, n, tgt))
        _GROW_CACHE.clear()
        _GROW_CACHE[key] = sites
    return _GROW_CACHE[key]


def _growers_of(repo: Repo, rel: str, cls: Optional[str], name: str) -> List[Tuple[str, str, ast.AST]]:
    out = []
    for mrel, qn, n, tgt in _all_grow_sites(repo):
        if tgt.split(".")[-1] != name:
            continue
        head = tgt.split(".")[0]
        if cls is None:
            if (tgt == name and mrel == rel) or (tgt.endswith("." + name) and head not in ("self", "cls")):
                out.append((mrel, qn, n))
        else:
            simple = cls.split(".")[-1]
            ec = enclosing_class(n)
            mod = repo.modules[mrel]
            in_family = ec is not None and (ec.name == simple or any(b[1].name == simple for b in repo.mro(mod, ec)))
            if (head in ("cls", "self") and in_family) or head == simple:
                out.append((mrel, qn, n))
    return out


def run(repo: Repo, R: Report) -> None:
    R.assume(
        "garbage collection reclaims unreferenced classes and objects (cycles included)",
        "names registered at import / registration time (processor names, module names, extension names, resolver prefixes) form a set determined by the configuration, not by the number of runs",
    )
    R.undecided("measured counts of registered classes / gc-tracked objects (nothing is run)", "residue inside third-party libraries")

    # ------------------------------------------------------------------ D1
    r_reg = R.rule("C18-D1-registry-cannot-pin-classes", "the metaclass inserts every new component class into the process-global registry through a weak container (or a configuration-keyed slot), so per-run generated node/adapter/shorthand classes do not accumulate", 2)
    meta_init = repo.func(COMP, "_SemantivaComponentMeta.__init__")
    ins = [c for c in calls_in(meta_init) if isinstance(c.func, ast.Attribute) and c.func.attr in ("append", "add", "setdefault", "__setitem__", "update", "extend")]
    stores = [n for n in ast.walk(meta_init) if isinstance(n, ast.Assign) and any(isinstance(t, ast.Subscript) and "_COMPONENT_REGISTRY" in ast.unparse(t) for t in n.targets)]
    if not ins and not stores:
        raise AnalysisError("_SemantivaComponentMeta.__init__: registry insertion not found")
    weak = False
    strong_site = None
    for c in ins:
        src = ast.unparse(c)
        if "_COMPONENT_REGISTRY" not in src:
            continue
        if c.func.attr == "add" and isinstance(c.func.value, ast.Call) and call_attr(c.func.value) == "setdefault":
            default = c.func.value.args[1] if len(c.func.value.args) > 1 else None
            if isinstance(default, ast.Call) and call_attr(default) in WEAK_CALLS:
                weak = True
            else:
                strong_site = c
        elif c.func.attr in ("append", "extend"):
            strong_site = c
        elif c.func.attr == "add":
            strong_site = strong_site  # receiver resolved below
    for s in stores:
        v = s.value
        if not (isinstance(v, ast.Call) and call_attr(v) in ("ref", "WeakSet", "WeakValueDictionary")):
            # keyed strong slot: acceptable only if the key is the class' qualified name *and* generated classes have distinct names - they do not
            strong_site = s
    reg_decl = next((st for st in repo.module(COMP).tree.body if isinstance(st, (ast.Assign, ast.AnnAssign)) and "_COMPONENT_REGISTRY" in ast.unparse(st.targets[0] if isinstance(st, ast.Assign) else st.target)), None)
    R.check(weak and strong_site is None, r_reg, COMP, "_SemantivaComponentMeta.__init__", norm(stmt_of(ins[0])) if ins else norm(stores[0]),
            "component classes are held strongly (or keyed by a name generated classes share) in the process-global registry: every run's generated node / adapter / shorthand classes stay registered (or evict each other) for the life of the process", meta_init.lineno)
    getter = repo.func(COMP, "get_component_registry")
    rets = [n for n in walk_no_nested(getter) if isinstance(n, ast.Return)]
    ok = bool(rets) and all(not (isinstance(r.value, ast.Name) and r.value.id == "_COMPONENT_REGISTRY") for r in rets)
    R.check(ok, r_reg, COMP, "get_component_registry", "returns a snapshot, not the live weak registry", "callers receive the live registry object (can pin or mutate it)", getter.lineno)

    # ------------------------------------------------------------------ D2
    r_glob = R.rule("C18-D2-global-accumulators", "module- and class-level containers that some function grows are exactly the frozen, bounded registries; no stdlib process-wide registrar (weakref.finalize, atexit, unbounded caches) is fed per run", 11)
    found: Dict[Tuple[str, Optional[str], str], ast.AST] = {}
    for mod in repo.modules.values():
        for st in mod.tree.body:
            if isinstance(st, (ast.Assign, ast.AnnAssign)) and _is_container(getattr(st, "value", None)):
                t = st.targets[0] if isinstance(st, ast.Assign) else st.target
                if isinstance(t, ast.Name):
                    found[(mod.rel, None, t.id)] = st
        for qn, c in mod.defs.items():
            if isinstance(c, ast.ClassDef):
                for st in c.body:
                    if isinstance(st, (ast.Assign, ast.AnnAssign)) and _is_container(getattr(st, "value", None)):
                        t = st.targets[0] if isinstance(st, ast.Assign) else st.target
                        if isinstance(t, ast.Name):
                            found[(mod.rel, qn, t.id)] = st
    R.extra["global_containers_scanned"] = len(found)
    for key, decl in sorted(found.items(), key=str):
        rel, cls, name = key
        if rel.startswith("semantiva/examples/"):
            continue
        gs = _growers_of(repo, rel, cls, name)
        if not gs:
            continue
        repo.consulted.add(rel)
        where = f"{cls}.{name}" if cls else name
        if key in GLOBAL_TABLE:
            R.ok(r_glob, rel, cls or "<module>", f"{where}: {len(gs)} growing site(s)", GLOBAL_TABLE[key], decl.lineno)
        else:
            site = gs[0]
            R.violation(r_glob, rel, cls or "<module>", f"{where} grown by `{norm(stmt_of(site[2]))[:70]}` in {site[1]}",
                        "a new process-global container is grown at run time: entries (and whatever they reference - generated classes, payloads, drivers) survive every run", decl.lineno)
    for key in GLOBAL_TABLE:
        if key not in found and repo.has_module(key[0]):
            R.note(f"frozen accumulator {key} no longer exists")
    # bounded idioms of the frozen entries that append
    pr = repo.func("semantiva/registry/processor_registry.py", "ProcessorRegistry.register_modules")
    src = ast.unparse(pr)
    R.check("in cls._registered_modules" in src and "continue" in src, r_glob, "semantiva/registry/processor_registry.py", "ProcessorRegistry.register_modules", "module history append guarded by membership", "module history grows on every registration call (workers apply the profile per job)", pr.lineno)
    prr = repo.func("semantiva/registry/parameter_resolver_registry.py", "ParameterResolverRegistry.register_resolver")
    R.check("not in cls._resolvers" in ast.unparse(prr), r_glob, "semantiva/registry/parameter_resolver_registry.py", "ParameterResolverRegistry.register_resolver", "resolver append guarded by membership", "resolver list grows on every registration", prr.lineno)
    # stdlib registrars and unbounded caches
    n_reg = 0
    for mod, qn, f in repo.all_functions():
        if mod.rel.startswith("semantiva/examples/"):
            continue
        for c in calls_in(f):
            d = call_name(c) or ""
            if d in REGISTRARS or d.endswith(".finalize") and "weakref" in d:
                n_reg += 1
                R.violation(r_glob, mod.rel, qn, norm(c)[:80], f"`{d}` inserts into a process-wide registry each time this runs; the registered callback keeps its arguments (driver, file, node) alive", c.lineno)
        for dec in getattr(f, "decorator_list", []):
            dn = dotted_name(dec.func if isinstance(dec, ast.Call) else dec) or ""
            if dn in UNBOUNDED_CACHE_DECORATORS:
                unbounded = dn.endswith("cache") and not dn.endswith("lru_cache") or (isinstance(dec, ast.Call) and isinstance(kwarg(dec, "maxsize") or (dec.args[0] if dec.args else None), ast.Constant) and (kwarg(dec, "maxsize") or dec.args[0]).value is None)
                takes_objects = len(f.args.args) > (1 if f.args.args and f.args.args[0].arg in ("self", "cls") else 0)
                if unbounded and takes_objects:
                    R.violation(r_glob, mod.rel, qn, f"@{dn}", "an unbounded memo keyed by its arguments keeps every per-run argument object alive", f.lineno)
    R.ok(r_glob, "semantiva", "<package>", f"stdlib registrars / unbounded caches fed at run time: {n_reg}", "none")

    # ------------------------------------------------------------------ D3
    r_obj = R.rule("C18-D3-long-lived-objects", "orchestrators, Pipeline, transports, drivers, executors and emitters do not grow containers per run (beyond the frozen, bounded ones); every transport.publish has a subscriber that can consume it", 4)
    for mod, qn, c in repo.all_classes():
        if not mod.rel.startswith(LONG_LIVED_DIRS) or "." in qn:
            continue
        hits: Dict[str, ast.AST] = {}
        for f in [n for n in c.body if isinstance(n, FuncNode)]:
            for n in ast.walk(f):
                tgt = None
                if isinstance(n, ast.Call) and isinstance(n.func, ast.Attribute) and n.func.attr in GROWERS:
                    tgt = dotted_name(n.func.value)
                elif isinstance(n, ast.Assign):
                    for t in n.targets:
                        if isinstance(t, ast.Subscript) and not isinstance(t.slice, ast.Constant):
                            tgt = dotted_name(t.value)
                if tgt and tgt.startswith("self.") and tgt.count(".") == 1 and tgt != "self.__dict__":
                    hits.setdefault(tgt, n)
        for attr, site in hits.items():
            repo.consulted.add(mod.rel)
            key = (mod.rel, qn, attr)
            if key in INSTANCE_TABLE:
                R.ok(r_obj, mod.rel, qn, f"{attr} grown by `{norm(stmt_of(site))[:60]}`", INSTANCE_TABLE[key], site.lineno)
            else:
                R.violation(r_obj, mod.rel, qn, f"{attr} grown by `{norm(stmt_of(site))[:70]}`", "a long-lived object accumulates one entry per run / node / job and never releases it", site.lineno)
    qo = repo.func("semantiva/execution/job_queue/queue_orchestrator.py", "QueueSemantivaOrchestrator.run_forever")
    R.check(any(isinstance(n, ast.Delete) and "pending_futures" in ast.unparse(n) for n in ast.walk(qo)) or ".pending_futures.pop(" in ast.unparse(qo), r_obj, "semantiva/execution/job_queue/queue_orchestrator.py", "QueueSemantivaOrchestrator.run_forever", "pending_futures entry released on completion", "completed futures stay registered forever", qo.lineno)
    # publish / subscribe pairing
    patterns = []
    for mod, qn, f in repo.all_functions():
        for c in calls_in(f):
            if call_attr(c) == "subscribe" and c.args and isinstance(c.args[0], ast.Constant) and isinstance(c.args[0].value, str):
                patterns.append(c.args[0].value)
    for mod, qn, f in repo.all_functions():
        if mod.rel.startswith(("semantiva/examples/", "semantiva/execution/transport/")):
            continue
        for c in calls_in(f):
            if call_attr(c) == "publish" and isinstance(c.func, ast.Attribute) and "transport" in (dotted_name(c.func.value) or ""):
                ch = c.args[0] if c.args else kwarg(c, "channel")
                tmpl = None
                if isinstance(ch, ast.Constant):
                    tmpl = str(ch.value)
                elif isinstance(ch, ast.JoinedStr):
                    tmpl = "".join(str(v.value) if isinstance(v, ast.Constant) else "0000" for v in ch.values)
                consumed = tmpl is not None and any(fnmatch(tmpl, p) for p in patterns)
                repo.consulted.add(mod.rel)
                R.check(consumed, r_obj, mod.rel, qn, norm(c)[:90], "messages are published to a channel nothing in the package subscribes to: the in-memory transport retains one Message (data, context) per node per run on a reused Pipeline", c.lineno)
