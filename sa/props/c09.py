"""C09 - a run-space launch equals its independent runs and is linked by stable ids.

D1 one spec id for inspect and trace (sibling normalisers + argument provenance),
D2 launch bracket with truthful counts (must-pass-through / counting on cli._run),
D3 per-run freshness and linkage,
D4 launch-id derivation and inputs id.
"""
from __future__ import annotations

import ast
import copy
from typing import Dict, List, Optional, Set, Tuple

from ..cfg import BASE, CFG, EXC, reaching_defs
from ..engine import (
    AnalysisError,
    FuncNode,
    Repo,
    ancestors,
    assigned_value,
    call_attr,
    call_name,
    calls_in,
    dotted_name,
    kwarg,
    mutation_sites,
    norm,
    stmt_of,
    walk_no_nested,
)
from ..report import Report
from . import _orch

CLI = "semantiva/cli/__init__.py"
IDENT = "semantiva/trace/runtime/run_space_identity.py"
LAUNCH = "semantiva/trace/runtime/run_space_launch.py"
BUILDER = "semantiva/inspection/builder.py"
ORCH = _orch.ORCH
PIPE = "semantiva/pipeline/pipeline.py"


def alpha_normal_form(fn: ast.FunctionDef, type_aliases: Dict[str, str]) -> str:
    """Position-free dump of *fn*'s body with its own name and parameters renamed canonically."""
    fn = ast.parse(ast.unparse(fn)).body[0]  # detached copy (no parent links)
    ren = {fn.name: "F"}
    for i, a in enumerate(fn.args.args):
        ren[a.arg] = f"p{i}"

    class T(ast.NodeTransformer):
        def visit_Name(self, n):
            n.id = ren.get(n.id, type_aliases.get(n.id, n.id))
            return n

        def visit_arg(self, n):
            n.arg = ren.get(n.arg, n.arg)
            n.annotation = None
            return n

    T().visit(fn)
    body = [st for st in fn.body if not (isinstance(st, ast.Expr) and isinstance(st.value, ast.Constant))]
    return "\n".join(ast.dump(st, include_attributes=False) for st in body)


def run(repo: Repo, R: Report) -> None:
    R.assume(
        "yaml.safe_load and dataclasses.asdict are deterministic; sha256 is collision-free for practical purposes",
        "trace driver / emitter calls do not raise",
    )
    R.undecided("run i produces the same result and trace content as a standalone run given run i's context (needs execution); only the structural no-leak conditions are decided")

    # ------------------------------------------------------------------ D1 spec id
    r_sid = R.rule("C09-D1-one-spec-id", "inspection and runtime normalise the run-space block identically (same normal form, same json.dumps options, same prefix) and hash the same representation (asdict of the parsed block)", 5)
    rscf = repo.func(IDENT, "RunSpaceIdentityService._rscf_v1")
    inner = next((n for n in ast.walk(rscf) if isinstance(n, FuncNode) and n is not rscf), None)
    twin = repo.func(BUILDER, "_normalize_run_space")
    if inner is None:
        raise AnalysisError("_rscf_v1: inner normaliser not found")
    nf_a = alpha_normal_form(inner, {"Mapping": "dict"})
    nf_b = alpha_normal_form(twin, {"Mapping": "dict"})
    R.check(nf_a == nf_b, r_sid, IDENT, "RunSpaceIdentityService._rscf_v1.normalize", "normal form equals inspection.builder._normalize_run_space",
            "the runtime and the inspection normaliser of the run-space block differ: `inspect` prints a different spec id than the trace carries (and/or plans that differ are identified)", inner.lineno)
    # json.dumps options
    def dumps_opts(fn) -> Optional[Dict[str, str]]:
        for c in calls_in(fn):
            if call_name(c) == "json.dumps":
                return {k.arg: ast.unparse(k.value) for k in c.keywords if k.arg}
        return None
    csid = repo.func(BUILDER, "_compute_run_space_spec_id")
    oa, ob = dumps_opts(rscf), dumps_opts(csid)
    R.check(oa is not None and oa == ob, r_sid, BUILDER, "_compute_run_space_spec_id", f"json.dumps options {ob}", f"serialisation options differ between runtime {oa} and inspection {ob}", csid.lineno)
    # prefix bytes
    def byte_consts(fn) -> Set[bytes]:
        return {n.value for n in ast.walk(fn) if isinstance(n, ast.Constant) and isinstance(n.value, bytes)}
    comp = repo.func(IDENT, "RunSpaceIdentityService.compute")
    pa = {b for b in byte_consts(comp) if b.startswith(b"semantiva:rscf")}
    pb = {b for b in byte_consts(csid) if b.startswith(b"semantiva:")}
    R.check(pa == pb and len(pa) == 1, r_sid, BUILDER, "_compute_run_space_spec_id", f"hash prefix {sorted(pb)}", f"hash prefixes differ: runtime {sorted(pa)} vs inspection {sorted(pb)}", csid.lineno)
    # argument provenance: both hash asdict(<parsed run space>)
    run_fn = repo.func(CLI, "_run")
    cli_arg = None
    for c in calls_in(run_fn):
        if call_attr(c) == "compute" and "identity" in (call_name(c) or ""):
            cli_arg = c.args[0] if c.args else None
    vals = assigned_value(run_fn, cli_arg.id) if isinstance(cli_arg, ast.Name) else ([cli_arg] if cli_arg is not None else [])
    cli_parsed = bool(vals) and all(isinstance(v, ast.Call) and call_attr(v) == "asdict" and "pipeline_cfg.run_space" in ast.unparse(v) for v in vals)
    R.check(cli_parsed, r_sid, CLI, "_run", "identity_service.compute(asdict(pipeline_cfg.run_space))", "the CLI does not hash asdict(parsed run space)", run_fn.lineno)
    norm_call = next((c for c in calls_in(csid) if call_attr(c) == "_normalize_run_space"), None)
    insp_parsed = norm_call is not None and norm_call.args and isinstance(norm_call.args[0], ast.Call) and call_attr(norm_call.args[0]) == "asdict" and any(call_attr(x) == "_parse_run_space_block" for x in ast.walk(norm_call.args[0]) if isinstance(x, ast.Call))
    R.check(bool(insp_parsed), r_sid, BUILDER, "_compute_run_space_spec_id", "normalises asdict(_parse_run_space_block(block))", "inspection hashes a different representation of the run-space block than the runtime (raw mapping vs parsed configuration with defaults): spec ids never agree", csid.lineno)

    # ------------------------------------------------------------------ D2 launch bracket
    r_br = R.rule("C09-D2-launch-bracket", "after emit_start every exit of _run passes exactly one emit_end, carrying planned_runs = number of planned runs and completed_runs = a counter incremented once per iteration after pipeline.process returned; a non-success exit sets status", 6)

    def fold(test: ast.AST) -> Optional[bool]:
        names = {x.id for x in ast.walk(test) if isinstance(x, ast.Name)}
        if names and names <= {"run_space_emitter", "run_space_launch_id"} and not any(isinstance(x, ast.Call) for x in ast.walk(test)):
            ev = _orch.make_fold(names)(test)
            return ev
        return None

    def may_raise(part: ast.AST) -> Set[str]:
        for n in walk_no_nested(part):
            if isinstance(n, ast.Raise):
                return {EXC}
            if isinstance(n, ast.Call):
                d = call_name(n) or ""
                if d == "print" or d.split(".")[0] in ("logger", "run_space_emitter") or d in ("isinstance", "len", "dict", "repr", "enumerate", "sorted"):
                    continue
                return {EXC, BASE}
        return set()

    g = CFG(run_fn, fold=fold, may_raise=may_raise)
    def has(n, attr) -> bool:
        return n.ast is not None and n.kind == "stmt" and any(call_attr(c) == attr for c in calls_in(n.ast))
    starts = [n for n in g.nodes if has(n, "emit_start")]
    ends = [n for n in g.nodes if has(n, "emit_end")]
    if len(starts) != 1:
        raise AnalysisError(f"_run: expected one emit_start site, found {len(starts)}")
    after = [t for t, lab in g.succ[starts[0].id] if lab == "n"]
    cnt = g.counts(after, lambda n: has(n, "emit_end"), count_start=True)
    for label, ex in (("return", g.ret_exit), ("raise(Exception)", g.exc_exit), ("raise(BaseException)", g.base_exit)):
        got = cnt.get(ex)
        if got is None:
            R.ok(r_br, CLI, "_run", f"emit_end on exit {label}", "exit unreachable after emit_start")
            continue
        path = None
        if got != {1}:
            seen = g.reach(after, blocked={n.id for n in ends})
            path = g.path_to(seen, ex) if ex in seen else None
        R.check(got == {1}, r_br, CLI, "_run", f"emit_end on exit {label}", f"after run_space_start, run_space_end is emitted {sorted(got)} time(s) on paths to {label}", starts[0].line, path)
    # emit_start precedes the first run; exactly once (not inside the loop)
    proc = [n for n in g.nodes if has(n, "process")]
    if len(proc) != 1:
        raise AnalysisError("_run: pipeline.process site not found")
    loop = next((a for a in ancestors(proc[0].ast) if isinstance(a, ast.For)), None)
    if loop is None:
        raise AnalysisError("_run: run loop not found")
    R.check(not any(a is loop for a in ancestors(starts[0].ast)) and proc[0].id in g.reach([starts[0].id]), r_br, CLI, "_run", "emit_start once, before the run loop", "run_space_start is emitted inside / after the run loop", starts[0].line)
    # summary counts
    end_call = next(c for c in calls_in(ends[0].ast) if call_attr(c) == "emit_end") if ends else None
    summ = kwarg(end_call, "summary") if end_call is not None else None
    sdefs = assigned_value(run_fn, summ.id) if isinstance(summ, ast.Name) else ([summ] if summ is not None else [])
    lit = next((v for v in sdefs if isinstance(v, ast.Dict)), None)
    keys = {k.value: v for k, v in zip(lit.keys, lit.values) if isinstance(k, ast.Constant)} if lit is not None else {}
    planned, completed = keys.get("planned_runs"), keys.get("completed_runs")
    pl_defs = assigned_value(run_fn, planned.id) if isinstance(planned, ast.Name) else []
    ok_planned = bool(pl_defs) and all(isinstance(v, ast.Call) and call_attr(v) == "len" and dotted_name(v.args[0]) == dotted_name(loop.iter.args[0] if isinstance(loop.iter, ast.Call) else loop.iter) for v in pl_defs)
    R.check(ok_planned, r_br, CLI, "_run", "summary.planned_runs = len(runs)", "planned_runs is not the length of the list the loop iterates", ends[0].line if ends else 0)
    cname = completed.id if isinstance(completed, ast.Name) else None
    incs = [n for n in g.nodes if n.ast is not None and isinstance(n.ast, ast.AugAssign) and dotted_name(n.ast.target) == cname and isinstance(n.ast.op, ast.Add) and isinstance(n.ast.value, ast.Constant) and n.ast.value.value == 1]
    inits = [v for v in assigned_value(run_fn, cname)] if cname else []
    ok_c = cname is not None and len(incs) == 1 and len(inits) == 1 and isinstance(inits[0], ast.Constant) and inits[0].value == 0
    if ok_c:
        inc = incs[0]
        # once per iteration, after process returned normally: dominated by the normal edge of process, inside the loop,
        # and every normal path from process to the loop head passes it exactly once
        heads = g.nodes_for(loop)
        saved = {h: g.succ[h] for h in heads}
        for h in heads:
            g.succ[h] = []
        try:
            c2 = g.counts([t for t, lab in g.succ[proc[0].id] if lab == "n"], lambda n: n.id == inc.id, count_start=True)
        finally:
            for h, v in saved.items():
                g.succ[h] = v
        per_iter = set().union(*[c2.get(h, set()) for h in heads]) if heads else set()
        before = g.reach([inc.id], blocked=set(heads))
        ok_c = per_iter == {1} and proc[0].id not in before
    R.check(ok_c, r_br, CLI, "_run", f"summary.completed_runs = {cname} (+1 after each successful process)", "completed_runs is not incremented exactly once per iteration after pipeline.process returned: the count is untruthful when a run fails", ends[0].line if ends else 0)
    # status on failure
    fin_src = ast.unparse(stmt_of(ends[0].ast)) if ends else ""
    status_sets = [n for n in walk_no_nested(run_fn) if isinstance(n, ast.Assign) and any(isinstance(t, ast.Subscript) and dotted_name(t.value) == (summ.id if isinstance(summ, ast.Name) else "") and isinstance(t.slice, ast.Constant) and t.slice.value == "status" for t in n.targets)]
    guarded = [s for s in status_sets if any(isinstance(a, ast.If) and "exit_code" in ast.unparse(a.test) for a in ancestors(s))]
    R.check(len(guarded) >= 1, r_br, CLI, "_run", "summary.status set when exit_code != success", "a failed/interrupted launch is not marked in run_space_end", ends[0].line if ends else 0)

    # ------------------------------------------------------------------ D3 freshness and linkage
    r_fr = R.rule("C09-D3-per-run-freshness", "each run starts from a context built inside the loop body from the shared --context mapping plus that run's values (nothing carried between iterations); run metadata carries a copy of the context, the 0-based index and the launch FK; execute forwards them to pipeline_start", 8)
    pay = next((c for c in calls_in(loop) if call_attr(c) == "ContextType" and c.args), None)
    ctx_name = dotted_name(pay.args[0]) if pay is not None else None
    defs_in_loop = [n for n in ast.walk(loop) if isinstance(n, ast.Assign) and any(isinstance(t, ast.Name) and t.id == ctx_name for t in n.targets)]
    all_defs = assigned_value(run_fn, ctx_name) if ctx_name else []
    fresh = bool(defs_in_loop) and len(defs_in_loop) == len(all_defs) and all(
        (isinstance(d.value, ast.Call) and call_attr(d.value) in ("dict", "copy", "deepcopy")) or isinstance(d.value, (ast.Dict, ast.DictComp)) for d in defs_in_loop)
    R.check(fresh, r_fr, CLI, "_run", f"{ctx_name} = dict(...) inside the run loop", "the per-run context mapping is created outside the loop (or aliased): keys written by run i are visible to run i+1", loop.lineno)
    # the shared mapping is never mutated inside the loop
    shared = set()
    for d in defs_in_loop:
        shared |= {x.id for x in ast.walk(d.value) if isinstance(x, ast.Name)} - {"dict"}
    muts = [m for m in mutation_sites(loop, shared)]
    R.check(not muts, r_fr, CLI, "_run", f"shared mapping(s) {sorted(shared)} not mutated in the loop", f"`{norm(muts[0][0])[:60]}` mutates state shared by all runs" if muts else "", loop.lineno)
    # run values applied
    lv = loop.target.elts[1].id if isinstance(loop.target, ast.Tuple) and len(loop.target.elts) == 2 and isinstance(loop.target.elts[1], ast.Name) else None
    idx = loop.target.elts[0].id if isinstance(loop.target, ast.Tuple) and isinstance(loop.target.elts[0], ast.Name) else None
    upd = [c for c in calls_in(loop) if call_attr(c) == "update" and dotted_name(c.func.value) == ctx_name and c.args and dotted_name(c.args[0]) == lv]
    R.check(bool(upd) and isinstance(loop.iter, ast.Call) and call_attr(loop.iter) == "enumerate" and len(loop.iter.args) == 1, r_fr, CLI, "_run", f"{ctx_name}.update({lv}) for {idx}, {lv} in enumerate(runs)", "run i does not receive exactly run i's values (or indices are not 0-based plan order)", loop.lineno)
    # metadata literal
    md = [n.value for n in ast.walk(loop) if isinstance(n, ast.Assign) and isinstance(n.value, ast.Dict) and any(isinstance(k, ast.Constant) and k.value == "run_space_index" for k in n.value.keys)]
    if not md:
        raise AnalysisError("_run: run metadata literal not found")
    mk = {k.value: v for k, v in zip(md[0].keys, md[0].values) if isinstance(k, ast.Constant)}
    R.check(dotted_name(mk.get("run_space_index")) == idx, r_fr, CLI, "_run", "metadata.run_space_index = loop index", "run_space_index is not the 0-based loop index", md[0].lineno)
    rc = mk.get("run_space_context")
    R.check(isinstance(rc, ast.Call) and call_attr(rc) in ("dict", "copy", "deepcopy") and ctx_name in ast.unparse(rc), r_fr, CLI, "_run", "metadata.run_space_context = dict(run_context)", "the context recorded for the run is not a copy of this run's context (later mutation by the pipeline shows up in pipeline_start)", md[0].lineno)
    R.check(dotted_name(mk.get("trace_context")) == "trace_context", r_fr, CLI, "_run", "metadata.trace_context = trace_context", "launch foreign key not attached to the run metadata", md[0].lineno)
    setm = [n for n in g.nodes if has(n, "set_run_metadata")]
    ok = bool(setm) and any(a is loop for a in ancestors(setm[0].ast)) and g.dominated_by_node(proc[0].id, setm[0].id)
    R.check(ok, r_fr, CLI, "_run", "pipeline.set_run_metadata(...) every iteration before process", "run metadata is not staged for every run", loop.lineno)
    # Pipeline: metadata consumed once per run
    pp = repo.func(PIPE, "Pipeline._process")
    src = ast.unparse(pp)
    ok = "run_metadata=" in src and any(isinstance(n, ast.Assign) and any(dotted_name(t) == "self._run_metadata" for t in n.targets) and isinstance(n.value, ast.Constant) and n.value.value is None for n in ast.walk(pp))
    R.check(ok, r_fr, PIPE, "Pipeline._process", "run_metadata passed to execute and cleared afterwards", "staged run metadata survives into the next run of the same Pipeline", pp.lineno)
    sm = repo.func(PIPE, "Pipeline.set_run_metadata")
    ok = any(isinstance(n, ast.Assign) and isinstance(n.value, ast.Call) and call_attr(n.value) == "dict" for n in ast.walk(sm))
    R.check(ok, r_fr, PIPE, "Pipeline.set_run_metadata", "self._run_metadata = dict(metadata or {})", "run metadata stored by reference", sm.lineno)
    # execute forwards the four kwargs
    ex = repo.func(ORCH, _orch.EXECUTE)
    stores = {}
    for n in walk_no_nested(ex):
        if isinstance(n, ast.Assign) and len(n.targets) == 1 and isinstance(n.targets[0], ast.Subscript) and dotted_name(n.targets[0].value) == "run_space_kwargs" and isinstance(n.targets[0].slice, ast.Constant):
            stores[n.targets[0].slice.value] = n
    for k in ("run_space_launch_id", "run_space_attempt", "run_space_index", "run_space_context"):
        n = stores.get(k)
        ok = n is not None and k in ast.unparse(n.value)
        R.check(ok, r_fr, ORCH, _orch.EXECUTE, f"run_space_kwargs[{k!r}]", f"pipeline_start does not receive {k} from the run metadata / launch FK", n.lineno if n is not None else ex.lineno)
    sc = next((c for c in calls_in(ex) if call_attr(c) == "on_pipeline_start"), None)
    R.check(sc is not None and any(k.arg is None and dotted_name(k.value) == "run_space_kwargs" for k in sc.keywords), r_fr, ORCH, _orch.EXECUTE, "on_pipeline_start(..., **run_space_kwargs)", "run-space linkage is not forwarded to pipeline_start", sc.lineno if sc else ex.lineno)
    # per-run leak through the orchestrator: caller-owned canonical spec must not be mutated (shared with C04-D3b)
    from . import c04

    R.rule_prefix = "C09-D3/"
    try:
        c04.no_mutation_of_hashed_input(repo, R)
    finally:
        R.rule_prefix = ""

    # ------------------------------------------------------------------ D4 launch id derivation
    r_l = R.rule("C09-D4-launch-id", "explicit launch id returned unchanged; idempotent id hashes only (inputs_id or spec_id, key) under a fixed prefix; only the generated path uses uuid; inputs id covers spec id and every file digest", 5)
    cl = repo.func(LAUNCH, "RunSpaceLaunchManager.create_launch")
    gl = CFG(cl, may_raise=lambda p: set())
    rets = [n for n in gl.nodes if n.kind == "stmt" and isinstance(n.ast, ast.Return)]
    kinds = []
    for n in rets:
        c = n.ast.value
        idv = kwarg(c, "id") if isinstance(c, ast.Call) else None
        kinds.append((n, idv))
    exp = [n for n, v in kinds if dotted_name(v) == "provided_launch_id"]
    R.check(len(exp) == 1 and gl.dominated_by_edge(exp[0].id, next((m.id for m in gl.nodes if m.kind == "if" and dotted_name(m.part) == "provided_launch_id"), -1), "T"), r_l, LAUNCH, "RunSpaceLaunchManager.create_launch", "return RunSpaceLaunch(id=provided_launch_id)", "an explicit launch id is not returned unchanged", cl.lineno)
    hashes = [c for c in calls_in(cl) if call_name(c) in ("hashlib.sha256",)]
    ok = False
    if len(hashes) == 1 and hashes[0].args:
        names = {x.id for x in ast.walk(hashes[0].args[0]) if isinstance(x, ast.Name)}
        consts = [x.value for x in ast.walk(hashes[0].args[0]) if isinstance(x, ast.Constant) and isinstance(x.value, bytes)]
        basis = assigned_value(cl, "basis")
        ok = names <= {"basis", "idempotency_key"} and "idempotency_key" in names and any(c.startswith(b"semantiva:rsl") for c in consts) and bool(basis) and {x.id for x in ast.walk(basis[0]) if isinstance(x, ast.Name)} == {"run_space_inputs_id", "run_space_spec_id"}
    R.check(ok, r_l, LAUNCH, "RunSpaceLaunchManager.create_launch", "sha256(prefix + (inputs_id or spec_id) + key)", "idempotent launch id depends on something other than (inputs/spec id, key) - e.g. time, attempt or a random value", cl.lineno)
    ambient = [c for c in calls_in(cl) if (call_name(c) or "").split(".")[0] in ("uuid", "time", "random", "os", "datetime")]
    R.check(not ambient, r_l, LAUNCH, "RunSpaceLaunchManager.create_launch", "no ambient source in create_launch itself", f"ambient value `{norm(ambient[0])}` used where an idempotent id may be derived" if ambient else "", cl.lineno)
    gen = [n for n, v in kinds if isinstance(v, ast.Name) and v.id not in ("provided_launch_id",) and any("uuid" in ast.unparse(d) for d in assigned_value(cl, v.id))]
    R.check(len(gen) == 1, r_l, LAUNCH, "RunSpaceLaunchManager.create_launch", "generated id only on the fall-through path", "uuid-based id is not confined to the path without explicit id / idempotency key", cl.lineno)
    rsm = repo.func(IDENT, "RunSpaceIdentityService._rsm_v1_bytes")
    src = ast.unparse(rsm)
    ok = "fp.digest_sha256" in src and "spec_id" in src and ".sort(" in src and "fp.uri" in src
    R.check(ok, r_l, IDENT, "RunSpaceIdentityService._rsm_v1_bytes", "payload = {spec_id, sorted [(role, uri, sha256, size)]}", "inputs id does not cover the spec id and every referenced file's content digest (order-independently)", rsm.lineno)
    sf = repo.func(IDENT, "RunSpaceIdentityService._sha256_file")
    ok = any(call_attr(c) == "update" for c in calls_in(sf)) and "rb" in ast.unparse(sf) and not any(isinstance(n, ast.Break) for n in ast.walk(sf))
    R.check(ok, r_l, IDENT, "RunSpaceIdentityService._sha256_file", "digest of the whole file content", "file digest does not read the complete content", sf.lineno)
