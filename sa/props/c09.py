"""C09 - a run-space launch equals its independent runs and is linked by stable ids.

D1 one spec id for inspect and trace (sibling normalisers + argument provenance),
D2 launch bracket with truthful counts (must-pass-through / counting on cli._run) and per-emitter suppression state,
D3 per-run freshness and linkage,
D4 launch-id derivation, attempt forwarding and inputs id.

Constructs are found by their role (what they call / read / are passed to) on the normal form of the
functions (sa/normal.py), never by the spelling of a local variable; parameters, attributes, method names and
mapping keys are interface names and are used as anchors.
"""
from __future__ import annotations

import ast
import re
from typing import Callable, Dict, Iterable, List, Optional, Set, Tuple

from ..cfg import BASE, CFG, EXC, edges_guaranteeing, reaching_defs
from ..engine import (
    AnalysisError,
    FuncNode,
    Repo,
    ancestors,
    call_attr,
    call_name,
    calls_in,
    dotted_name,
    kwarg,
    mutation_sites,
    norm,
    parent as _parent,
    qualname_of,
    stmt_of,
    walk_no_nested,
)
from ..normal import clone, nfunc, normalize
from ..report import Report
from . import _orch

CLI = "semantiva/cli/__init__.py"
IDENT = "semantiva/trace/runtime/run_space_identity.py"
LAUNCH = "semantiva/trace/runtime/run_space_launch.py"
EMITTER = "semantiva/trace/runtime/run_space_emitter.py"
TCTX = "semantiva/trace/runtime/context.py"
BUILDER = "semantiva/inspection/builder.py"
ORCH = _orch.ORCH
PIPE = "semantiva/pipeline/pipeline.py"

COPY_CALLS = {"dict", "copy", "deepcopy"}
FRESH_CTORS = {"set", "dict", "list", "OrderedDict", "defaultdict", "deque", "WeakSet", "WeakValueDictionary"}


def alpha_normal_form(fn: ast.FunctionDef, type_aliases: Dict[str, str]) -> str:
    """Position-free dump of *fn*'s body with its own name and parameters renamed canonically."""
    fn = ast.parse(ast.unparse(fn)).body[0]  # detached copy (no parent links)
    ren = {fn.name: "F"}
    for i, a in enumerate(fn.args.args):
        ren[a.arg] = f"p{i}"

    class T(ast.NodeTransformer):
        def visit_Name(self, n):
            n.id = ren.get(n.id, type_aliases.get(n.id, n.id))
            return n

        def visit_arg(self, n):
            n.arg = ren.get(n.arg, n.arg)
            n.annotation = None
            return n

    T().visit(fn)
    body = [st for st in fn.body if not (isinstance(st, ast.Expr) and isinstance(st.value, ast.Constant))]
    return "\n".join(ast.dump(st, include_attributes=False) for st in body)


def returned_value_form(fn: ast.AST, type_aliases: Dict[str, str]) -> Optional[str]:
    """Position-free dump of the one expression a side-effect-free function returns, or None when *fn* is not of
    that shape.  Early-return chains / if-else / conditional expressions become one nested conditional expression,
    negated tests are un-negated (branches swapped), locals assigned once and read once are substituted, the
    function's own name, its parameters and comprehension variables are renamed canonically.  Two functions with
    the same form compute the same value for every argument (spelling differences only)."""
    fn = ast.parse(ast.unparse(fn)).body[0]  # detached copy
    stores: Dict[str, int] = {}
    loads: Dict[str, int] = {}
    for n in ast.walk(fn):
        if isinstance(n, ast.Name):
            d = stores if isinstance(n.ctx, ast.Store) else loads
            d[n.id] = d.get(n.id, 0) + 1

    def subst(e: ast.AST, name: str, v: ast.AST) -> ast.AST:
        class S(ast.NodeTransformer):
            def visit_Name(self, n):
                return v if isinstance(n.ctx, ast.Load) and n.id == name else n
        return S().visit(e)

    def value(stmts: List[ast.stmt]) -> Optional[ast.AST]:
        if not stmts:
            return ast.Constant(value=None)
        st, rest = stmts[0], list(stmts[1:])
        if isinstance(st, ast.Expr) and isinstance(st.value, ast.Constant):
            return value(rest)
        if isinstance(st, ast.Return):
            return st.value if st.value is not None else ast.Constant(value=None)
        if isinstance(st, ast.If):
            t, e = value(list(st.body) + rest), value(list(st.orelse) + rest)
            return ast.IfExp(test=st.test, body=t, orelse=e) if t is not None and e is not None else None
        if isinstance(st, (ast.Assign, ast.AnnAssign)) and st.value is not None:
            tg = st.targets if isinstance(st, ast.Assign) else [st.target]
            if len(tg) == 1 and isinstance(tg[0], ast.Name) and stores.get(tg[0].id) == 1 and loads.get(tg[0].id) == 1:
                r = value(rest)
                return subst(r, tg[0].id, st.value) if r is not None else None
        return None

    e = value(list(fn.body))
    if e is None:
        return None

    class Unnegate(ast.NodeTransformer):
        def visit_IfExp(self, n):
            self.generic_visit(n)
            while isinstance(n.test, ast.UnaryOp) and isinstance(n.test.op, ast.Not):
                n = ast.IfExp(test=n.test.operand, body=n.orelse, orelse=n.body)
            return n
    e = Unnegate().visit(e)
    ren = {fn.name: "F"}
    for i, a in enumerate(fn.args.args):
        ren[a.arg] = f"p{i}"
    local = {n.id for n in ast.walk(e) if isinstance(n, ast.Name) and isinstance(n.ctx, ast.Store)} | set(ren)
    for n in ast.walk(e):
        if isinstance(n, ast.Name) and n.id not in local:
            n.id = type_aliases.get(n.id, n.id)
    # arms of mutually exclusive tests in one order - before the comprehension variables are numbered, which goes by position
    e = _ExclusiveArms(local).visit(e)
    for n in ast.walk(e):
        if isinstance(n, ast.Name) and isinstance(n.ctx, ast.Store) and n.id not in ren:
            ren[n.id] = f"v{len(ren)}"
    for n in ast.walk(e):
        if isinstance(n, ast.Name):
            n.id = ren.get(n.id, n.id)
    return ast.dump(e, include_attributes=False)


# builtin classes no object can be an instance of two of (their instance layouts conflict, so no class derives from two
# of them; bool is left out because it derives from int)
_UNRELATED_BUILTINS = {"dict", "list", "str", "tuple", "set", "frozenset", "bytes", "bytearray", "int", "float", "complex"}


class _ExclusiveArms(ast.NodeTransformer):
    """`a if t1 else b if t2 else c if t3 else d` with t1..tn = isinstance(<the same plain name>, <builtin classes>) over
    pairwise unrelated builtins: at most one test holds and the tests have no effect, so the order of the arms is
    immaterial - the arms are put into the order of their class names."""

    def __init__(self, bound: Set[str]):
        self.bound = bound  # canonical names of parameters / locals: a class name among them is not the builtin

    def _classes(self, t: ast.AST) -> Optional[Tuple[str, Tuple[str, ...]]]:
        if not (isinstance(t, ast.Call) and isinstance(t.func, ast.Name) and t.func.id == "isinstance" and len(t.args) == 2 and not t.keywords and isinstance(t.args[0], ast.Name)):
            return None
        ts = t.args[1].elts if isinstance(t.args[1], ast.Tuple) else [t.args[1]]
        if not ts or not all(isinstance(x, ast.Name) and x.id in _UNRELATED_BUILTINS and x.id not in self.bound for x in ts):
            return None
        return t.args[0].id, tuple(sorted(x.id for x in ts))

    def visit_IfExp(self, n: ast.IfExp):
        arms: List[Tuple[Tuple[str, ...], ast.AST, ast.AST]] = []
        subject: Optional[str] = None
        x: ast.AST = n
        while isinstance(x, ast.IfExp):
            c = self._classes(x.test)
            if c is None or (subject is not None and c[0] != subject):
                break
            subject = c[0]
            arms.append((c[1], x.test, x.body))
            x = x.orelse
        used = [k for a in arms for k in a[0]]
        if len(arms) < 2 or len(used) != len(set(used)):
            return self.generic_visit(n)
        out: ast.AST = self.visit(x)
        for _k, test, body in sorted(arms, key=lambda a: a[0], reverse=True):
            out = ast.IfExp(test=test, body=self.visit(body), orelse=out)
        return out


# ---------------------------------------------------------------------------------------------------------
# small provenance helpers (role discovery through plain assignments)
# ---------------------------------------------------------------------------------------------------------

def _same(a: Optional[ast.AST], b: Optional[ast.AST]) -> bool:
    return a is not None and b is not None and ast.dump(a, include_attributes=False) == ast.dump(b, include_attributes=False)


def _is_none(e: ast.AST) -> bool:
    return isinstance(e, ast.Constant) and e.value is None


def _value_for(st: ast.AST, target: str) -> List[ast.AST]:
    """What the assignment statement *st* binds to *target* (a local or dotted ``self.attr``); parallel
    assignments ``a, b = x, y`` are paired element-wise."""
    out: List[ast.AST] = []
    if isinstance(st, ast.Assign):
        for t in st.targets:
            if isinstance(t, (ast.Name, ast.Attribute)) and dotted_name(t) == target:
                out.append(st.value)
            elif isinstance(t, (ast.Tuple, ast.List)) and isinstance(st.value, (ast.Tuple, ast.List)) and len(t.elts) == len(st.value.elts):
                for a, b in zip(t.elts, st.value.elts):
                    if isinstance(a, (ast.Name, ast.Attribute)) and dotted_name(a) == target:
                        out.append(b)
    elif isinstance(st, ast.AnnAssign) and st.value is not None and isinstance(st.target, (ast.Name, ast.Attribute)) and dotted_name(st.target) == target:
        out.append(st.value)
    return out


def _assigned(fn: ast.AST, target: str) -> List[ast.AST]:
    """Right-hand sides of ``target = <expr>`` in *fn*; *target* is a local name or a dotted ``self.attr``."""
    out: List[ast.AST] = []
    for n in walk_no_nested(fn):
        if isinstance(n, (ast.Assign, ast.AnnAssign)):
            out.extend(_value_for(n, target))
    return out


def _slice_exprs(fn: ast.AST, e: Optional[ast.AST]) -> List[ast.AST]:
    """*e* and every right-hand side its locals are (transitively) built from."""
    out: List[ast.AST] = []
    seen: Set[str] = set()
    todo: List[ast.AST] = [e] if e is not None else []
    while todo:
        x = todo.pop()
        out.append(x)
        for n in ast.walk(x):
            if isinstance(n, ast.Name) and n.id not in seen:
                seen.add(n.id)
                todo.extend(_assigned(fn, n.id))
    return out


def _origins(fn: ast.AST, e: Optional[ast.AST], keep_none: bool = False) -> List[ast.AST]:
    """Non-name expressions *e* may evaluate to: locals / ``self.attr`` are followed through plain assignments,
    conditional expressions and ``cast(T, x)`` are split/unwrapped; unassigned names (parameters, globals) stay."""
    out: List[ast.AST] = []
    seen: Set[str] = set()

    def rec(x: Optional[ast.AST]) -> None:
        if x is None:
            return
        if isinstance(x, ast.IfExp):
            rec(x.body)
            rec(x.orelse)
            return
        if isinstance(x, ast.Call) and call_attr(x) == "cast" and len(x.args) == 2:
            rec(x.args[1])
            return
        if isinstance(x, (ast.Name, ast.Attribute)):
            d = dotted_name(x)
            vals = _assigned(fn, d) if d else []
            if vals:
                if d not in seen:
                    seen.add(d)
                    for v in vals:
                        rec(v)
                return
        if _is_none(x) and not keep_none:
            return
        out.append(x)

    rec(e)
    return out


def _slice_names(fn: ast.AST, e: Optional[ast.AST]) -> Set[str]:
    """Dotted names occurring in the backward slice of *e* through plain assignments of *fn*."""
    names: Set[str] = set()
    todo: List[ast.AST] = [e] if e is not None else []
    while todo:
        x = todo.pop()
        for n in ast.walk(x):
            if isinstance(n, (ast.Name, ast.Attribute)):
                d = dotted_name(n)
                if d and d not in names:
                    names.add(d)
                    todo.extend(_assigned(fn, d))
    return names


def _keyed(e: ast.AST) -> Optional[Tuple[ast.AST, object]]:
    """(mapping, key) for ``m[<const>]`` / ``m.get(<const>, ...)``."""
    if isinstance(e, ast.Subscript) and isinstance(e.slice, ast.Constant):
        return e.value, e.slice.value
    if isinstance(e, ast.Call) and call_attr(e) == "get" and e.args and isinstance(e.args[0], ast.Constant) and isinstance(e.func, ast.Attribute):
        return e.func.value, e.args[0].value
    return None


def _copied_operand(e: ast.AST) -> Optional[ast.AST]:
    """x for ``dict(x)`` / ``x.copy()`` / ``copy.copy(x)`` / ``copy.deepcopy(x)`` / ``{**x}``."""
    if isinstance(e, ast.Call):
        a = call_attr(e)
        if a in ("dict", "deepcopy") and len(e.args) == 1 and not e.keywords:
            return e.args[0]
        if a == "copy":
            if e.args and len(e.args) == 1:
                return e.args[0]
            if not e.args and isinstance(e.func, ast.Attribute):
                return e.func.value
    if isinstance(e, ast.Dict) and len(e.keys) == 1 and e.keys[0] is None:
        return e.values[0]
    return None


def _ctor_of(fn: ast.AST, e: Optional[ast.AST], cls: str) -> bool:
    vals = _origins(fn, e)
    return bool(vals) and all(isinstance(v, ast.Call) and (call_name(v) or "").split(".")[-1] == cls for v in vals)


def _loop_plan(fn: ast.AST, loop: ast.For) -> Optional[Tuple[ast.AST, str, str]]:
    """(sequence, index local, item local) when *loop* visits every element of a sequence once, in order, with its
    0-based position: ``for i, v in enumerate(seq)`` or ``for i in range(len(seq)): v = seq[i]``."""
    it = loop.iter
    if not isinstance(it, ast.Call):
        return None
    tg = loop.target
    pair = isinstance(tg, ast.Tuple) and len(tg.elts) == 2 and all(isinstance(x, ast.Name) for x in tg.elts)

    def zero(e: ast.AST) -> bool:
        return isinstance(e, ast.Constant) and type(e.value) is int and e.value == 0

    def len_of(e: ast.AST) -> Optional[ast.AST]:  # seq when e is (a local holding) len(seq)
        lens = _origins(fn, e, keep_none=True)
        if lens and all(isinstance(v, ast.Call) and call_name(v) == "len" and len(v.args) == 1 and not v.keywords for v in lens) and all(_same(v.args[0], lens[0].args[0]) for v in lens):
            return lens[0].args[0]
        return None
    if call_name(it) == "enumerate":  # enumerate(seq) / enumerate(seq, 0) / enumerate(seq, start=0)
        start = it.args[1] if len(it.args) == 2 else kwarg(it, "start")
        if pair and 1 <= len(it.args) <= 2 and all(k.arg == "start" for k in it.keywords) and (start is None or zero(start)):
            return it.args[0], tg.elts[0].id, tg.elts[1].id
        return None
    if call_name(it) == "zip" and len(it.args) == 2 and not it.keywords:
        # zip(range(len(seq)), seq) / zip(itertools.count(), seq): position and element side by side
        pos, seq = it.args
        counts = isinstance(pos, ast.Call) and (
            (call_name(pos) == "range" and not pos.keywords and ((len(pos.args) == 1 and _same(len_of(pos.args[0]), seq)) or (len(pos.args) == 2 and zero(pos.args[0]) and _same(len_of(pos.args[1]), seq))))
            or (call_name(pos) in ("itertools.count", "count") and not pos.keywords and (not pos.args or (len(pos.args) == 1 and zero(pos.args[0])))))
        if pair and counts:
            return seq, tg.elts[0].id, tg.elts[1].id
        return None
    if not (len(it.args) == 1 and not it.keywords):
        return None
    if call_name(it) == "range" and isinstance(loop.target, ast.Name):
        i = loop.target.id
        lens = _origins(fn, it.args[0], keep_none=True)
        if not lens or not all(isinstance(v, ast.Call) and call_name(v) == "len" and len(v.args) == 1 and not v.keywords for v in lens):
            return None
        seq = lens[0].args[0]
        if not all(_same(v.args[0], seq) for v in lens):
            return None
        items = [(t.id, n) for n in ast.walk(loop) if isinstance(n, ast.Assign) and len(n.targets) == 1 and isinstance(n.targets[0], ast.Name)
                 for t in [n.targets[0]] if isinstance(n.value, ast.Subscript) and _same(n.value.value, seq) and isinstance(n.value.slice, ast.Name) and n.value.slice.id == i]
        rebinds_i = any(isinstance(x, ast.Name) and x.id == i and isinstance(x.ctx, ast.Store) for st in loop.body for x in ast.walk(st))
        if len(items) == 1 and not rebinds_i and len(_assigned(fn, items[0][0])) == 1 and items[0][1] in loop.body:
            return seq, i, items[0][0]
    return None


def _params(fn: ast.AST) -> List[str]:
    a = fn.args
    return [x.arg for x in a.posonlyargs + a.args + a.kwonlyargs]


class _Case:
    """One value an expression may have, with the facts known when it has it (see _value_cases)."""

    __slots__ = ("value", "conds", "sites", "hops")

    def __init__(self, value, conds, sites, hops):
        self.value, self.conds, self.sites, self.hops = value, conds, sites, hops


def _value_cases(g: CFG, fn: ast.AST, e: Optional[ast.AST], at: int, params: Set[str], base: Optional[_Case] = None) -> List[_Case]:
    """Path-sensitive provenance: the expressions *e* (evaluated at CFG node *at*) may evaluate to, each with
    the facts known on the way - ``conds`` = ((test, truth), ...) from conditional expressions / ``or`` / ``and``
    that selected the value, ``sites`` = CFG nodes executed to produce it (the use and every reaching definition
    followed), ``hops`` = (definition node, use node, local) for every local the value travelled in.  Locals are
    followed through their *reaching* definitions, so a value assigned in one branch of an if/elif/else and
    returned by a single statement after it keeps the branch it was assigned in."""
    out: List[_Case] = []
    busy: Set[Tuple[str, int]] = set()

    def rec(x: Optional[ast.AST], at: int, conds: Tuple, sites: Tuple, hops: Tuple) -> None:
        if x is None:
            out.append(_Case(None, conds, sites, hops))
            return
        if isinstance(x, ast.IfExp):
            rec(x.body, at, conds + ((x.test, True),), sites, hops)
            rec(x.orelse, at, conds + ((x.test, False),), sites, hops)
            return
        if isinstance(x, ast.BoolOp) and isinstance(x.op, (ast.Or, ast.And)):
            # `a or b` is a when a is truthy, else b; `a and b` is a when a is falsy, else b
            stop = isinstance(x.op, ast.Or)
            passed: Tuple = ()
            for v in x.values[:-1]:
                rec(v, at, conds + passed + ((v, stop),), sites, hops)
                passed += ((v, not stop),)
            rec(x.values[-1], at, conds + passed, sites, hops)
            return
        if isinstance(x, ast.Call) and call_attr(x) == "cast" and len(x.args) == 2:
            rec(x.args[1], at, conds, sites, hops)
            return
        if isinstance(x, ast.Name) and x.id not in params:
            defs = reaching_defs(g, x.id, at)
            if defs and (x.id, at) not in busy:
                busy.add((x.id, at))
                for d in defs:
                    vals = _value_for(d.ast, x.id) if d.kind == "stmt" else []
                    if not vals:
                        out.append(_Case(x, conds, sites + (d.id,), hops))  # loop target / augmented / unpacked: opaque
                    for v in vals:
                        rec(v, d.id, conds, sites + (d.id,), hops + ((d.id, at, x.id),))
                busy.discard((x.id, at))
                return
        out.append(_Case(x, conds, sites, hops))

    if base is None:
        rec(e, at, (), (at,), ())
    else:
        rec(e, at, base.conds, base.sites, base.hops)
    return out


# ---------------------------------------------------------------------------------------------------------
# object flow: which function a call runs on an object (receiver or argument), what it stores into the object's
# attributes and which attribute it reports under which mapping key - whatever the function is (method, module-level
# function taking the object, a wrapper delegating to either)
# ---------------------------------------------------------------------------------------------------------

def _bind_args(fn: ast.AST, call: ast.Call, skip_first: bool) -> Optional[Dict[str, ast.AST]]:
    """parameter name -> argument expression (defaults filled in); None when the call cannot be bound statically."""
    if any(isinstance(a, ast.Starred) for a in call.args) or any(k.arg is None for k in call.keywords):
        return None
    a = fn.args
    if a.vararg or a.kwarg:
        return None
    allpos = list(a.posonlyargs + a.args)
    pos = allpos[1:] if skip_first else allpos
    if skip_first and not allpos:
        return None
    if len(call.args) > len(pos):
        return None
    out: Dict[str, ast.AST] = {p.arg: v for p, v in zip(pos, call.args)}
    names = {p.arg for p in pos} | {p.arg for p in a.kwonlyargs}
    for k in call.keywords:
        if k.arg not in names or k.arg in out:
            return None
        out[k.arg] = k.value
    defaults = dict(zip([p.arg for p in allpos][len(allpos) - len(a.defaults):], a.defaults))
    for p, d in zip(a.kwonlyargs, a.kw_defaults):
        if d is not None:
            defaults[p.arg] = d
    for p in pos + list(a.kwonlyargs):
        if p.arg not in out:
            if p.arg not in defaults:
                return None
            out[p.arg] = defaults[p.arg]
    return out


def _is_method(fn: ast.AST) -> bool:
    return isinstance(_parent(getattr(fn, "_normal_of", fn)), ast.ClassDef) and not any(dotted_name(d) in ("staticmethod", "classmethod") for d in fn.decorator_list)


def _arg_at(repo: Repo, mod, call: ast.Call, index: int) -> Optional[ast.AST]:
    """The argument *call* binds to the *index*-th parameter (receiver / new instance not counted) of the package
    function it invokes - whether it is passed by position or by keyword.  The callee is resolved (by name across the
    package when the receiver's class is not known statically) and has to agree on the parameter's name."""
    if any(isinstance(a, ast.Starred) for a in call.args) or any(k.arg is None for k in call.keywords):
        return None
    if len(call.args) > index:
        return call.args[index]
    if not call.keywords:
        return None
    try:
        targets = [f for _m, f in repo.resolve_call(mod, call) if isinstance(f, FuncNode)]
    except Exception:
        targets = []
    if not targets and isinstance(call.func, ast.Attribute):
        targets = [f for _m, f in repo.resolve_call_by_name(call) if isinstance(f, FuncNode)]
    names: Set[Optional[str]] = set()
    for f in targets:
        pos = list(f.args.posonlyargs + f.args.args)
        in_class = isinstance(_parent(getattr(f, "_normal_of", f)), ast.ClassDef)
        if in_class and not any(dotted_name(d) == "staticmethod" for d in f.decorator_list):
            pos = pos[1:]
        names.add(pos[index].arg if index < len(pos) and pos[index] not in f.args.posonlyargs else None)
    if len(names) != 1 or None in names:
        return None
    return kwarg(call, next(iter(names)))


def _callee_on(repo: Repo, mod, call: ast.Call, is_obj: Callable[[ast.AST], bool], cls) -> Optional[Tuple[object, ast.AST, str, Dict[str, ast.AST]]]:
    """The repo function *call* runs on the object recognised by *is_obj* - as the receiver of a method of *cls*
    (module, ClassDef) or as an argument of a resolvable function: (module, def, parameter holding the object,
    parameter -> argument of the call)."""
    f = call.func
    if isinstance(f, ast.Attribute) and is_obj(f.value):
        if cls is None:
            return None
        r = repo.method(cls[0], cls[1], f.attr)
        if r is None or not isinstance(r[1], FuncNode) or not _is_method(r[1]):
            return None
        b = _bind_args(r[1], call, skip_first=True)
        pos = r[1].args.posonlyargs + r[1].args.args
        return (r[0], r[1], pos[0].arg, b) if b is not None and pos else None
    if not any(is_obj(x) for x in list(call.args) + [k.value for k in call.keywords]):
        return None
    try:
        targets = repo.resolve_call(mod, call)
    except Exception:
        targets = []
    if len(targets) != 1 or not isinstance(targets[0][1], FuncNode):
        return None
    m, fn = targets[0]
    # `self.meth(obj)` / `Klass(obj)`: the first parameter is bound to the receiver / the new instance
    called = f.attr if isinstance(f, ast.Attribute) else f.id if isinstance(f, ast.Name) else None
    in_class = isinstance(_parent(fn), ast.ClassDef) and not any(dotted_name(d) == "staticmethod" for d in fn.decorator_list)
    bound = in_class and ((fn.name == "__init__" and called != "__init__") or (isinstance(f, ast.Attribute) and isinstance(f.value, ast.Name) and f.value.id in ("self", "cls")))
    b = _bind_args(fn, call, skip_first=bound)
    if b is None:
        return None
    holders = [p for p, v in b.items() if is_obj(v)]
    return (m, fn, holders[0], b) if len(holders) == 1 else None


def _translate(v: ast.AST, binding: Dict[str, ast.AST], tag: str) -> ast.AST:
    """*v* (an expression of a callee) in the caller's terms: parameters replaced by the arguments of the call;
    any other local of the callee is renamed so that it cannot be mistaken for a local of the caller."""
    class T(ast.NodeTransformer):
        def visit_Name(self, n):
            if n.id in binding:
                return clone(binding[n.id])
            return ast.copy_location(ast.Name(id=f"{n.id}@{tag}", ctx=n.ctx), n)
    return T().visit(clone(v))


def _flat_store_targets(st: ast.AST) -> List[ast.AST]:
    tg = list(st.targets) if isinstance(st, ast.Assign) else [st.target] if isinstance(st, (ast.AnnAssign, ast.AugAssign)) else []
    out: List[ast.AST] = []
    while tg:
        t = tg.pop()
        if isinstance(t, (ast.Tuple, ast.List)):
            tg.extend(t.elts)
        else:
            out.append(t)
    return out


def _object_stores(repo: Repo, mod, fn: ast.AST, objp: str, cls, depth: int = 3) -> Dict[str, List[ast.AST]]:
    """attribute -> every value *fn* stores into ``<objp>.attribute`` (in terms of *fn*'s parameters), on the
    normal form of *fn* (private helpers inlined); calls that hand the object on to another repo function (a public
    helper, another method) are followed.  A store that is not a plain binding is reported as the statement itself."""
    nf = normalize(repo, mod, fn, copyprop="all")
    out: Dict[str, List[ast.AST]] = {}
    is_obj = lambda x: isinstance(x, ast.Name) and x.id == objp
    for n in walk_no_nested(nf):
        if isinstance(n, (ast.Assign, ast.AnnAssign, ast.AugAssign)) and getattr(n, "value", None) is not None:
            for t in _flat_store_targets(n):
                if isinstance(t, ast.Attribute) and is_obj(t.value):
                    vals = _value_for(n, f"{objp}.{t.attr}") if not isinstance(n, ast.AugAssign) else []
                    out.setdefault(t.attr, []).extend([o for v in vals for o in _origins(nf, v, keep_none=True)] or [n])
        elif isinstance(n, ast.Call) and depth > 0:
            if call_name(n) == "setattr" and len(n.args) == 3 and is_obj(n.args[0]) and isinstance(n.args[1], ast.Constant):
                out.setdefault(n.args[1].value, []).extend(_origins(nf, n.args[2], keep_none=True))
                continue
            hit = _callee_on(repo, mod, n, is_obj, cls)
            if hit is not None and hit[1] is not fn:
                for attr, vals in _object_stores(repo, hit[0], hit[1], hit[2], cls, depth - 1).items():
                    out.setdefault(attr, []).extend(o for v in vals for o in _origins(nf, _translate(v, hit[3], hit[1].name), keep_none=True))
    return out


def _mapping_items(fn: ast.AST, e: Optional[ast.AST]) -> Optional[Dict[object, List[ast.AST]]]:
    """constant key -> value expressions of the mapping *e* evaluates to in *fn*: dict literals (with ``**`` spreads
    of literals), ``dict(k=v)``, conditional expressions, locals with their ``m[key] = v`` / ``m.update(...)`` stores.
    None when some part of it is not understood."""
    out: Dict[object, List[ast.AST]] = {}
    seen: Set[str] = set()

    def rec(x: ast.AST) -> bool:
        if isinstance(x, ast.IfExp):
            return rec(x.body) and rec(x.orelse)
        if isinstance(x, ast.Dict):
            for k, v in zip(x.keys, x.values):
                if k is None:
                    if not rec(v):
                        return False
                elif isinstance(k, ast.Constant):
                    out.setdefault(k.value, []).append(v)
                else:
                    return False
            return True
        if isinstance(x, ast.Call) and call_name(x) in ("dict", "OrderedDict", "collections.OrderedDict"):
            if len(x.args) > 1 or (x.args and not rec(x.args[0])):
                return False
            for k in x.keywords:
                if k.arg is None:
                    if not rec(k.value):
                        return False
                else:
                    out.setdefault(k.arg, []).append(k.value)
            return True
        if isinstance(x, ast.Name):
            vals = _assigned(fn, x.id)
            if not vals:
                return False
            if x.id in seen:
                return True
            seen.add(x.id)
            if not all(rec(v) for v in vals):
                return False
            for n in walk_no_nested(fn):
                if isinstance(n, (ast.Assign, ast.AnnAssign)) and n.value is not None:
                    for t in _flat_store_targets(n):
                        if isinstance(t, ast.Subscript) and isinstance(t.value, ast.Name) and t.value.id == x.id:
                            if not isinstance(t.slice, ast.Constant) or isinstance(n, ast.Assign) and (len(n.targets) != 1 or n.targets[0] is not t):
                                return False
                            out.setdefault(t.slice.value, []).append(n.value)
                elif isinstance(n, ast.Call) and isinstance(n.func, ast.Attribute) and isinstance(n.func.value, ast.Name) and n.func.value.id == x.id and n.func.attr in ("update", "setdefault", "pop", "clear", "popitem", "__setitem__"):
                    if n.func.attr != "update" or len(n.args) > 1 or (n.args and not rec(n.args[0])):
                        return False
                    for k in n.keywords:
                        if k.arg is None:
                            return False
                        out.setdefault(k.arg, []).append(k.value)
            return True
        return False

    return out if e is not None and rec(e) else None


def _object_reports(repo: Repo, mod, fn: ast.AST, objp: str, cls, depth: int = 3) -> Optional[Dict[object, List[ast.AST]]]:
    """mapping key -> value expressions (in terms of *fn*'s parameters) of the mapping *fn* returns, on its normal
    form; a function that returns what another repo function computes from the object is followed.  None when a
    return is not understood."""
    nf = normalize(repo, mod, fn, copyprop="all", loops=True)
    out: Dict[object, List[ast.AST]] = {}
    rets = [n for n in walk_no_nested(nf) if isinstance(n, ast.Return)]
    if not rets:
        return None
    is_obj = lambda x: isinstance(x, ast.Name) and x.id == objp
    for r in rets:
        if r.value is None:
            return None
        for o in _origins(nf, r.value, keep_none=True) if not (isinstance(r.value, ast.Name) and _mapping_items(nf, r.value) is not None) else [r.value]:
            items = _mapping_items(nf, o)
            if items is None and isinstance(o, ast.Call) and depth > 0:
                hit = _callee_on(repo, mod, o, is_obj, cls)
                sub = _object_reports(repo, hit[0], hit[1], hit[2], cls, depth - 1) if hit is not None and hit[1] is not fn else None
                items = {k: [_translate(v, hit[3], hit[1].name) for v in vs] for k, vs in sub.items()} if sub is not None else None
            if items is None:
                return None
            for k, vs in items.items():
                out.setdefault(k, []).extend(x for v in vs for x in _origins(nf, v, keep_none=True))
    return out


def _reachable_in_module(repo: Repo, rel: str, entry: str) -> List[ast.AST]:
    """Definitions of module *rel* (methods, module-level functions, closures) reachable through calls from its public
    entry point *entry* - where the code of the entry point may have been moved to."""
    mod = repo.module(rel)
    seen = repo.call_graph_closure([(mod, repo.func(rel, entry))], stop=lambda m, n: m is not mod)
    return [n for m, n, _p in seen.values() if m is mod]


def _by_role(fns: Iterable[ast.AST], pred: Callable[[ast.AST], bool], what: str) -> ast.AST:
    hits = [f for f in fns if pred(f)]
    if len(hits) != 1:
        raise AnalysisError(f"{what}: expected one function in that role, found {[qualname_of(h) for h in hits]}")
    return hits[0]


def _dumps_calls(fn: ast.AST) -> List[ast.Call]:
    return [c for c in calls_in(fn) if call_name(c) == "json.dumps" and c.args]


# ---------------------------------------------------------------------------------------------------------

def run(repo: Repo, R: Report) -> None:
    R.assume(
        "yaml.safe_load and dataclasses.asdict are deterministic; sha256 is collision-free for practical purposes",
        "trace driver / emitter calls do not raise",
        "RunSpaceLaunch.id is never None (every return of create_launch is classified by C09-D4: truthy explicit id, hex digest or generated hex)",
    )
    R.undecided("run i produces the same result and trace content as a standalone run given run i's context (needs execution); only the structural no-leak conditions are decided")

    run_nf = nfunc(repo, CLI, "_run")
    spec_id_rules(repo, R, run_nf)
    g, loop, proc, launch_names = launch_bracket_rules(repo, R, run_nf)
    emitter_state_rules(repo, R)
    handover_rules(repo, R)
    lifecycle_file_rules(repo, R)
    freshness_rules(repo, R, run_nf, g, loop, proc, launch_names)
    launch_id_rules(repo, R)


# ------------------------------------------------------------------------------------------------ D1 spec id

def spec_id_rules(repo: Repo, R: Report, run_nf: ast.AST) -> None:
    r_sid = R.rule("C09-D1-one-spec-id", "inspection and runtime normalise the run-space block identically (same normal form, same json.dumps options, same prefix) and hash the same representation (asdict of the parsed block, the one that is expanded into the plan)", 5)
    ident_mod, builder_mod = repo.module(IDENT), repo.module(BUILDER)
    # runtime: of the functions RunSpaceIdentityService.compute reaches, the one that serialises its (normalised)
    # argument - not the one that serialises the {spec_id, inputs} payload of the inputs id
    ident_fns = _reachable_in_module(repo, IDENT, "RunSpaceIdentityService.compute")

    def dumps_spec_payload(fn: ast.AST) -> bool:
        return any(isinstance(o, ast.Dict) and any(isinstance(k, ast.Constant) and k.value == "spec_id" for k in o.keys) for c in _dumps_calls(fn) for o in _origins(fn, c.args[0]))
    rscf = _by_role(ident_fns, lambda f: bool(_dumps_calls(f)) and not dumps_spec_payload(f), "run_space_identity: serialiser of the run-space block (RSCF)")
    rscf_nf = normalize(repo, ident_mod, rscf)

    def normaliser_of(mod, nf: ast.AST, what: str) -> Tuple[Optional[ast.Call], Optional[ast.AST]]:
        """(call, def) of the function applied to the value that *nf* hands to json.dumps."""
        hits = []
        for c in _dumps_calls(nf):
            for o in _origins(nf, c.args[0]):
                if isinstance(o, ast.Call):
                    for _m, f in repo.resolve_call(mod, o):
                        if isinstance(f, FuncNode):
                            hits.append((o, f))
        if len(hits) > 1:
            raise AnalysisError(f"{what}: {len(hits)} candidate normalisers applied before json.dumps")
        return hits[0] if hits else (None, None)
    _nc, inner = normaliser_of(ident_mod, rscf_nf, "run_space_identity RSCF serialiser")
    if inner is None:
        raise AnalysisError(f"{qualname_of(rscf)}: normaliser applied before json.dumps not found")
    # inspection: the function whose result build_inspection_payload publishes as identity.run_space.spec_id
    bip = nfunc(repo, BUILDER, "build_inspection_payload", inline=False)  # helpers kept: the helper call is what is looked for
    sid_calls = [o for d in ast.walk(bip) if isinstance(d, ast.Dict) for k, v in zip(d.keys, d.values) if isinstance(k, ast.Constant) and k.value == "spec_id"
                 for o in _origins(bip, v) if isinstance(o, ast.Call)]
    csid_hits = {id(f): f for c in sid_calls for _m, f in repo.resolve_call(builder_mod, c) if _m is builder_mod and isinstance(f, FuncNode)}
    if len(csid_hits) != 1:
        raise AnalysisError(f"build_inspection_payload: expected one function computing identity.run_space.spec_id, found {len(csid_hits)}")
    csid = next(iter(csid_hits.values()))
    csid_raw_nf = normalize(repo, builder_mod, csid, copyprop="all")
    norm_call, twin = normaliser_of(builder_mod, csid_raw_nf, "inspection spec id")
    same_nf = twin is not None and alpha_normal_form(inner, {"Mapping": "dict"}) == alpha_normal_form(twin, {"Mapping": "dict"})
    if not same_nf and twin is not None:
        # spelled differently: compare the value each one returns, on the normal forms (accumulate-loops as
        # comprehensions, named sub-expressions substituted, early returns / if-else / negated guards unified)
        va = returned_value_form(normalize(repo, ident_mod, inner, loops=True, copyprop="all"), {"Mapping": "dict"})
        vb = returned_value_form(normalize(repo, builder_mod, twin, loops=True, copyprop="all"), {"Mapping": "dict"})
        same_nf = va is not None and va == vb
    R.check(same_nf, r_sid, IDENT, qualname_of(getattr(inner, "_normal_of", inner)) if not isinstance(_parent(inner), FuncNode) else f"{qualname_of(rscf)}.{inner.name}", f"normal form equals the normaliser of inspection.builder.{qualname_of(csid)}",
            "the runtime and the inspection normaliser of the run-space block differ: `inspect` prints a different spec id than the trace carries (and/or plans that differ are identified)", inner.lineno)

    # json.dumps options
    def dumps_opts(fn) -> Optional[Dict[str, str]]:
        for c in calls_in(fn):
            if call_name(c) == "json.dumps":
                return {k.arg: ast.unparse(k.value) for k in c.keywords if k.arg}
        return None
    csid_nf, csid_q = csid_raw_nf, qualname_of(csid)
    oa, ob = dumps_opts(rscf_nf), dumps_opts(csid_nf)
    R.check(oa is not None and oa == ob, r_sid, BUILDER, csid_q, f"json.dumps options {ob}", f"serialisation options differ between runtime {oa} and inspection {ob}", csid.lineno)

    # prefix bytes (module constants are substituted by the normal form)
    def byte_consts(fn) -> Set[bytes]:
        return {n.value for n in ast.walk(fn) if isinstance(n, ast.Constant) and isinstance(n.value, bytes)}
    comp_nf = nfunc(repo, IDENT, "RunSpaceIdentityService.compute")
    pa = {b for b in byte_consts(comp_nf) if b.startswith(b"semantiva:rscf")}
    pb = {b for b in byte_consts(csid_nf) if b.startswith(b"semantiva:")}
    R.check(pa == pb and len(pa) == 1, r_sid, BUILDER, csid_q, f"hash prefix {sorted(pb)}", f"hash prefixes differ: runtime {sorted(pa)} vs inspection {sorted(pb)}", csid.lineno)

    # argument provenance: the CLI hashes asdict(<parsed run space>), the same object it expands into the plan
    comp_calls = [c for c in calls_in(run_nf) if call_attr(c) == "compute" and isinstance(c.func, ast.Attribute) and _ctor_of(run_nf, c.func.value, "RunSpaceIdentityService")]
    if len(comp_calls) != 1:
        raise AnalysisError(f"_run: expected one RunSpaceIdentityService().compute call, found {len(comp_calls)}")
    cc = comp_calls[0]
    cli_arg = _arg_at(repo, repo.module(CLI), cc, 0) or kwarg(cc, "run_space_spec")
    vals = _origins(run_nf, cli_arg)
    hashed = [v.args[0] for v in vals if isinstance(v, ast.Call) and call_attr(v) == "asdict" and len(v.args) == 1]
    cli_mod = repo.module(CLI)
    plan_calls = [(c, a) for c in calls_in(run_nf) if call_attr(c) == "expand_run_space" for a in [_arg_at(repo, cli_mod, c, 0)] if a is not None]  # the specification: first parameter, by position or keyword
    if len(plan_calls) != 1:
        raise AnalysisError(f"_run: expected one expand_run_space call, found {len(plan_calls)}")
    planned_from = _origins(run_nf, plan_calls[0][1])
    defaults_at_parse_rules(repo, R, plan_calls[0][0])
    parsed = lambda e: isinstance(e, ast.Attribute) and e.attr == "run_space" and any(isinstance(v, ast.Call) and call_attr(v) == "parse_pipeline_config" for v in _origins(run_nf, e.value))
    cli_parsed = bool(vals) and len(hashed) == len(vals) and all(parsed(h) for hs in hashed for h in _origins(run_nf, hs)) and len(planned_from) == 1 and all(_same(h, planned_from[0]) for hs in hashed for h in _origins(run_nf, hs))
    R.check(cli_parsed, r_sid, CLI, "_run", "identity_service.compute(asdict(pipeline_cfg.run_space))", "the CLI does not hash asdict(parsed run space) of the very block it expands into the plan", cc.lineno)
    if cli_parsed:
        parsed_block_intact_rules(repo, R, run_nf, hashed, [v for v in vals if isinstance(v, ast.Call) and call_attr(v) == "asdict"])
    # ... and inspection normalises asdict(<the block parsed by the parser parse_pipeline_config uses>)
    ppc = repo.resolve_name(repo.module(CLI), ast.Name(id="parse_pipeline_config", ctx=ast.Load()))
    if ppc is None or not isinstance(ppc[1], FuncNode):
        raise AnalysisError("cli: parse_pipeline_config not resolvable")
    parser_fns = {id(n) for _m, n, _p in repo.call_graph_closure([ppc]).values()}

    def parses_block(o: ast.AST) -> bool:
        return isinstance(o, ast.Call) and any(id(f) in parser_fns for _m, f in repo.resolve_call(builder_mod, o))
    insp_vals = _origins(csid_nf, norm_call.args[0]) if norm_call is not None and norm_call.args else []
    insp_parsed = bool(insp_vals) and all(
        isinstance(v, ast.Call) and call_attr(v) == "asdict" and len(v.args) == 1 and any(parses_block(o) for o in _origins(csid_nf, v.args[0])) for v in insp_vals)
    R.check(bool(insp_parsed), r_sid, BUILDER, csid_q, "normalises asdict(<run-space block parsed as parse_pipeline_config parses it>)", "inspection hashes a different representation of the run-space block than the runtime (raw mapping vs parsed configuration with defaults): spec ids never agree", csid.lineno)
    if insp_parsed:
        insp_parse_calls = [o for v in insp_vals for o in _origins(csid_nf, v.args[0]) if parses_block(o)]
        parse_agreement_rules(repo, R, ppc, builder_mod, csid, csid_nf, insp_parse_calls)


def _diagnostic_only(fn: ast.AST, p: str) -> bool:
    """Parameter *p* of *fn* is read only where the function reports something (inside `raise ...`, a logger / warnings
    call): it cannot change the value the function returns."""
    loads = [x for x in ast.walk(fn) if isinstance(x, ast.Name) and x.id == p and isinstance(x.ctx, ast.Load)]
    if any(isinstance(x, ast.Name) and x.id == p and isinstance(x.ctx, (ast.Store, ast.Del)) for x in ast.walk(fn)):
        return False

    def reporting(x: ast.AST) -> bool:
        for a in ancestors(x):
            if isinstance(a, ast.Raise):
                return True
            if isinstance(a, ast.Call) and (call_name(a) or "").split(".")[0] in ("logger", "logging", "warnings", "log", "_logger", "LOGGER"):
                return True
            if isinstance(a, ast.stmt):
                return False
        return False
    return all(reporting(x) for x in loads)


def parse_agreement_rules(repo: Repo, R: Report, ppc, builder_mod, csid: ast.AST, csid_nf: ast.AST, insp_calls: List[ast.Call]) -> None:
    """Both sides hash asdict(<parsed block>): the parsed block is the same only if both sides parse the same way.  The runtime
    hashes `.run_space` of what parse_pipeline_config returns; what is stored there is followed back to the call of the block
    parser inside parse_pipeline_config and compared, option by option, with the call inspection makes."""
    r_pa = R.rule("C09-D1-parse-agreement", "the run-space block is turned into the hashed representation by the same parser call on both paths: the function whose result the configuration parser (parse_pipeline_config, the CLI path) stores as `.run_space` is the function inspection applies, and every parameter of it other than the block itself that can influence the parsed value is bound to the same constant (or left at its default) at both call sites - an option only one side passes (a base directory, a strictness flag, ...) makes `inspect` print another spec id than the trace carries for the blocks the option touches", 1)
    pmod, pfn = ppc
    rel_p = pmod.rel
    pq = qualname_of(pfn)
    pnf = normalize(repo, pmod, pfn, inline=False)  # helpers kept: the call of the block parser is what is looked for
    # the object parse_pipeline_config returns, and the constructor argument that ends up in its `.run_space`
    rets = [r for r in walk_no_nested(pnf) if isinstance(r, ast.Return) and r.value is not None]
    ctor_calls = [o for r in rets for o in _origins(pnf, r.value) if isinstance(o, ast.Call)]
    stored_args: List[Tuple[ast.Call, ast.AST]] = []
    ctor_hits: List[Tuple[ast.Call, Tuple]] = []
    for c in ctor_calls:
        r = repo.resolve_name(pmod, c.func, c) if isinstance(c.func, (ast.Name, ast.Attribute)) else None
        if r is None or not isinstance(r[1], ast.ClassDef):
            continue
        ctor_hits.append((c, r))
        init = repo.method(r[0], r[1], "__init__")
        arg: Optional[ast.AST] = None
        if init is not None and isinstance(init[1], FuncNode):
            b = _bind_args(init[1], c, skip_first=True)
            pos = init[1].args.posonlyargs + init[1].args.args
            if b is None or not pos:
                raise AnalysisError(f"{pq}: constructor call `{norm(c)[:60]}` cannot be bound to {qualname_of(init[1])}")
            vals = _object_stores(repo, init[0], init[1], pos[0].arg, r).get("run_space", [])
            holders = {x.id for v in vals for x in ast.walk(v) if isinstance(x, ast.Name) and x.id in b}
            if len(holders) != 1:
                raise AnalysisError(f"{qualname_of(init[1])}: what is stored as `.run_space` is not built from one constructor parameter ({sorted(holders)})")
            arg = b[next(iter(holders))]
        else:  # dataclass-style: the field is the keyword
            arg = kwarg(c, "run_space")
        if arg is not None:
            stored_args.append((c, arg))
    if not stored_args:
        raise AnalysisError(f"{pq}: the returned configuration object and the value stored as its `.run_space` were not found")
    located: Set[int] = set()
    rt_calls: List[ast.Call] = []
    for c, arg in stored_args:
        outs = [o for o in _origins(pnf, arg) if not _is_none(o)]
        if not outs or not all(isinstance(o, ast.Call) for o in outs):
            raise AnalysisError(f"{pq}: `.run_space` of the returned configuration is bound to `{norm(arg)[:60]}`, not to the result of a parser call")
        rt_calls.extend(outs)

    def target(mod, call: ast.Call):
        t = [x for x in repo.resolve_call(mod, call) if isinstance(x[1], FuncNode)]
        return t[0] if len(t) == 1 else None
    for rc in rt_calls:
        rt = target(pmod, rc)
        if rt is None:
            raise AnalysisError(f"{pq}: `{norm(rc)[:60]}` (the value stored as `.run_space`) does not resolve to one function of the package")
        rb = _bind_args(rt[1], rc, skip_first=False)
        for ic in insp_calls:
            it = target(builder_mod, ic)
            if not R.check(it is not None and it[1] is rt[1], r_pa, BUILDER, qualname_of(csid), f"parses the block with the function {pq} stores as .run_space",
                           f"inspection parses the run-space block with `{norm(ic.func)}` while the runtime configuration parser stores the result of `{norm(rc.func)}` ({rel_p}:{rc.lineno}) as `.run_space`: the two sides hash the result of different functions", ic.lineno):
                continue
            ib = _bind_args(it[1], ic, skip_first=False)
            if rb is None or ib is None:
                raise AnalysisError(f"{qualname_of(rt[1])}: the parser calls `{norm(rc)[:50]}` / `{norm(ic)[:50]}` cannot be bound to its parameters")
            # the block itself: the parameter inspection feeds from its own argument
            csid_params = set(_params(csid_nf))
            block_params = [p for p, v in ib.items() if _slice_names(csid_nf, v) & csid_params]
            if len(block_params) != 1:
                raise AnalysisError(f"{qualname_of(csid)}: which parameter of {qualname_of(rt[1])} receives the run-space block is not clear ({block_params})")
            if id(rt[1]) not in located:
                located.add(id(rt[1]))
                block_location_rules(repo, R, ppc, rt[1], block_params[0], builder_mod)
                if block_params[0] in rb:
                    launch_activation_rules(repo, R, ppc, pnf, rb[block_params[0]], ctor_hits)
            for p in [p for p in rb if p != block_params[0]]:
                a, b2 = rb[p], ib[p]
                same = isinstance(a, ast.Constant) and isinstance(b2, ast.Constant) and type(a.value) is type(b2.value) and a.value == b2.value
                if same or _diagnostic_only(rt[1], p):
                    R.ok(r_pa, rel_p, pq, f"{rt[1].name}(..., {p}=...) agrees with inspection")
                    continue
                passed_rt = any(k.arg == p for k in rc.keywords) or not isinstance(a, ast.Constant)
                site = (rel_p, pq, rc) if passed_rt else (BUILDER, qualname_of(csid), ic)
                R.violation(r_pa, site[0], site[1], norm(site[2])[:100],
                            f"the runtime parses the run-space block with `{p}={norm(a)[:40]}` ({rel_p}:{rc.lineno}), inspection with `{p}={norm(b2)[:40]}` ({BUILDER}:{ic.lineno}), and `{p}` takes part in building the parsed value in {qualname_of(rt[1])}: for every block this option touches the two sides hash different representations - `inspect` prints another spec id than run_space_start carries",
                            site[2].lineno)


# ------------------------------------------------- D1 one representation per meaning: defaults are filled in by the parser

def _truthy_const(e: Optional[ast.AST]) -> bool:
    return isinstance(e, ast.Constant) and e.value is not None and not isinstance(e.value, bool) and isinstance(e.value, (str, int, float, bytes)) and bool(e.value)


def defaults_at_parse_rules(repo: Repo, R: Report, plan_call: ast.Call) -> None:
    """The spec id hashes the *parsed* block, so it is invariant under spelling out a default only if the parser stores the
    same value for `key omitted` and `key: <default>`.  A consumer of the parsed block (the planner _run expands it with and
    what it calls in its module) that reads `<field> or <constant>` / `<constant> if <field> is None else <field>` for a
    field the schema allows to be None gives `None` the meaning of `<constant>`: two stored values, one plan, two ids.
    Types are followed from the planner's specification parameter through the dataclass annotations of the schema."""
    r_da = R.rule("C09-D1-defaults-at-parse", "a default of the run-space block is filled in where the block is parsed, not where it is consumed: the planner (the function _run expands the hashed block with, and what it reaches in its module) never substitutes a non-empty constant for an unset (None) field of the parsed specification - `spec.field or \"c\"`, `\"c\" if spec.field is None else spec.field` - when the schema lets that field be None.  Otherwise `key omitted` (stored None) and `key: c` (stored \"c\") plan the same runs but are hashed differently: the spec id - in inspect and in the trace alike - changes under the cosmetic edit of spelling out the default", 1)
    cli_mod = repo.module(CLI)
    targets = [x for x in repo.resolve_call(cli_mod, plan_call) if isinstance(x[1], FuncNode)]
    if len(targets) != 1:
        raise AnalysisError(f"_run: the planner call `{norm(plan_call)[:60]}` does not resolve to one function of the package")
    pm, pf = targets[0]
    fns = [n for m, n, _p in repo.call_graph_closure([(pm, pf)], stop=lambda m, n: m is not pm).values() if m is pm]

    def class_in(mod, ann: Optional[ast.AST]) -> Optional[Tuple[object, ast.ClassDef]]:
        """The package class an annotation names (first one found: Optional[X], List[X], "X", X | None)."""
        if ann is None:
            return None
        if isinstance(ann, ast.Constant) and isinstance(ann.value, str):
            try:
                ann = ast.parse(ann.value, mode="eval").body
            except SyntaxError:
                return None
        for x in ast.walk(ann):
            if isinstance(x, (ast.Name, ast.Attribute)):
                r = repo.resolve_name(mod, x) if isinstance(x, ast.Name) else None
                if r is not None and isinstance(r[1], ast.ClassDef):
                    return r
            if isinstance(x, ast.Constant) and isinstance(x.value, str) and x is not ann:
                r = class_in(mod, x)
                if r is not None:
                    return r
        return None

    def fields_of(tc) -> Dict[str, ast.AnnAssign]:
        out: Dict[str, ast.AnnAssign] = {}
        for _m, c in reversed(repo.mro(tc[0], tc[1])):
            for st in c.body:
                if isinstance(st, ast.AnnAssign) and isinstance(st.target, ast.Name):
                    out[st.target.id] = st
        return out

    def field_cls(tc, attr: str):
        for m, c in repo.mro(tc[0], tc[1]):
            for st in c.body:
                if isinstance(st, ast.AnnAssign) and isinstance(st.target, ast.Name) and st.target.id == attr:
                    return class_in(m, st.annotation)
        return None

    def nullable(tc, attr: str) -> bool:
        st = fields_of(tc).get(attr)
        if st is None:
            return False
        if st.value is not None and _is_none(st.value):
            return True
        txt = ast.unparse(st.annotation)
        return "Optional" in txt or "None" in txt

    # types of names: per function, name -> class (parameters by annotation or by what the callers pass; locals by flow)
    env: Dict[int, Dict[str, Tuple[object, ast.ClassDef]]] = {id(f): {} for f in fns}
    for f in fns:
        for a in f.args.posonlyargs + f.args.args + f.args.kwonlyargs:
            tc = class_in(pm, a.annotation)
            if tc is not None:
                env[id(f)][a.arg] = tc

    def typeof(f: ast.AST, e: Optional[ast.AST]):
        if isinstance(e, ast.Name):
            return env[id(f)].get(e.id)
        if isinstance(e, ast.Attribute):
            b = typeof(f, e.value)
            return field_cls(b, e.attr) if b is not None else None
        if isinstance(e, ast.Subscript):
            return typeof(f, e.value)
        if isinstance(e, ast.Call) and call_name(e) in ("enumerate", "list", "tuple", "sorted", "reversed", "iter", "next") and e.args:
            return typeof(f, e.args[0])
        if isinstance(e, ast.IfExp):
            return typeof(f, e.body) or typeof(f, e.orelse)
        if isinstance(e, ast.BoolOp):
            return next((t for t in (typeof(f, v) for v in e.values) if t is not None), None)
        if isinstance(e, ast.NamedExpr):
            return typeof(f, e.value)
        return None

    def bind(f: ast.AST, name: str, tc) -> bool:
        if tc is None or name in env[id(f)]:
            return False
        env[id(f)][name] = tc
        return True
    changed, rounds = True, 0
    while changed and rounds < 8:
        changed, rounds = False, rounds + 1
        for f in fns:
            for n in walk_no_nested(f):
                if isinstance(n, (ast.Assign, ast.AnnAssign)) and n.value is not None:
                    for t in (n.targets if isinstance(n, ast.Assign) else [n.target]):
                        if isinstance(t, ast.Name):
                            changed |= bind(f, t.id, typeof(f, n.value))
                elif isinstance(n, ast.NamedExpr) and isinstance(n.target, ast.Name):
                    changed |= bind(f, n.target.id, typeof(f, n.value))
                elif isinstance(n, (ast.For, ast.comprehension)):
                    tgt, it = n.target, n.iter
                    if isinstance(it, ast.Call) and call_name(it) == "enumerate" and isinstance(tgt, ast.Tuple) and len(tgt.elts) == 2:
                        tgt = tgt.elts[1]
                    if isinstance(tgt, ast.Name):
                        changed |= bind(f, tgt.id, typeof(f, it))
                elif isinstance(n, ast.Call):
                    for m2, callee in repo.resolve_call(pm, n):
                        if m2 is pm and isinstance(callee, FuncNode) and id(callee) in env:
                            b = _bind_args(callee, n, skip_first=_is_method(callee) and isinstance(n.func, ast.Attribute))
                            for pname, arg in (b or {}).items():
                                changed |= bind(callee, pname, typeof(f, arg))
    if not env[id(pf)]:
        raise AnalysisError(f"{pm.rel}:{qualname_of(pf)}: the class of the parsed run-space specification it plans from is not known from its annotations")

    def unset_field(f: ast.AST, x: ast.AST):
        """(class, attr) when *x* reads a field of the parsed specification that the schema lets be None."""
        if isinstance(x, ast.Attribute):
            b = typeof(f, x.value)
            if b is not None and nullable(b, x.attr):
                return b, x.attr
        return None

    def none_test(t: ast.AST) -> Optional[Tuple[ast.AST, bool]]:  # (operand, True when the test holds for None)
        if isinstance(t, ast.Compare) and len(t.ops) == 1 and _is_none(t.comparators[0]) and isinstance(t.ops[0], (ast.Is, ast.IsNot, ast.Eq, ast.NotEq)):
            return t.left, isinstance(t.ops[0], (ast.Is, ast.Eq))
        if isinstance(t, ast.UnaryOp) and isinstance(t.op, ast.Not):
            return t.operand, True
        return (t, False) if isinstance(t, (ast.Attribute, ast.Name)) else None
    seen_fields: Set[Tuple[str, str]] = set()
    bad: List[Tuple[ast.AST, ast.AST, Tuple, ast.AST]] = []
    for f in fns:
        for x in walk_no_nested(f):
            if isinstance(x, ast.Attribute):
                uf = unset_field(f, x)
                if uf is not None:
                    seen_fields.add((uf[0][1].name, uf[1]))
            if isinstance(x, ast.BoolOp) and isinstance(x.op, ast.Or) and _truthy_const(x.values[-1]):
                for v in x.values[:-1]:
                    uf = unset_field(f, v)
                    if uf is not None:
                        bad.append((f, x, uf, x.values[-1]))
            elif isinstance(x, ast.IfExp):
                nt = none_test(x.test)
                if nt is not None:
                    uf = unset_field(f, nt[0])
                    chosen, other = (x.body, x.orelse) if nt[1] else (x.orelse, x.body)
                    # the constant stands in for the field itself only when the other arm is the field
                    if uf is not None and _truthy_const(chosen) and _same(other, nt[0]):
                        bad.append((f, x, uf, chosen))
    for f, x, (tc, attr), c in bad:
        R.violation(r_da, pm.rel, qualname_of(f), norm(x)[:100],
                    f"the planner gives an unset `{tc[1].name}.{attr}` (None in the parsed block - the schema allows it) the meaning of `{norm(c)}`: a block that omits the key and one that spells out `{attr}: {c.value}` plan the same runs, but asdict() of the parsed block - what run_space_spec_id hashes, in `inspect` and in run_space_start alike - holds null for one and {norm(c)} for the other, so the spec id (and every launch id derived from it) changes under a cosmetic edit; fill the default in where the block is parsed",
                    getattr(x, "lineno", f.lineno))
    flagged = {(tc[1].name, attr) for _f, _x, (tc, attr), _c in bad}
    for cname, attr in sorted(seen_fields - flagged):
        R.ok(r_da, pm.rel, qualname_of(pf), f"{cname}.{attr}: no non-empty constant stands in for None in the planner")
    if not seen_fields:
        raise AnalysisError(f"{pm.rel}:{qualname_of(pf)}: no read of a nullable field of the parsed run-space specification found in the planner (type flow lost)")


# --------------------------------------------------------------- D1 the parsed block is hashed as it was parsed
_SHALLOW_COPIES = {"list", "tuple", "sorted", "reversed", "set", "frozenset", "iter", "dict", "copy", "OrderedDict"}


class _OwnedFlow:
    """Which expressions of a function can evaluate to an object that is - or is reachable from - what the caller passed for
    one parameter (attribute chain *chain* of it), without a copy in between: locals through their reaching definitions,
    attributes / elements / loop targets of such an object; a shallow copy is a new container of the same children."""

    def __init__(self, nf: ast.AST, param: str, chain: Tuple[str, ...]):
        self.nf, self.param, self.chain = nf, param, chain
        self.g = CFG(nf)
        self._idx: Dict[int, int] = {}
        for n in self.g.nodes:
            root = n.part if n.part is not None else (n.ast if n.kind == "stmt" else None)
            if root is not None:
                for y in ast.walk(root):
                    self._idx.setdefault(id(y), n.id)
            if n.kind == "for" and n.ast is not None:
                for y in ast.walk(n.ast.target):
                    self._idx.setdefault(id(y), n.id)
        self._busy: Set[Tuple[int, int, bool]] = set()
        self.rebound = any(isinstance(x, ast.Name) and x.id == param and isinstance(x.ctx, ast.Store) for x in ast.walk(nf))

    def node_of(self, x: ast.AST) -> Optional[int]:
        return self._idx.get(id(x))

    def _attr_chain(self, e: ast.AST) -> Optional[Tuple[str, Tuple[str, ...]]]:
        attrs: List[str] = []
        while isinstance(e, ast.Attribute):
            attrs.append(e.attr)
            e = e.value
        return (e.id, tuple(reversed(attrs))) if isinstance(e, ast.Name) else None

    def owned(self, e: Optional[ast.AST], at: Optional[int], elems: bool = False) -> bool:
        """*e* (evaluated at CFG node *at*) can be the caller's object itself (elems=False) / a container whose
        elements are the caller's objects (elems=True)."""
        if e is None or at is None:
            return False
        key = (id(e), at, elems)
        if key in self._busy:
            return False
        self._busy.add(key)
        try:
            return self._owned(e, at, elems)
        finally:
            self._busy.discard(key)

    def _owned(self, e: ast.AST, at: int, elems: bool) -> bool:
        if isinstance(e, ast.IfExp):
            return self.owned(e.body, at, elems) or self.owned(e.orelse, at, elems)
        if isinstance(e, ast.BoolOp):
            return any(self.owned(v, at, elems) for v in e.values)
        if isinstance(e, ast.NamedExpr):
            return self.owned(e.value, at, elems)
        if isinstance(e, ast.Starred):
            return self.owned(e.value, at, elems)
        ch = self._attr_chain(e)
        if ch is not None and ch[0] == self.param and ch[1][:len(self.chain)] == self.chain and len(ch[1]) >= len(self.chain):
            if not self.rebound or not reaching_defs(self.g, self.param, at):
                return True
        if elems:
            if self.owned(e, at, False):
                return True
            if isinstance(e, ast.Call):
                a = call_attr(e)
                if a in _SHALLOW_COPIES and len(e.args) == 1:
                    return self.owned(e.args[0], at, True)
                if a in ("copy", "values", "items") and not e.args and isinstance(e.func, ast.Attribute):
                    return self.owned(e.func.value, at, True)
                if a == "enumerate" and e.args:
                    return self.owned(e.args[0], at, True)
                if a == "zip":
                    return any(self.owned(x, at, True) for x in e.args)
                return False
            if isinstance(e, (ast.List, ast.Tuple, ast.Set)):
                return any(self.owned(x, at, False) for x in e.elts)
            if isinstance(e, ast.Dict):
                return any(self.owned(x, at, False) for x in e.values if x is not None)
            if isinstance(e, (ast.ListComp, ast.SetComp, ast.GeneratorExp)):
                return self._comp_owned(e, e.elt, at)
            if isinstance(e, ast.DictComp):
                return self._comp_owned(e, e.value, at)
        if isinstance(e, ast.Name):
            for d in reaching_defs(self.g, e.id, at):
                if d.kind == "stmt" and isinstance(d.ast, (ast.Assign, ast.AnnAssign)):
                    for v in _value_for(d.ast, e.id):
                        if self.owned(v, d.id, elems):
                            return True
                    if not _value_for(d.ast, e.id) and isinstance(d.ast, ast.Assign):  # a, b = pair
                        if self.owned(d.ast.value, d.id, True):
                            return True
                elif d.kind == "for" and isinstance(d.ast, (ast.For, ast.AsyncFor)):
                    # the loop variable is an element of what is iterated (for a pair: of what the pair is made of)
                    if self.owned(d.ast.iter, d.id, True):
                        return True
            return False
        if isinstance(e, ast.Attribute):
            return self.owned(e.value, at, False)
        if isinstance(e, ast.Subscript):
            return self.owned(e.value, at, True)
        if isinstance(e, ast.Call) and isinstance(e.func, ast.Attribute) and e.func.attr in ("get", "pop", "setdefault", "popitem", "__getitem__"):
            return self.owned(e.func.value, at, True)
        if isinstance(e, ast.Call) and call_attr(e) in ("cast",) and len(e.args) == 2:
            return self.owned(e.args[1], at, elems)
        if isinstance(e, ast.Call) and call_name(e) in ("next", "getattr") and e.args:
            return self.owned(e.args[0], at, call_name(e) == "next")
        return False

    def _comp_owned(self, comp: ast.AST, elt: ast.AST, at: int) -> bool:
        # [x for x in owned-elements]: the element expression is (an attribute / element of) a comprehension variable
        names = {x.id for x in ast.walk(elt) if isinstance(x, ast.Name)}
        for gen in comp.generators:
            tg = {x.id for x in ast.walk(gen.target) if isinstance(x, ast.Name)}
            if tg & names and not isinstance(elt, (ast.Call, ast.Dict, ast.List, ast.ListComp, ast.DictComp, ast.Constant, ast.JoinedStr)) and self.owned(gen.iter, at, True):
                return True
        return False


def _write_sites(nf: ast.AST) -> List[Tuple[ast.AST, ast.AST]]:
    """(statement or call, container written into) for attribute / element stores, deletes, augmented stores and mutator calls."""
    from ..engine import MUTATORS

    out: List[Tuple[ast.AST, ast.AST]] = []
    for n in walk_no_nested(nf):
        tgts: List[ast.AST] = []
        if isinstance(n, ast.Assign):
            tgts = list(n.targets)
        elif isinstance(n, (ast.AugAssign, ast.AnnAssign)):
            tgts = [n.target] if not (isinstance(n, ast.AnnAssign) and n.value is None) else []
        elif isinstance(n, ast.Delete):
            tgts = list(n.targets)
        for t in tgts:
            for el in (t.elts if isinstance(t, (ast.Tuple, ast.List)) else [t]):
                if isinstance(el, (ast.Subscript, ast.Attribute)):
                    out.append((n, el.value))
        if isinstance(n, ast.Call):
            if isinstance(n.func, ast.Attribute) and n.func.attr in MUTATORS:
                out.append((n, n.func.value))
            elif call_name(n) in ("setattr", "delattr") and n.args:
                out.append((n, n.args[0]))
    return out


def parsed_block_intact_rules(repo: Repo, R: Report, run_nf: ast.AST, hashed: List[ast.AST], hash_calls: List[ast.AST]) -> None:
    r_pi = R.rule("C09-D1-parsed-block-intact", "the run-space block is hashed as it was parsed: no package function that _run hands the parsed block (the object whose asdict() becomes run_space_spec_id - or a part / the holder of it) to before it is hashed writes into it or into anything reachable from it (a field, a list or mapping inside it; directly, through a local alias, a loop variable, or further down the calls).  Inspection hashes the block as the parser returned it, so a planner / validator that pops, clears or rewrites entries of the parsed specification makes run_space_start carry the id of another specification than `inspect` prints, and gives plans that differ only in the consumed entries the same id", 1)
    cli_mod = repo.module(CLI)
    g = CFG(run_nf)
    idx: Dict[int, int] = {}
    for n in g.nodes:
        root = n.part if n.part is not None else (n.ast if n.kind == "stmt" else None)
        if root is not None:
            for y in ast.walk(root):
                idx.setdefault(id(y), n.id)
    hash_nodes = {idx[id(h)] for h in hash_calls if id(h) in idx}
    if not hash_nodes or not hashed:
        raise AnalysisError("_run: the statement hashing asdict(<parsed run space>) was not located in the control-flow graph")
    protected = {ast.dump(o, include_attributes=False): o for h in hashed for o in _origins(run_nf, h) if isinstance(o, (ast.Attribute, ast.Name))}
    if not protected:
        raise AnalysisError("_run: the hashed run-space object is not a plain attribute / local")

    def relation(arg: ast.AST) -> Optional[Tuple[str, ...]]:
        """() when *arg* is the hashed object or a part of it; the attribute chain leading to it when *arg* is its holder."""
        for a in _origins(run_nf, arg):
            for p in protected.values():
                x: ast.AST = a
                while isinstance(x, (ast.Attribute, ast.Subscript)):  # a part of the protected object
                    if _same(x, p):
                        return ()
                    x = x.value
                if _same(x, p):
                    return ()
                chain: List[str] = []
                y: ast.AST = p
                while isinstance(y, ast.Attribute):  # its holder
                    chain.append(y.attr)
                    y = y.value
                    if _same(y, a):
                        return tuple(reversed(chain))
        return None

    seen: Set[Tuple[int, str, Tuple[str, ...]]] = set()
    n_fn = 0

    def analyse(mod, f: ast.AST, param: str, chain: Tuple[str, ...], via: str, depth: int) -> None:
        nonlocal n_fn
        key = (id(f), param, chain)
        if key in seen:
            return
        seen.add(key)
        nf = normalize(repo, mod, f)
        if param not in _params(nf):
            return
        flow = _OwnedFlow(nf, param, chain)
        qn = qualname_of(f)
        n_fn += 1
        clean = True
        for site, container in _write_sites(nf):
            at = flow.node_of(container)
            if at is not None and flow.owned(container, at):
                clean = False
                R.violation(r_pi, mod.rel, _fn_at(mod, getattr(site, "lineno", 0), qn), norm(stmt_of(site) if not isinstance(site, ast.stmt) else site)[:100],
                            f"writes into `{norm(container)[:50]}`, which is (part of) the parsed run-space block handed down {via}: _run hashes asdict() of that block afterwards ({CLI}:{hash_calls[0].lineno}), so run_space_spec_id in run_space_start (and the inputs id / key-derived launch id built on it) is the id of the modified specification - `semantiva inspect`, which parses the block and never runs this code, prints another id, and two specifications that differ only in what is consumed here get the same id",
                            getattr(site, "lineno", nf.lineno))
        if clean:
            R.ok(r_pi, mod.rel, qn, f"{qn}({param}{''.join('.' + c for c in chain)}): no write reaches the parsed block")
        if depth <= 0:
            return
        for c in calls_in(nf):
            targets = [(m2, f2) for m2, f2 in repo.resolve_call(mod, c) if isinstance(f2, FuncNode)]
            if len(targets) != 1:
                continue
            m2, f2 = targets[0]
            b = _bind_args(f2, c, skip_first=_is_method(f2) and isinstance(c.func, ast.Attribute))
            if b is None:
                continue
            at = flow.node_of(c)
            for p2, a in b.items():
                if at is not None and not isinstance(a, ast.Constant) and flow.owned(a, at):
                    analyse(m2, f2, p2, (), f"{via} -> {qualname_of(f2)}({p2}=`{norm(a)[:30]}`)", depth - 1)

    for c in calls_in(run_nf):
        at = idx.get(id(c))
        if at is None or any(c is h for h in hash_calls) or call_attr(c) in ("asdict",):
            continue
        if not (set(g.reach([at])) & hash_nodes):
            continue  # cannot run before the block is hashed
        targets = [(m2, f2) for m2, f2 in repo.resolve_call(cli_mod, c) if isinstance(f2, FuncNode)]
        if len(targets) != 1:
            continue
        m2, f2 = targets[0]
        b = _bind_args(f2, c, skip_first=_is_method(f2) and isinstance(c.func, ast.Attribute))
        if b is None:
            continue
        for p2, a in b.items():
            rel_ = relation(a) if not isinstance(a, ast.Constant) else None
            if rel_ is not None:
                analyse(m2, f2, p2, rel_, f"_run -> {qualname_of(f2)}({p2}=`{norm(a)[:40]}`)", 3)
    if n_fn == 0:
        raise AnalysisError("_run: no package function receives the parsed run-space block before it is hashed (the planner expand_run_space does today)")


# ----------------------------------------------------------------------- D1 block location (sibling lookups)
# A small symbolic evaluator: the value an expression has at a call site as an expression over the entry function's
# parameters (locals substituted, if/else merged into conditional expressions, helpers of other modules followed), with
# the branch conditions under which the site is reached - and an abstract evaluation of such expressions over the
# possible shapes of a loaded configuration mapping.

_MAPPING_TYPES = {"Mapping", "dict", "MutableMapping", "Dict", "OrderedDict", "CommentedMap"}
_ABS = ("absent", "none", "emap", "nemap", "falsy", "truthy")
_ABS_WORDS = {"absent": "absent", "none": "null", "emap": "an empty mapping", "nemap": "a non-empty mapping", "falsy": "an empty list / 0 / ''", "truthy": "a list / scalar"}


class _SymCtx:
    __slots__ = ("mod", "depth", "returns", "base")

    def __init__(self, mod, depth: int, base: int):
        self.mod, self.depth, self.returns, self.base = mod, depth, [], base


def _stored_names(stmts: Iterable[ast.AST]) -> Set[str]:
    out: Set[str] = set()
    for st in stmts:
        for n in ast.walk(st):
            if isinstance(n, ast.Name) and isinstance(n.ctx, (ast.Store, ast.Del)):
                out.add(n.id)
            elif isinstance(n, (ast.FunctionDef, ast.AsyncFunctionDef, ast.ClassDef)):
                out.add(n.name)
            elif isinstance(n, (ast.Import, ast.ImportFrom)):
                out.update((a.asname or a.name).split(".")[0] for a in n.names)
    return out


def _conj(conds: Tuple) -> Optional[ast.AST]:
    parts = [clone(t) if truth else ast.UnaryOp(op=ast.Not(), operand=clone(t)) for t, truth in conds]
    if not parts:
        return None
    return parts[0] if len(parts) == 1 else ast.BoolOp(op=ast.And(), values=parts)


class _SymExec:
    """Symbolic execution of structured code (assignments, if/else, early returns; loops / try bodies make what they
    assign opaque).  ``hits``: (conditions, symbolic argument, call, module) for every call *is_target* accepts."""

    def __init__(self, repo: Repo, is_target: Callable[[object, ast.Call], Optional[ast.AST]], keep: Iterable[str] = ()):
        self.repo, self.is_target, self.keep = repo, is_target, tuple(keep)
        self.hits: List[Tuple[Tuple, ast.AST, ast.Call, object]] = []
        self.mutations: List[ast.AST] = []
        self.call_values: Dict[int, ast.AST] = {}
        self._n = 0
        self._busy: Set[int] = set()

    def opaque(self, hint: str) -> ast.AST:
        self._n += 1
        return ast.Name(id=f"?{hint}#{self._n}", ctx=ast.Load())

    # -- substitution
    def S(self, e: Optional[ast.AST], env: Dict[str, ast.AST], shadow: frozenset = frozenset()) -> Optional[ast.AST]:
        """Copy of *e* with the locals of *env* replaced by their symbolic values (and followed calls by what they return)."""
        if e is None:
            return None
        if isinstance(e, ast.Name):
            if isinstance(e.ctx, ast.Load) and e.id in env and e.id not in shadow:
                return clone(env[e.id])
            return clone(e)
        if isinstance(e, ast.Call) and id(e) in self.call_values:
            return clone(self.call_values[id(e)])
        if isinstance(e, ast.Lambda):
            shadow = shadow | frozenset(_params(e))
        elif isinstance(e, (ast.ListComp, ast.SetComp, ast.DictComp, ast.GeneratorExp)):
            shadow = shadow | frozenset(x.id for g in e.generators for x in ast.walk(g.target) if isinstance(x, ast.Name))
        new = e.__class__()
        for f in e._fields:
            if not hasattr(e, f):
                continue
            v = getattr(e, f)
            if isinstance(v, ast.AST):
                v = self.S(v, env, shadow)
            elif isinstance(v, list):
                v = [self.S(x, env, shadow) if isinstance(x, ast.AST) else x for x in v]
            setattr(new, f, v)
        for a in e._attributes:
            if hasattr(e, a):
                setattr(new, a, getattr(e, a))
        return new

    # -- statements
    def run(self, mod, nf: ast.AST, env: Dict[str, ast.AST], conds: Tuple, depth: int) -> _SymCtx:
        ctx = _SymCtx(mod, depth, len(conds))
        self._exec(list(nf.body), env, conds, ctx)
        return ctx

    def _exec(self, stmts, env, conds, ctx):
        for st in stmts:
            r = self._stmt(st, env, conds, ctx)
            if r is None:
                return None
            env, conds = r
        return env, conds

    def _bind(self, t: ast.AST, v: ast.AST, env: Dict[str, ast.AST]) -> None:
        if isinstance(t, ast.Name):
            env[t.id] = v
        elif isinstance(t, (ast.Tuple, ast.List)):
            for i, el in enumerate(t.elts):
                if isinstance(el, ast.Starred):
                    self._bind(el.value, self.opaque("star"), env)
                elif isinstance(v, (ast.Tuple, ast.List)) and len(v.elts) == len(t.elts) and not any(isinstance(x, ast.Starred) for x in v.elts):
                    self._bind(el, v.elts[i], env)
                else:
                    self._bind(el, ast.Subscript(value=clone(v), slice=ast.Constant(value=i), ctx=ast.Load()), env)
        elif isinstance(t, (ast.Attribute, ast.Subscript)):
            self.mutations.append(self.S(t.value, env))

    def _opaque_all(self, env, names: Iterable[str]) -> None:
        for n in names:
            env[n] = self.opaque(n)

    def _merge(self, live: List[Tuple[Dict[str, ast.AST], Tuple]], test: Optional[ast.AST], conds: Tuple):
        if not live:
            return None
        if len(live) == 1:
            return live[0]
        env: Dict[str, ast.AST] = {}
        for n in {k for e, _c in live for k in e}:
            vals = [e.get(n, ast.Name(id=n, ctx=ast.Load())) for e, _c in live]
            if all(v is vals[0] or _same(vals[0], v) for v in vals[1:]):
                env[n] = vals[0]
            elif test is not None and len(vals) == 2:
                env[n] = ast.IfExp(test=clone(test), body=vals[0], orelse=vals[1])
            else:
                env[n] = self.opaque(n)
        return env, conds

    def _stmt(self, st, env, conds, ctx):
        if isinstance(st, (ast.Assign, ast.AnnAssign)):
            if st.value is None:
                return env, conds
            self._scan(st.value, env, conds, ctx)
            v = self.S(st.value, env)
            for t in (st.targets if isinstance(st, ast.Assign) else [st.target]):
                self._bind(t, v, env)
            return env, conds
        if isinstance(st, ast.AugAssign):
            self._scan(st.value, env, conds, ctx)
            if isinstance(st.target, ast.Name):
                env[st.target.id] = self.opaque(st.target.id)
            else:
                self.mutations.append(self.S(st.target.value, env))
            return env, conds
        if isinstance(st, ast.Expr):
            self._scan(st.value, env, conds, ctx)
            from ..engine import MUTATORS
            for c in ast.walk(st.value):
                if isinstance(c, ast.Call) and isinstance(c.func, ast.Attribute) and c.func.attr in MUTATORS:
                    self.mutations.append(self.S(c.func.value, env))
            return env, conds
        if isinstance(st, ast.If):
            self._scan(st.test, env, conds, ctx)
            t = self.S(st.test, env)
            rb = self._exec(st.body, dict(env), conds + ((t, True),), ctx)
            re_ = self._exec(st.orelse, dict(env), conds + ((t, False),), ctx)
            if rb is not None and re_ is not None:
                return self._merge([rb, re_], t, conds)
            return rb if rb is not None else re_
        if isinstance(st, ast.Return):
            self._scan(st.value, env, conds, ctx)
            ctx.returns.append((conds, self.S(st.value, env) if st.value is not None else ast.Constant(value=None)))
            return None
        if isinstance(st, ast.Raise):
            self._scan(st.exc, env, conds, ctx)
            return None
        if isinstance(st, (ast.Break, ast.Continue)):
            return None
        if isinstance(st, (ast.For, ast.AsyncFor, ast.While)):
            self._scan(st.iter if not isinstance(st, ast.While) else st.test, env, conds, ctx)
            assigned = _stored_names([st])
            self._opaque_all(env, assigned)
            self._exec(st.body, dict(env), conds, ctx)
            self._exec(st.orelse, dict(env), conds, ctx)
            self._opaque_all(env, assigned)
            return env, conds
        if isinstance(st, (ast.Try, getattr(ast, "TryStar", ast.Try))):
            in_body = _stored_names(st.body)
            live = []
            r = self._exec(st.body, dict(env), conds, ctx)
            if r is not None:
                r = self._exec(st.orelse, r[0], r[1], ctx)
            if r is not None:
                live.append(r)
            for h in st.handlers:
                eh = dict(env)
                self._opaque_all(eh, in_body | ({h.name} if h.name else set()))
                rh = self._exec(h.body, eh, conds, ctx)
                if rh is not None:
                    live.append(rh)
            m = self._merge(live, None, conds)
            if m is None:
                self._exec(st.finalbody, dict(env), conds, ctx)
                return None
            return self._exec(st.finalbody, m[0], m[1], ctx)
        if isinstance(st, (ast.With, ast.AsyncWith)):
            for it in st.items:
                self._scan(it.context_expr, env, conds, ctx)
                if it.optional_vars is not None:
                    self._opaque_all(env, _stored_names([it.optional_vars]))
            return self._exec(st.body, env, conds, ctx)
        if isinstance(st, ast.Assert):
            self._scan(st.test, env, conds, ctx)
            return env, conds + ((self.S(st.test, env), True),)
        if isinstance(st, (ast.Import, ast.ImportFrom)):
            for n in _stored_names([st]):
                env.pop(n, None)
            return env, conds
        if isinstance(st, (ast.Pass, ast.Global, ast.Nonlocal)):
            return env, conds
        # def / class / del / match / anything else: what it binds is unknown from here on
        assigned = _stored_names([st])
        self._opaque_all(env, assigned)
        for sub in ast.iter_child_nodes(st):
            if isinstance(sub, ast.match_case) if hasattr(ast, "match_case") else False:
                self._exec(sub.body, dict(env), conds, ctx)
        self._opaque_all(env, assigned)
        return env, conds

    # -- expressions: target calls and calls into the package
    def _scan(self, e, env, conds, ctx) -> None:
        if e is None:
            return
        if isinstance(e, ast.IfExp):
            self._scan(e.test, env, conds, ctx)
            t = self.S(e.test, env)
            self._scan(e.body, env, conds + ((t, True),), ctx)
            self._scan(e.orelse, env, conds + ((t, False),), ctx)
            return
        if isinstance(e, ast.BoolOp):
            acc = conds
            for v in e.values:
                self._scan(v, env, acc, ctx)
                acc = acc + ((self.S(v, env), isinstance(e.op, ast.And)),)
            return
        for ch in ast.iter_child_nodes(e):
            self._scan(ch, env, conds, ctx)
        if isinstance(e, ast.Call):
            arg = self.is_target(ctx.mod, e)
            if arg is not None:
                self.hits.append((conds, self.S(arg, env), e, ctx.mod))
            else:
                self._descend(e, env, conds, ctx)

    def _descend(self, call: ast.Call, env, conds, ctx) -> None:
        if ctx.depth <= 0:
            return
        targets = [(m, f) for m, f in self.repo.resolve_call(ctx.mod, call) if isinstance(f, FuncNode)]
        if len(targets) != 1 or id(targets[0][1]) in self._busy:
            return
        m, f = targets[0]
        b = _bind_args(f, call, skip_first=_is_method(f) and isinstance(call.func, ast.Attribute))
        if b is None:
            return
        args = {p: self.S(a, env) for p, a in b.items()}
        if not any(isinstance(x, ast.Name) for a in args.values() for x in ast.walk(a)):
            return  # nothing of the caller's flows in
        self._busy.add(id(f))
        try:
            sub = self.run(m, normalize(self.repo, m, f, keep=self.keep), args, conds, ctx.depth - 1)
        finally:
            self._busy.discard(id(f))
        if not sub.returns:
            return
        val = sub.returns[-1][1]
        for cs, v in reversed(sub.returns[:-1]):
            test = _conj(cs[sub.base:])
            val = v if test is None else ast.IfExp(test=test, body=v, orelse=val)
        self.call_values[id(call)] = val


class _Need(Exception):
    def __init__(self, key):
        self.key = key


class _EvalErr(Exception):
    pass


class _ShapeEval:
    """Abstract evaluation of a symbolic expression over the shapes of the mapping *root*: every key path read from it
    has one of `_ABS` (absent / null / empty mapping / non-empty mapping / other falsy / other truthy)."""

    def __init__(self, root: str, assign: Dict[Tuple, str]):
        self.root, self.assign = root, assign

    def val(self, path: Tuple) -> str:
        if not path:
            return "nemap"
        if self.val(path[:-1]) != "nemap":
            return "absent"
        if path not in self.assign:
            raise _Need(path)
        return self.assign[path]

    @staticmethod
    def truth(x) -> Optional[bool]:
        if x[0] == "b":
            return x[1]
        if x[0] == "v":
            return x[2] in ("nemap", "truthy")
        return None

    def struct(self, e: ast.AST) -> ast.AST:
        while isinstance(e, ast.IfExp):
            t = self.tv(e.test)
            if t is None:
                return e
            e = e.body if t else e.orelse
        return e

    def tv(self, e: ast.AST) -> Optional[bool]:
        if isinstance(e, ast.UnaryOp) and isinstance(e.op, ast.Not):
            r = self.tv(e.operand)
            return None if r is None else not r
        if isinstance(e, ast.BoolOp):
            stop = isinstance(e.op, ast.Or)
            unknown = False
            for v in e.values:
                try:
                    r = self.tv(v)
                except _EvalErr:
                    if unknown:
                        return None
                    raise
                if r is None:
                    unknown = True
                elif r == stop:
                    return None if unknown else stop
            return None if unknown else not stop
        if isinstance(e, ast.Compare) and len(e.ops) == 1:
            op, right = e.ops[0], e.comparators[0]
            if isinstance(op, (ast.Is, ast.IsNot, ast.Eq, ast.NotEq)) and (_is_none(right) or _is_none(e.left)):
                x = self.ev(e.left if _is_none(right) else right)
                if x[0] == "b":
                    isnone = False
                elif x[0] == "v":
                    isnone = x[2] in ("absent", "none")
                else:
                    return None
                return isnone == isinstance(op, (ast.Is, ast.Eq))
            if isinstance(op, (ast.In, ast.NotIn)) and isinstance(e.left, ast.Constant):
                m = self.ev(right)
                if m[0] == "v" and m[2] in ("emap", "nemap") and m[1] is not None and m[1][:1] != ("#",):
                    has = m[2] == "nemap" and self.val(m[1] + (e.left.value,)) != "absent"
                    return has == isinstance(op, ast.In)
                if m[0] == "v" and m[2] in ("none", "absent"):
                    raise _EvalErr()
                return None
            return None
        if isinstance(e, ast.Call) and call_name(e) == "isinstance" and len(e.args) == 2:
            ts = e.args[1].elts if isinstance(e.args[1], ast.Tuple) else [e.args[1]]
            names = {(dotted_name(t) or "?").split(".")[-1] for t in ts}
            x = self.ev(e.args[0])
            if x[0] != "v":
                return None
            ismap = x[2] in ("emap", "nemap")
            if names <= _MAPPING_TYPES:
                return ismap
            if not (names & _MAPPING_TYPES):
                return False if (ismap or x[2] in ("none", "absent")) and "NoneType" not in names and "object" not in names else None
            return True if ismap else None
        if isinstance(e, ast.Call) and call_name(e) == "bool" and len(e.args) == 1:
            return self.tv(e.args[0])
        return self.truth(self.ev(e))

    def ev(self, e: ast.AST):
        if isinstance(e, ast.Name):
            return ("v", (), "nemap") if e.id == self.root else ("u", e)
        if isinstance(e, ast.Constant):
            if e.value is None:
                return ("v", None, "none")
            if isinstance(e.value, bool):
                return ("b", e.value)
            return ("v", ("#", repr(e.value)), "truthy" if e.value else "falsy")
        if isinstance(e, ast.Dict):
            return ("v", None, "emap") if not e.keys else ("v", ("#", ast.dump(e)), "nemap")
        if isinstance(e, ast.IfExp):
            t = self.tv(e.test)
            if t is None:
                a, b = self.ev(e.body), self.ev(e.orelse)
                return a if a == b else ("u", e)
            return self.ev(e.body if t else e.orelse)
        if isinstance(e, ast.BoolOp):
            stop = isinstance(e.op, ast.Or)
            for v in e.values[:-1]:
                x = self.ev(v)
                t = self.truth(x)
                if t is None:
                    return ("u", e)
                if t == stop:
                    return x
            return self.ev(e.values[-1])
        if isinstance(e, (ast.UnaryOp, ast.Compare)):
            t = self.tv(e)
            return ("u", e) if t is None else ("b", t)
        if isinstance(e, ast.Subscript) and isinstance(e.slice, ast.Constant) and type(e.slice.value) is int:
            s = self.struct(e.value)
            if isinstance(s, (ast.Tuple, ast.List)) and -len(s.elts) <= e.slice.value < len(s.elts):
                return self.ev(s.elts[e.slice.value])
            return ("u", e)
        k = _keyed(e)
        if k is not None and isinstance(k[1], str):
            m = self.ev(k[0])
            if m[0] != "v":
                return ("u", e)
            if m[2] not in ("emap", "nemap"):
                raise _EvalErr()
            if m[1] is None or m[1][:1] == ("#",):
                return ("u", e)
            v = self.val(m[1] + (k[1],)) if m[2] == "nemap" else "absent"
            if v == "absent":
                if isinstance(e, ast.Subscript):
                    raise _EvalErr()
                return self.ev(e.args[1]) if len(e.args) > 1 else ("v", None, "none")
            return ("v", m[1] + (k[1],), v)
        inner = _copied_operand(e) if isinstance(e, ast.Call) else None
        if inner is None and isinstance(e, ast.Call) and call_attr(e) == "cast" and len(e.args) == 2:
            return self.ev(e.args[1])
        if inner is not None:
            x = self.ev(inner)
            if x[0] == "v" and x[2] in ("emap", "nemap"):
                return x
            if x[0] == "v" and x[2] in ("none", "absent"):
                raise _EvalErr()
            return ("u", e)
        return ("u", e)


def _enumerate_shapes(compute: Callable[[Dict[Tuple, str]], object], limit: int = 20000):
    """Every assignment of shapes to the key paths *compute* reads (forked lazily), with its result."""
    todo: List[Dict[Tuple, str]] = [{}]
    n = 0
    while todo:
        assign = todo.pop()
        n += 1
        if n > limit:
            raise AnalysisError("block location: too many configuration shapes to enumerate")
        try:
            out = compute(assign)
        except _Need as need:
            for v in _ABS:
                todo.append({**assign, need.key: v})
            continue
        yield assign, out


def _is_root_path(e: ast.AST, root: str) -> bool:
    if isinstance(e, ast.Name):
        return e.id == root
    if isinstance(e, ast.IfExp):
        return _is_root_path(e.body, root) or _is_root_path(e.orelse, root)
    if isinstance(e, ast.BoolOp):
        return any(_is_root_path(v, root) for v in e.values)
    k = _keyed(e)
    return k is not None and _is_root_path(k[0], root)


def _fn_at(mod, line: int, default: str) -> str:
    best = None
    for n in ast.walk(mod.tree):
        if isinstance(n, FuncNode) and n.lineno <= line <= (getattr(n, "end_lineno", n.lineno) or n.lineno):
            if best is None or n.lineno >= best.lineno:
                best = n
    return qualname_of(best) if best is not None else default


def block_location_rules(repo: Repo, R: Report, ppc, parser_fn: ast.AST, block_param: str, builder_mod) -> None:
    """Both sides hand *a* block of the loaded configuration to the same parser: it has to be the same block.  The value each
    side passes as the block is computed symbolically as an expression over the configuration mapping (locals substituted,
    helpers inlined / followed, if/else and early returns merged, with the conditions under which the parser call is
    reached) and the two expressions are compared on every shape of configuration: each key path either side reads is
    absent / null / an empty mapping / a non-empty mapping / something else."""
    r_bl = R.rule("C09-D1-block-location-agreement", "the configuration parser (parse_pipeline_config, the run path) and inspection (build_inspection_payload) locate the run-space block of a loaded configuration by the same lookup - same keys, same order of preference, same fallback condition: for every shape of configuration (each key either side reads absent / null / empty mapping / non-empty mapping / other) in which one side hands a non-empty mapping to the block parser, the other side hands over the mapping found under the same key path; otherwise `inspect` prints the spec id of another block than the launch plans from and records in run_space_start (or none at all)", 1)
    pmod, pfn = ppc
    keep = (parser_fn.name,)

    def is_target(mod, call: ast.Call) -> Optional[ast.AST]:
        if not any(f is parser_fn for _m, f in repo.resolve_call(mod, call)):
            return None
        b = _bind_args(parser_fn, call, skip_first=False)
        return b.get(block_param) if b else None

    def side(mod, fn: ast.AST, what: str):
        nf = normalize(repo, mod, fn, keep=keep)
        # private helpers of the module are inlined by the normal form; calls into other modules are followed only when
        # the parser call is not found without them or the located value is what such a call returns
        ex = _SymExec(repo, is_target, keep=keep)
        ex.run(mod, nf, {}, (), 0)
        if not ex.hits or any(isinstance(c, ast.Call) and any(isinstance(f, FuncNode) for _m, f in repo.resolve_call(m, c)) for _c, v, _call, m in ex.hits for c in ast.walk(v)):
            ex = _SymExec(repo, is_target, keep=keep)
            ex.run(mod, nf, {}, (), 2)
        if not ex.hits:
            raise AnalysisError(f"{what}: no call of the block parser {parser_fn.name} is reached from it")
        params = set(_params(nf))
        roots = {x.id for _c, v, _call, _m in ex.hits for x in ast.walk(v) if isinstance(x, ast.Name) and x.id in params}
        if len(roots) != 1:
            raise AnalysisError(f"{what}: the block handed to {parser_fn.name} is not read from one parameter ({sorted(roots)})")
        root = next(iter(roots))
        for m in ex.mutations:
            if m is not None and _is_root_path(m, root):
                raise AnalysisError(f"{what}: writes into the configuration mapping (`{norm(m)[:50]}`) before locating the run-space block - not modelled")
        return ex.hits, root

    hits_r, root_r = side(pmod, pfn, f"{pmod.rel}:{qualname_of(pfn)}")
    bip = repo.func(BUILDER, "build_inspection_payload")
    hits_i, root_i = side(builder_mod, bip, f"{BUILDER}:build_inspection_payload")

    def paths_of(e: ast.AST, root: str) -> Set[Tuple]:
        out: Set[Tuple] = set()

        def path(x: ast.AST) -> Optional[Tuple]:
            if isinstance(x, ast.Name):
                return () if x.id == root else None
            k = _keyed(x)
            if k is None or not isinstance(k[1], str):
                return None
            p = path(k[0])
            return None if p is None else p + (k[1],)
        for x in ast.walk(e):
            p = path(x)
            if p:
                out.add(p)
            if isinstance(x, ast.Compare) and len(x.ops) == 1 and isinstance(x.ops[0], (ast.In, ast.NotIn)) and isinstance(x.left, ast.Constant) and isinstance(x.left.value, str):
                p = path(x.comparators[0])
                if p is not None:
                    out.add(p + (x.left.value,))
        return out
    # a condition on keys that neither side's block expression reads (the execution / trace sections ...) is independent of
    # where the block is found: only the conditions that share a key path with the located values are evaluated
    value_paths = {p for hits, root in ((hits_r, root_r), (hits_i, root_i)) for _c, v, _call, _m in hits for p in paths_of(v, root)}
    if not value_paths:
        raise AnalysisError("block location: the block handed to the parser is not read out of the configuration mapping by constant keys")

    hits_r = [(tuple(ct for ct in conds if paths_of(ct[0], root_r) & value_paths), v, call, m) for conds, v, call, m in hits_r]
    hits_i = [(tuple(ct for ct in conds if paths_of(ct[0], root_i) & value_paths), v, call, m) for conds, v, call, m in hits_i]

    def outcome(sev: _ShapeEval, hits):
        maybe = None
        for conds, v, call, m in hits:
            reach: Optional[bool] = True
            try:
                for t, truth in conds:
                    r = sev.tv(t)
                    if r is None:
                        reach = None
                    elif r != truth:
                        reach = False
                        break
            except _EvalErr:
                reach = False
            if reach is False:
                continue
            try:
                val = sev.ev(v)
            except _EvalErr:
                val = ("err",)
            if reach is True:
                return (True, val, v, call, m)
            if maybe is None:
                maybe = (None, val, v, call, m)
        return maybe or (False, None, None, None, None)

    def compute(assign):
        rr = outcome(_ShapeEval(root_r, assign), hits_r)
        if rr[0] is False or rr[1] == ("err",):
            return None  # the run path rejects this configuration: nothing to compare with
        return rr, outcome(_ShapeEval(root_i, assign), hits_i)

    def block_of(o) -> Optional[Tuple]:
        return o[1][1] if o[0] is not False and o[1] is not None and o[1][0] == "v" and o[1][2] == "nemap" else None

    unknown: List[ast.AST] = []
    witnesses: List[Tuple] = []
    n = 0
    for assign, out in _enumerate_shapes(compute):
        if out is None:
            continue
        n += 1
        rr, ri = out
        u = [o[1][1] for o in (rr, ri) if o[0] is not False and o[1] is not None and o[1][0] == "u"]
        if u:
            unknown.extend(u)
            continue
        br, bi = block_of(rr), block_of(ri)
        if (br is not None or bi is not None) and br != bi:
            witnesses.append((assign, rr, ri, br, bi))
    if n == 0:
        raise AnalysisError("block location: no configuration shape reaches the block parser on the run path")

    def show_path(p: Optional[Tuple]) -> str:
        if p is None:
            return "no block"
        return "`" + ".".join(str(x) for x in p) + "`" if p[:1] != ("#",) else "a mapping built in place"
    stmt = "the run-space block handed to the block parser is found under the same keys on both sides"
    qn_i = "build_inspection_payload"
    if witnesses:
        assign, rr, ri, br, bi = min(witnesses, key=lambda w: (0 if w[3] is not None and w[4] is not None else 1, sum(1 for v in w[0].values() if v in ("falsy", "none", "emap")),
                                                               sum(1 for v in w[0].values() if v != "absent"), len(w[0]), sorted(w[0].items())))
        shape = ", ".join(f"`{'.'.join(k)}` {_ABS_WORDS[v]}" for k, v in sorted(assign.items()) if v != "absent" or len(k) == 1)
        # the lookup inspection ends up with (or the one it lacks)
        loc_expr = ri[2] if ri[2] is not None else hits_i[0][1]
        imod = ri[4] or hits_i[0][3] or builder_mod
        line = getattr(ri[3] if ri[3] is not None else hits_i[0][2], "lineno", None) or bip.lineno
        want = (bi or br)[-1]
        ks = [x for x in ast.walk(loc_expr) if (_keyed(x) or (None, None))[1] == want and hasattr(x, "lineno")]
        if ks:
            line = max(x.lineno for x in ks)
            stmt = f"run-space block lookup `{norm(max(ks, key=lambda x: x.lineno))[:90]}`"
        else:
            stmt = f"run-space block located as `{norm(loc_expr)[:90]}`"
        qn_i = _fn_at(imod, line, qn_i)
        R.violation(r_bl, imod.rel, qn_i, stmt,
                    f"for a configuration with {shape}: the run path ({pmod.rel}:{getattr(rr[3], 'lineno', pfn.lineno)}) parses {show_path(br)} "
                    f"(`{norm(rr[2])[:80]}`) while inspection hashes {show_path(bi)}: `semantiva inspect` prints "
                    f"{'no run-space spec id' if bi is None else 'the spec id of another block'} for a file whose launch plans from - and records in run_space_start the id of - {show_path(br) if br is not None else 'the default (empty) run space'}",
                    line)
        return
    if unknown:
        raise AnalysisError(f"block location: the value of `{norm(unknown[0])[:80]}` is not decided by the lookup model (.get / [..] / is None / isinstance / in / or-defaults)")
    R.ok(r_bl, BUILDER, qn_i, stmt)


# ------------------------------------------------------------- D2 a declared run space is executed as a launch

_U, _T, _F = "U", "T", "F"


class _ActVal:
    __slots__ = ("truth", "tag")

    def __init__(self, truth, tag=None):
        self.truth, self.tag = frozenset(truth), tag

    def __eq__(self, o):
        return isinstance(o, _ActVal) and self.truth == o.truth and self.tag == o.tag

    def __hash__(self):
        return hash((self.truth, self.tag))


class _Activation:
    """Abstract run of _run on ONE scenario: the loaded configuration declares a run-space block under the top-level key the
    parser reads it from, the block carries nothing beyond defaults (every field of the parsed block has its schema
    default), and the command line may or may not carry any option.  Values are sets of truth values {T, F} plus U (not
    decided by this model), with a role tag for the objects the scenario talks about: the argparse namespace, the object the
    configuration parser returns, its raw-mapping attribute, its parsed run-space attribute.  Structured interpretation:
    an `if` on a decided test takes that arm, on a free test (command line) joins both arms, on an undecided test makes
    every name the arms disagree on undecided."""

    def __init__(self, repo: Repo, mod, args_param: str, is_parse_call, raw_attrs: Set[str], parsed_attr: str, field_truth, top_keys: Set[str]):
        self.repo, self.mod, self.args_param, self.is_parse_call = repo, mod, args_param, is_parse_call
        self.raw_attrs, self.parsed_attr, self.field_truth, self.top_keys = raw_attrs, parsed_attr, field_truth, top_keys
        self.watch: Dict[int, Set[str]] = {}
        self.falsy_reads: List[ast.AST] = []
        self.loop_exits: List[List[dict]] = []
        self.frames: List[dict] = []
        self.uctl = 0

    # ---- values
    U = _ActVal({_U})

    def join(self, a: Optional[dict], b: Optional[dict], undecided: bool = False) -> Optional[dict]:
        if a is None:
            return b
        if b is None:
            return a
        out = {}
        for k in set(a) | set(b):
            va, vb = a.get(k), b.get(k)
            if va is None or vb is None:
                out[k] = va or vb
            elif va == vb:
                out[k] = va
            elif undecided:
                out[k] = self.U
            else:
                out[k] = _ActVal(va.truth | vb.truth, va.tag if va.tag == vb.tag else None)
        return out

    @staticmethod
    def _or(a, b):
        return {(_T if _T in (x, y) else _U if _U in (x, y) else _F) for x in a for y in b}

    @staticmethod
    def _and(a, b):
        return {(_F if _F in (x, y) else _U if _U in (x, y) else _T) for x in a for y in b}

    @staticmethod
    def _not(a):
        return {(_F if x == _T else _T if x == _F else _U) for x in a}

    def ev(self, e: Optional[ast.AST], env: dict) -> _ActVal:
        U = self.U
        if e is None:
            return U
        if isinstance(e, ast.Constant):
            if e.value is None:
                return _ActVal({_F}, "NONE")
            return _ActVal({_T} if e.value else {_F})
        if isinstance(e, (ast.Dict, ast.List, ast.Tuple, ast.Set)):
            n = len(e.keys) if isinstance(e, ast.Dict) else len(e.elts)
            return _ActVal({_T} if n else {_F})
        if isinstance(e, ast.Name):
            if e.id in env:
                return env[e.id]
            return _ActVal({_T}, "ARGS") if e.id == self.args_param else U
        if isinstance(e, ast.NamedExpr):
            v = self.ev(e.value, env)
            if isinstance(e.target, ast.Name):
                env[e.target.id] = v
            return v
        if isinstance(e, ast.Attribute):
            b = self.ev(e.value, env)
            if b.tag in ("ARGS", "ARGV"):
                return _ActVal({_T, _F}, "ARGV")
            if b.tag == "CFGOBJ":
                if e.attr in self.raw_attrs:
                    return _ActVal({_T}, "RAW")
                if e.attr == self.parsed_attr:
                    return _ActVal({_T}, "PARSED")
                return U
            if b.tag == "PARSED":
                t = self.field_truth(e.attr)
                if t is False:
                    self.falsy_reads.append(e)
                return U if t is None else _ActVal({_T} if t else {_F})
            return U
        if isinstance(e, ast.UnaryOp) and isinstance(e.op, ast.Not):
            return _ActVal(self._not(self.ev(e.operand, env).truth))
        if isinstance(e, ast.BoolOp):
            vals = [self.ev(v, env) for v in e.values]
            acc = vals[0].truth
            for v in vals[1:]:
                acc = self._or(acc, v.truth) if isinstance(e.op, ast.Or) else self._and(acc, v.truth)
            return _ActVal(acc)
        if isinstance(e, ast.IfExp):
            t = self.ev(e.test, env).truth
            if t == {_T}:
                return self.ev(e.body, env)
            if t == {_F}:
                return self.ev(e.orelse, env)
            a, b = self.ev(e.body, env), self.ev(e.orelse, env)
            if a == b:
                return a
            return U if _U in t else _ActVal(a.truth | b.truth, a.tag if a.tag == b.tag else None)
        if isinstance(e, ast.Compare) and len(e.ops) == 1:
            op, l, r = e.ops[0], e.left, e.comparators[0]
            if isinstance(op, (ast.In, ast.NotIn)):
                rv = self.ev(r, env)
                if rv.tag == "RAW" and isinstance(l, ast.Constant) and l.value in self.top_keys:
                    return _ActVal({_T} if isinstance(op, ast.In) else {_F})
                return U
            if isinstance(op, (ast.Is, ast.IsNot)) and _is_none(r):
                lv = self.ev(l, env)
                res = {_T} if lv.tag == "NONE" else {_F} if lv.truth == {_T} else {_T, _F} if lv.tag == "ARGV" else {_U}
                return _ActVal(res if isinstance(op, ast.Is) else self._not(res))
            lv = self.ev(l, env)
            if lv.tag == "LEN" and isinstance(r, ast.Constant) and type(r.value) is int:  # len(x) compared with 0 / 1: the truth of x
                pos = {(ast.Gt, 0): True, (ast.NotEq, 0): True, (ast.GtE, 1): True, (ast.Eq, 0): False, (ast.Lt, 1): False, (ast.LtE, 0): False}.get((type(op), r.value))
                if pos is not None:
                    return _ActVal(lv.truth if pos else self._not(lv.truth))
            vs = [self.ev(x, env) for x in (l, r)]
            if all(v.tag == "ARGV" or isinstance(x, ast.Constant) for v, x in zip(vs, (l, r))):
                return _ActVal({_T, _F})
            return U
        if isinstance(e, ast.Call):
            nm = call_name(e) or ""
            if self.is_parse_call(e):
                return _ActVal({_U}, "CFGOBJ")
            if nm == "isinstance" and len(e.args) == 2:
                a = self.ev(e.args[0], env)
                kinds = {dotted_name(x) for x in (e.args[1].elts if isinstance(e.args[1], ast.Tuple) else [e.args[1]])}
                if a.tag == "RAW" and kinds and kinds <= {"dict", "Mapping", "MutableMapping", "collections.abc.Mapping", "abc.Mapping", "typing.Mapping"}:
                    return _ActVal({_T})
                if a.tag == "NONE":
                    return _ActVal({_F})
                return U
            if nm == "bool" and len(e.args) == 1:
                return _ActVal(self.ev(e.args[0], env).truth)
            if nm == "len" and len(e.args) == 1:
                return _ActVal(self.ev(e.args[0], env).truth, "LEN")
            if nm in ("dict", "copy.copy", "copy.deepcopy", "copy", "deepcopy") and len(e.args) == 1 and not e.keywords:
                a = self.ev(e.args[0], env)
                return a if a.tag == "RAW" else U
            if isinstance(e.func, ast.Attribute) and e.func.attr == "get" and e.args:
                b = self.ev(e.func.value, env)
                if b.tag == "RAW" and isinstance(e.args[0], ast.Constant) and e.args[0].value in self.top_keys:
                    return _ActVal({_T})
                return U
            if nm == "getattr" and e.args and self.ev(e.args[0], env).tag == "ARGS":
                return _ActVal({_T, _F}, "ARGV")
            # a helper of the same module: run it on the abstract arguments, its value is the join of what it returns
            tg = [f for m, f in self.repo.resolve_call(self.mod, e) if m is self.mod and isinstance(f, FuncNode)]
            if len(tg) == 1 and len(self.frames) < 3 and not isinstance(e.func, ast.Attribute):
                b = _bind_args(tg[0], e, skip_first=False)
                if b is not None:
                    env2 = {p: self.ev(a, env) for p, a in b.items()}
                    self.frames.append({"rets": [], "taint": False})
                    saved, self.loop_exits = self.loop_exits, []
                    try:
                        end = self.block(tg[0].body, env2)
                    finally:
                        self.loop_exits = saved
                        fr = self.frames.pop()
                    rets = list(fr["rets"]) + ([_ActVal({_F}, "NONE")] if end is not None else [])
                    if rets and all(r == rets[0] for r in rets):
                        return rets[0]
                    if rets:
                        tr = frozenset().union(*[r.truth for r in rets])
                        return _ActVal(tr | ({_U} if fr["taint"] else frozenset()))
            return U
        if isinstance(e, ast.Subscript):
            b = self.ev(e.value, env)
            if b.tag == "RAW" and isinstance(e.slice, ast.Constant) and e.slice.value in self.top_keys:
                return _ActVal({_T})
            return U
        return U

    # ---- statements
    def block(self, stmts: List[ast.AST], env: Optional[dict]) -> Optional[dict]:
        for st in stmts:
            if env is None:
                return None
            env = self.stmt(st, env)
        return env

    def stmt(self, st: ast.AST, env: dict) -> Optional[dict]:
        if isinstance(st, ast.Return) and self.frames:
            fr = self.frames[-1]
            fr["rets"].append(self.U if (fr["taint"] or self.uctl) else self.ev(st.value, env) if st.value is not None else _ActVal({_F}, "NONE"))
            return None
        if isinstance(st, (ast.Return, ast.Raise)):
            return None
        if isinstance(st, (ast.Break, ast.Continue)):
            if self.loop_exits:
                self.loop_exits[-1].append(env)
            return None
        if isinstance(st, (ast.Assign, ast.AnnAssign)):
            if st.value is None:
                return env
            env = dict(env)
            v = self.ev(st.value, env)
            for t in (st.targets if isinstance(st, ast.Assign) else [st.target]):
                if isinstance(t, ast.Name):
                    env[t.id] = v
                else:
                    for x in ast.walk(t):
                        if isinstance(x, ast.Name) and isinstance(x.ctx, ast.Store):
                            env[x.id] = self.U
            return env
        if isinstance(st, ast.AugAssign):
            env = dict(env)
            if isinstance(st.target, ast.Name):
                env[st.target.id] = self.U
            return env
        if isinstance(st, ast.If):
            t = self.ev(st.test, env).truth
            if id(st) in self.watch:
                self.watch[id(st)] |= set(t)
            env = dict(env)  # assignment expressions in the test
            und = _U in t
            self.uctl += 1 if und else 0
            try:
                a = self.block(st.body, dict(env)) if t != {_F} else None
                b = self.block(st.orelse, dict(env)) if t != {_T} else None
            finally:
                self.uctl -= 1 if und else 0
            if und and self.frames and (a is None or b is None):
                self.frames[-1]["taint"] = True  # what is returned later depends on an undecided test
            return self.join(a, b, undecided=und)
        if isinstance(st, (ast.For, ast.AsyncFor, ast.While)):
            cur = dict(env)
            self.loop_exits.append([])
            for _ in range(2):
                start = dict(cur)
                if not isinstance(st, ast.While):
                    for x in ast.walk(st.target):
                        if isinstance(x, ast.Name):
                            start[x.id] = self.U
                end = self.block(st.body, start)
                cur = self.join(cur, end)
            for e2 in self.loop_exits.pop():
                cur = self.join(cur, e2)
            return self.block(st.orelse, cur) if st.orelse else cur
        if isinstance(st, (ast.With, ast.AsyncWith)):
            env = dict(env)
            for it in st.items:
                if it.optional_vars is not None:
                    for x in ast.walk(it.optional_vars):
                        if isinstance(x, ast.Name):
                            env[x.id] = self.U
            return self.block(st.body, env)
        if isinstance(st, ast.Try):
            body_end = self.block(st.body, dict(env))
            at_raise = self.join(dict(env), body_end)  # a handler starts from some state between the two
            outs = [self.block(st.orelse, body_end) if st.orelse and body_end is not None else body_end]
            for h in st.handlers:
                hs = dict(at_raise)
                if h.name:
                    hs[h.name] = self.U
                outs.append(self.block(h.body, hs))
            res = None
            for o in outs:
                res = self.join(res, o)
            if st.finalbody:
                if res is None:
                    self.block(st.finalbody, dict(at_raise))
                    return None
                return self.block(st.finalbody, res)
            return res
        if isinstance(st, ast.Expr):
            self.ev(st.value, env)  # assignment expressions
            return env
        if isinstance(st, ast.Match):
            res = None
            for c in st.cases:
                res = self.join(res, self.block(c.body, dict(env)), undecided=True)
            return self.join(res, env, undecided=True)
        return env


def launch_activation_rules(repo: Repo, R: Report, ppc, pnf: ast.AST, block_arg: ast.AST, ctor_hits: List[Tuple[ast.Call, Tuple]]) -> None:
    """A configuration that declares a run space is executed as a launch.  Decided on one scenario (see _Activation): the test(s)
    the creation of the launch in _run depends on must hold when the loaded mapping has the block under the top-level key the
    configuration parser reads it from - whatever the block contains."""
    r_la = R.rule("C09-D2-launch-activation", "whether _run executes a configuration as a run-space launch (creates the launch, and with it run_space_start / run_space_end and the launch id, attempt, index and context on every pipeline_start) is decided by whether the configuration declares a run-space block (or the command line supplies one), not by what the block contains: evaluated for a configuration that has the block under the top-level key the configuration parser reads it from and leaves every field of the parsed block at its schema default (no blocks, no dry run), with the command line free, every test the create_launch call depends on holds.  Such a block still plans a run (one, from --context alone); executed as a plain run it leaves no run_space_start / run_space_end in the trace and no linkage on pipeline_start, while `inspect` prints a run-space spec id for it", 1)
    pmod, pfn = ppc
    cfg_param = next(iter(_params(pnf)), None)
    top_keys = {k for o in _origins(pnf, block_arg) for kd in [_keyed(o)] if kd is not None and isinstance(kd[0], ast.Name) and kd[0].id == cfg_param and isinstance(kd[1], str) for k in [kd[1]]}
    if not top_keys:
        raise AnalysisError(f"{pmod.rel}:{qualname_of(pfn)}: the top-level key the run-space block is read from was not found")
    # the attribute of the returned object that holds the loaded mapping: the constructor parameter bound to (a copy of) it
    raw_attrs: Set[str] = set()
    for c, r in ctor_hits:
        init = repo.method(r[0], r[1], "__init__")
        if init is not None and isinstance(init[1], FuncNode):
            b = _bind_args(init[1], c, skip_first=True)
            pos = init[1].args.posonlyargs + init[1].args.args
            if b is None or not pos:
                continue
            holders = {p for p, a in b.items() if any(dotted_name(_copied_operand(o) if _copied_operand(o) is not None else o) == cfg_param for o in _origins(pnf, a))}
            for attr, vals in _object_stores(repo, init[0], init[1], pos[0].arg, r).items():
                if any(isinstance(x, ast.Name) and x.id in holders for v in vals for x in ast.walk(v)):
                    raw_attrs.add(attr)
        else:
            raw_attrs |= {k.arg for k in c.keywords if k.arg and any(dotted_name(_copied_operand(o) if _copied_operand(o) is not None else o) == cfg_param for o in _origins(pnf, k.value))}
    run_nf = nfunc(repo, CLI, "_run")
    cli_mod = repo.module(CLI)
    creates = [c for c in calls_in(run_nf) if call_attr(c) == "create_launch"]
    if len(creates) != 1:
        raise AnalysisError(f"_run: expected one create_launch call, found {len(creates)}")
    guards = [(a, any(creates[0] is x for s in a.body for x in ast.walk(s))) for a in ancestors(creates[0]) if isinstance(a, ast.If)]
    if not guards:
        R.ok(r_la, CLI, "_run", "create_launch(...) is unconditional")
        return
    # the class of the parsed block: what the block parser (the function whose result becomes `.run_space`) is annotated to
    # return / constructs; its field defaults
    defaults: Dict[str, Optional[bool]] = {}
    comp = [o for c in calls_in(run_nf) if call_attr(c) == "asdict" and len(c.args) == 1 for o in ([c.args[0]] if isinstance(c.args[0], ast.Attribute) else _origins(run_nf, c.args[0])) if isinstance(o, ast.Attribute)]
    parsed_attrs = {o.attr for o in comp if any(isinstance(v, ast.Call) and any(f is pfn for _m, f in repo.resolve_call(cli_mod, v)) for v in _origins(run_nf, o.value))}
    if len(parsed_attrs) != 1:
        raise AnalysisError(f"_run: the attribute of the parsed configuration that is hashed (asdict(<cfg>.<attr>)) was not found ({sorted(parsed_attrs)})")
    parsed_attr = next(iter(parsed_attrs))
    pcls = None
    for c, r in ctor_hits:
        init = repo.method(r[0], r[1], "__init__")
        if init is not None and isinstance(init[1], FuncNode):
            for a in init[1].args.posonlyargs + init[1].args.args + init[1].args.kwonlyargs:
                pos = init[1].args.posonlyargs + init[1].args.args
                stored = _object_stores(repo, init[0], init[1], pos[0].arg, r).get(parsed_attr, []) if pos else []
                if a.annotation is not None and any(isinstance(x, ast.Name) and x.id == a.arg for v in stored for x in ast.walk(v)):
                    for x in ast.walk(a.annotation):
                        rr = repo.resolve_name(init[0], x) if isinstance(x, ast.Name) else None
                        if rr is not None and isinstance(rr[1], ast.ClassDef):
                            pcls = rr
    if pcls is not None:
        for _m, c in reversed(repo.mro(pcls[0], pcls[1])):
            for st in c.body:
                if isinstance(st, ast.AnnAssign) and isinstance(st.target, ast.Name):
                    v, t = st.value, None
                    if isinstance(v, ast.Constant):
                        t = bool(v.value)
                    elif isinstance(v, ast.Call) and call_name(v) in ("field", "dataclasses.field"):
                        fac, dv = kwarg(v, "default_factory"), kwarg(v, "default")
                        if fac is not None and dotted_name(fac) in ("list", "dict", "set", "tuple", "frozenset"):
                            t = False
                        elif isinstance(dv, ast.Constant):
                            t = bool(dv.value)
                    elif isinstance(v, (ast.List, ast.Dict, ast.Tuple, ast.Set)):
                        t = bool(v.elts if not isinstance(v, ast.Dict) else v.keys)
                    defaults[st.target.id] = t

    def is_parse_call(c: ast.Call) -> bool:
        return any(f is pfn for _m, f in repo.resolve_call(cli_mod, c))
    args_param = next(iter(_params(run_nf)), "args")
    act = _Activation(repo, cli_mod, args_param, is_parse_call, raw_attrs, parsed_attr, lambda a: defaults.get(a), top_keys)
    act.watch = {id(a): set() for a, _b in guards}
    act.block(run_nf.body, {})
    key = sorted(top_keys)[0]
    for a, in_body in guards:
        seen = act.watch[id(a)]
        if not seen:
            raise AnalysisError(f"_run: the test `{norm(a.test)[:60]}` guarding create_launch is not reached in the scenario `{key}: <block with defaults only>`")
        wrong = _F if in_body else _T
        if wrong in seen:
            why = act.falsy_reads[0] if act.falsy_reads else None
            R.violation(r_la, CLI, "_run", f"if {norm(a.test)[:80]}: ... create_launch(...)",
                        f"for a configuration that declares `{key}:` with nothing but defaults in it (no blocks; one planned run) and no run-space option on the command line, `{norm(a.test)[:60]}` is {'false' if in_body else 'true'}"
                        + (f" - it depends on the content of the parsed block (`{norm(why)[:60]}`, line {getattr(why, 'lineno', '?')}), which is empty for such a block" if why is not None else "")
                        + ": no launch is created, so the run is executed as a plain run - no run_space_start / run_space_end, no launch id / attempt / index / context on pipeline_start (--run-space-launch-id and --run-space-attempt are ignored) - while `semantiva inspect` prints a run-space spec id for the same file",
                        a.lineno)
        elif _U in seen:
            raise AnalysisError(f"_run: whether `{norm(a.test)[:60]}` (guarding create_launch) holds for a declared run-space block is not decided by the activation model")
        else:
            R.ok(r_la, CLI, "_run", f"if {norm(a.test)[:80]}: ... create_launch(...)")


# ----------------------------------------------------------------------------------------- D2 launch bracket

def launch_bracket_rules(repo: Repo, R: Report, run_nf: ast.AST):
    r_br = R.rule("C09-D2-launch-bracket", "after emit_start every exit of _run passes exactly one emit_end for the same (launch id, attempt), carrying planned_runs = number of planned runs and completed_runs = a counter incremented once per iteration after pipeline.process returned; a non-success exit sets status", 7)

    def has_call(node: ast.AST, attr: str) -> bool:
        return any(call_attr(c) == attr for c in calls_in(node))

    # roles: the emitter (receiver of emit_start / emit_end), the launch (result of create_launch), names holding launch.id
    emitters = {c.func.value.id for c in calls_in(run_nf) if call_attr(c) in ("emit_start", "emit_end") and isinstance(c.func, ast.Attribute) and isinstance(c.func.value, ast.Name)}
    launches: Set[str] = set()
    for n in walk_no_nested(run_nf):
        if isinstance(n, (ast.Assign, ast.AnnAssign)) and isinstance(n.value, ast.Call) and call_attr(n.value) == "create_launch":
            for t in (n.targets if isinstance(n, ast.Assign) else [n.target]):
                if isinstance(t, ast.Name):
                    launches.add(t.id)
    if len(launches) != 1:
        raise AnalysisError(f"_run: expected one `<launch> = ...create_launch(...)`, found {sorted(launches)}")
    launch = next(iter(launches))

    def is_launch_attr(e: Optional[ast.AST], attr: str) -> bool:
        vals = _origins(run_nf, e)
        return bool(vals) and all(isinstance(v, ast.Attribute) and v.attr == attr and isinstance(v.value, ast.Name) and v.value.id == launch for v in vals)

    id_names = {x.id for n in walk_no_nested(run_nf) if isinstance(n, (ast.Assign, ast.AnnAssign)) and n.value is not None
                for t in (n.targets if isinstance(n, ast.Assign) else [n.target]) for x in ast.walk(t) if isinstance(x, ast.Name) and isinstance(x.ctx, ast.Store) and is_launch_attr(x, "id")}

    def may_raise(part: ast.AST) -> Set[str]:
        for n in walk_no_nested(part):
            if isinstance(n, ast.Raise):
                return {EXC}
            if isinstance(n, ast.Call):
                d = call_name(n) or ""
                if d == "print" or d.split(".")[0] in ({"logger"} | emitters) or d in ("isinstance", "len", "dict", "repr", "enumerate", "sorted"):
                    continue
                return {EXC, BASE}
        return set()

    # pass 1 (nothing folded): which names are certainly not None once emit_start has run and are not rebound afterwards
    g0 = CFG(run_nf, may_raise=may_raise)
    starts0 = [n for n in g0.nodes if n.kind == "stmt" and n.ast is not None and has_call(n.ast, "emit_start")]
    if len(starts0) != 1:
        raise AnalysisError(f"_run: expected one emit_start site, found {len(starts0)}")
    start_call = next(c for c in calls_in(starts0[0].ast) if call_attr(c) == "emit_start")
    after0 = g0.reach([t for t, lab in g0.succ[starts0[0].id] if lab == "n"])

    def stores(n, name: str) -> bool:
        a = n.ast
        if a is None or n.kind not in ("stmt", "for", "with", "except"):
            return False
        if n.kind == "except":
            return getattr(a, "name", None) == name
        tgt = a.targets if isinstance(a, ast.Assign) else [a.target] if isinstance(a, (ast.AnnAssign, ast.AugAssign, ast.For)) else []
        return any(isinstance(x, ast.Name) and x.id == name for t in tgt for x in ast.walk(t))

    known: Set[str] = set()
    for nm in sorted(emitters | id_names):
        if any(stores(g0.nodes[i], nm) for i in after0):
            continue  # rebound after the start record: nothing is known about it in the finally block
        if nm in emitters and isinstance(start_call.func.value, ast.Name) and start_call.func.value.id == nm:
            known.add(nm)  # emit_start was just called on it
        elif nm in id_names:
            defs = reaching_defs(g0, nm, starts0[0].id)
            if defs and all(_value_for(d.ast, nm) and all(is_launch_attr(v, "id") for v in _value_for(d.ast, nm)) for d in defs):
                known.add(nm)

    def fold(test: ast.AST) -> Optional[bool]:
        names = {x.id for x in ast.walk(test) if isinstance(x, ast.Name)}
        if names and names <= known and not any(isinstance(x, ast.Call) for x in ast.walk(test)):
            return _orch.make_fold(names)(test)
        return None

    g = CFG(run_nf, fold=fold, may_raise=may_raise)

    def has(n, attr) -> bool:
        return n.ast is not None and n.kind == "stmt" and has_call(n.ast, attr)
    starts = [n for n in g.nodes if has(n, "emit_start")]
    ends = [n for n in g.nodes if has(n, "emit_end")]
    if len(starts) != 1:
        raise AnalysisError(f"_run: expected one emit_start site, found {len(starts)}")
    after = [t for t, lab in g.succ[starts[0].id] if lab == "n"]
    cnt = g.counts(after, lambda n: has(n, "emit_end"), count_start=True)
    for label, ex in (("return", g.ret_exit), ("raise(Exception)", g.exc_exit), ("raise(BaseException)", g.base_exit)):
        got = cnt.get(ex)
        if got is None:
            R.ok(r_br, CLI, "_run", f"emit_end on exit {label}", "exit unreachable after emit_start")
            continue
        path = None
        if got != {1}:
            seen = g.reach(after, blocked={n.id for n in ends})
            path = g.path_to(seen, ex) if ex in seen else None
        R.check(got == {1}, r_br, CLI, "_run", f"emit_end on exit {label}", f"after run_space_start, run_space_end is emitted {sorted(got)} time(s) on paths to {label}", starts[0].line, path)
    # emit_start precedes the first run; exactly once (not inside the loop)
    proc = [n for n in g.nodes if has(n, "process")]
    if len(proc) != 1:
        raise AnalysisError("_run: pipeline.process site not found")
    loop = next((a for a in ancestors(proc[0].ast) if isinstance(a, ast.For)), None)
    if loop is None:
        raise AnalysisError("_run: run loop not found")
    R.check(not any(a is loop for a in ancestors(starts[0].ast)) and proc[0].id in g.reach([starts[0].id]), r_br, CLI, "_run", "emit_start once, before the run loop", "run_space_start is emitted inside / after the run loop", starts[0].line)
    # start and end name the same launch: (launch.id, launch.attempt) of the one create_launch result
    end_call = next(c for c in calls_in(ends[0].ast) if call_attr(c) == "emit_end") if ends else None
    def launch_attr_after_start(e: Optional[ast.AST], attr: str) -> bool:
        # a local read after emit_start: its definitions reaching emit_start are all `launch.<attr>` and it is not rebound later
        if isinstance(e, ast.Name) and _assigned(run_nf, e.id):
            defs = reaching_defs(g0, e.id, starts0[0].id)
            return bool(defs) and not any(stores(g0.nodes[i], e.id) for i in after0) and all(_value_for(d.ast, e.id) and all(is_launch_attr(v, attr) for v in _value_for(d.ast, e.id)) for d in defs)
        return is_launch_attr(e, attr)
    same = end_call is not None and all(launch_attr_after_start(kwarg(c, k), a) for c in (start_call, end_call) for k, a in (("run_space_launch_id", "id"), ("run_space_attempt", "attempt")))
    R.check(same, r_br, CLI, "_run", "emit_start / emit_end carry (launch.id, launch.attempt) of the created launch", "run_space_start and run_space_end are not keyed by the id and attempt of the launch create_launch returned: the bracket does not close / the attempt is untruthful", ends[0].line if ends else starts[0].line)
    # summary counts
    summ = kwarg(end_call, "summary") if end_call is not None else None
    lit = next((v for v in _origins(run_nf, summ) if isinstance(v, ast.Dict)), None)
    keys = {k.value: v for k, v in zip(lit.keys, lit.values) if isinstance(k, ast.Constant)} if lit is not None else {}
    planned, completed = keys.get("planned_runs"), keys.get("completed_runs")
    plan = _loop_plan(run_nf, loop)
    it = plan[0] if plan is not None else loop.iter.args[0] if isinstance(loop.iter, ast.Call) and loop.iter.args else loop.iter
    pl_defs = _origins(run_nf, planned)
    ok_planned = bool(pl_defs) and all(isinstance(v, ast.Call) and call_attr(v) == "len" and len(v.args) == 1 and _same(v.args[0], it) for v in pl_defs)
    R.check(ok_planned, r_br, CLI, "_run", "summary.planned_runs = len(runs)", "planned_runs is not the length of the list the loop iterates", ends[0].line if ends else 0)
    cname = completed.id if isinstance(completed, ast.Name) else None

    def plus_one(v: ast.AST) -> bool:  # `c + 1` / `1 + c`
        return isinstance(v, ast.BinOp) and isinstance(v.op, ast.Add) and any(
            isinstance(a, ast.Name) and a.id == cname and isinstance(b, ast.Constant) and type(b.value) is int and b.value == 1 for a, b in ((v.left, v.right), (v.right, v.left)))

    def increments(a: Optional[ast.AST]) -> bool:  # `c += 1` or `c = c + 1`
        if isinstance(a, ast.AugAssign):
            return dotted_name(a.target) == cname and isinstance(a.op, ast.Add) and isinstance(a.value, ast.Constant) and type(a.value.value) is int and a.value.value == 1
        return isinstance(a, (ast.Assign, ast.AnnAssign)) and bool(_value_for(a, cname)) and all(plus_one(v) for v in _value_for(a, cname))
    incs = [n for n in g.nodes if cname and n.kind == "stmt" and increments(n.ast)]
    inits = [v for v in _assigned(run_nf, cname) if not plus_one(v)] if cname else []
    ok_c = cname is not None and len(incs) == 1 and len(inits) == 1 and isinstance(inits[0], ast.Constant) and inits[0].value == 0
    if ok_c:
        inc = incs[0]
        # once per iteration, after process returned normally: dominated by the normal edge of process, inside the loop,
        # and every normal path from process to the loop head passes it exactly once
        heads = g.nodes_for(loop)
        saved = {h: g.succ[h] for h in heads}
        for h in heads:
            g.succ[h] = []
        try:
            c2 = g.counts([t for t, lab in g.succ[proc[0].id] if lab == "n"], lambda n: n.id == inc.id, count_start=True)
        finally:
            for h, v in saved.items():
                g.succ[h] = v
        per_iter = set().union(*[c2.get(h, set()) for h in heads]) if heads else set()
        before = g.reach([inc.id], blocked=set(heads))
        ok_c = per_iter == {1} and proc[0].id not in before
    R.check(ok_c, r_br, CLI, "_run", "summary.completed_runs = counter (+1 after each successful process)", "completed_runs is not incremented exactly once per iteration after pipeline.process returned: the count is untruthful when a run fails", ends[0].line if ends else 0)
    # status on failure: the summary gets a status under a test on the variable the exception handlers of the run loop set
    outer_try = next((a for a in ancestors(loop) if isinstance(a, ast.Try)), None)
    handler_vars: Set[str] = set()
    if outer_try is not None:
        for h in outer_try.handlers:
            for n in walk_no_nested(h):
                if isinstance(n, ast.Assign):
                    handler_vars |= {t.id for t in n.targets if isinstance(t, ast.Name)}
    summ_name = dotted_name(summ) if summ is not None else None
    status_sets = [n for n in walk_no_nested(run_nf) if isinstance(n, ast.Assign) and any(isinstance(t, ast.Subscript) and summ_name and dotted_name(t.value) == summ_name and isinstance(t.slice, ast.Constant) and t.slice.value == "status" for t in n.targets)]
    # ... the test may read the handler variable directly or through locals derived from it (`status = ... if exit_code ...`)
    guarded = [s for s in status_sets if any(isinstance(a, ast.If) and _slice_names(run_nf, a.test) & handler_vars for a in ancestors(s))]
    R.check(len(guarded) >= 1 and len(outer_try.handlers if outer_try else []) >= 1, r_br, CLI, "_run", "summary.status set when the exit code is not success", "a failed/interrupted launch is not marked in run_space_end", ends[0].line if ends else 0)
    return g, loop, proc[0], (launch, is_launch_attr)


# ------------------------------------------------------------------------- D2b suppression state of the emitter

def emitter_state_rules(repo: Repo, R: Report) -> None:
    r_es = R.rule("C09-D2-emitter-state", "whatever lets RunSpaceTraceEmitter skip a record lives in the emitter instance (created in __init__) - no class-level or module-level container is consulted or filled, so a later launch with the same (launch id, attempt) still gets its run_space_start / run_space_end", 2)
    cls = repo.cls(EMITTER, "RunSpaceTraceEmitter")
    mod = repo.module(EMITTER)
    init = next((st for st in cls.body if isinstance(st, FuncNode) and st.name == "__init__"), None)
    if init is None:
        raise AnalysisError("RunSpaceTraceEmitter.__init__ vanished")
    self_name = init.args.args[0].arg if init.args.args else "self"
    init_params = set(_params(init)) - {self_name}
    inst: Dict[str, List[ast.AST]] = {}
    for n in walk_no_nested(nfunc(repo, EMITTER, "RunSpaceTraceEmitter.__init__")):  # normal form: state set up by a private helper of __init__ counts
        tgts = n.targets if isinstance(n, ast.Assign) else [n.target] if isinstance(n, ast.AnnAssign) and n.value is not None else []
        for t in tgts:
            if isinstance(t, ast.Attribute) and isinstance(t.value, ast.Name) and t.value.id == self_name:
                inst.setdefault(t.attr, []).append(n.value)
    class_level: Dict[str, ast.AST] = {}
    for st in cls.body:
        if isinstance(st, ast.Assign):
            for t in st.targets:
                if isinstance(t, ast.Name):
                    class_level[t.id] = st
        elif isinstance(st, ast.AnnAssign) and isinstance(st.target, ast.Name) and st.value is not None:
            class_level[st.target.id] = st
    module_level: Dict[str, ast.AST] = {}
    for st in mod.tree.body:
        tgts = st.targets if isinstance(st, ast.Assign) else [st.target] if isinstance(st, ast.AnnAssign) and st.value is not None else []
        for t in tgts:
            if isinstance(t, ast.Name):
                module_level[t.id] = st

    def fresh_or_param(v: ast.AST) -> bool:
        if isinstance(v, ast.Name):
            return v.id in init_params
        if isinstance(v, (ast.Dict, ast.List, ast.Set, ast.Tuple, ast.Constant, ast.ListComp, ast.SetComp, ast.DictComp)):
            return True
        if isinstance(v, ast.Call):
            return (call_name(v) or "").split(".")[-1] in FRESH_CTORS and all(fresh_or_param(a) for a in v.args)
        return False

    def mutable_value(st: ast.AST) -> bool:
        v = st.value
        return isinstance(v, (ast.Dict, ast.List, ast.Set, ast.ListComp, ast.SetComp, ast.DictComp)) or (isinstance(v, ast.Call) and (call_name(v) or "").split(".")[-1] in FRESH_CTORS)

    for meth in ("emit_start", "emit_end"):
        qual = f"RunSpaceTraceEmitter.{meth}"
        fn = nfunc(repo, EMITTER, qual)
        me = fn.args.args[0].arg if fn.args.args else "self"
        local_stores = {x.id for x in ast.walk(fn) if isinstance(x, ast.Name) and isinstance(x.ctx, ast.Store)} | set(_params(fn))
        seen_attr: Set[str] = set()
        for n in walk_no_nested(fn):
            if isinstance(n, ast.Global):
                R.violation(r_es, EMITTER, qual, norm(n), "run-space emission consults / fills module-level state that outlives the emitter", n.lineno)
            if isinstance(n, ast.Attribute) and isinstance(n.value, ast.Name) and n.value.id == me:
                a = n.attr
                if a in seen_attr or a == "__class__" or (a not in inst and a not in class_level and repo.method(mod, cls, a) is not None):
                    if a == "__class__":
                        R.violation(r_es, EMITTER, qual, norm(stmt_of(n)), "run-space emission goes through class-level state shared by every emitter of the process", n.lineno)
                    continue
                seen_attr.add(a)
                if a in inst:
                    ok = all(fresh_or_param(v) for v in inst[a])
                    R.check(ok, r_es, EMITTER, qual, f"self.{a} is per-emitter state set in __init__", f"`self.{a}` is bound in __init__ to an object that outlives the emitter (`{norm(inst[a][0])[:60]}`): a record suppressed for one launch stays suppressed for later launches of the process", n.lineno)
                else:
                    R.violation(r_es, EMITTER, qual, f"self.{a} is per-emitter state set in __init__",
                                f"`self.{a}` is not created per emitter in __init__ ({'class-level attribute shared by all emitters of the process' if a in class_level else 'never initialised'}): a second launch with the same (launch id, attempt) in this process loses its run_space_start / run_space_end", n.lineno)
            elif isinstance(n, ast.Attribute) and isinstance(n.value, ast.Name) and n.value.id == cls.name and n.attr in class_level:
                R.violation(r_es, EMITTER, qual, norm(stmt_of(n)), f"`{cls.name}.{n.attr}` is class-level state shared by every emitter of the process", n.lineno)
            elif isinstance(n, ast.Name) and isinstance(n.ctx, ast.Load) and n.id in module_level and n.id not in local_stores and mutable_value(module_level[n.id]):
                R.violation(r_es, EMITTER, qual, norm(stmt_of(n)), f"module-level container `{n.id}` is consulted / filled while emitting: it outlives the emitter, so records of a later launch are affected by earlier ones", n.lineno)
            elif isinstance(n, ast.Call) and call_name(n) == "type" and len(n.args) == 1 and isinstance(n.args[0], ast.Name) and n.args[0].id == me:
                R.violation(r_es, EMITTER, qual, norm(stmt_of(n)), "run-space emission goes through class-level state shared by every emitter of the process", n.lineno)


# ----------------------------------------------------- D5 hand-over: _run -> emitter -> driver -> written record
#
# The launch bracket (D2), the per-run linkage (D3) and the ids (D1, D4) are decided where the values are *computed*
# (cli._run, execute, the identity service).  They reach the trace only through two hand-overs: the emitter passes them
# to the driver, the driver stores them into the record it writes.  Both sides of each hand-over must agree that the
# value travels as it is: ids / attempt / index unchanged (and kept when they are 0), the end summary entry by entry,
# the run context key by key.

_LEVEL = {"same": 0, "copy": 1, "keywise": 2, "other": 3}
JSONL_DRIVER_METHODS = ("on_pipeline_start", "on_run_space_start", "on_run_space_end")


def _is_empty(e: Optional[ast.AST]) -> bool:
    """None / an empty container: what stands for 'nothing handed over'."""
    if e is None or _is_none(e):
        return True
    if isinstance(e, ast.Dict):
        return not e.keys
    if isinstance(e, (ast.List, ast.Tuple, ast.Set)):
        return not e.elts
    return isinstance(e, ast.Call) and call_name(e) in ("dict", "list", "tuple") and not e.args and not e.keywords


def _unroll_literal_loops(nf: ast.AST) -> ast.AST:
    """*nf* with every ``for <names> in <literal tuple/list>`` loop replaced by one copy of its body per element, the
    loop variables substituted by the element's parts (``for k, v in (("a", a), ("b", b)): if v is not None: rec[k] = v``
    becomes the two guarded stores it stands for).  Only where that is the same program: the sequence is a display (or
    a local bound once to a display and never touched again) of names that are never rebound in the function and
    constants, the body neither breaks / continues nor rebinds the loop variables, and the loop variables are not read
    outside the loop.  *nf* itself (a shared, cached normal form) is left alone; a copy is returned when something
    was unrolled."""
    scoped: Set[int] = set()  # names that live in the scope of a comprehension (other variables than the function's locals)
    for c in ast.walk(nf):
        if isinstance(c, (ast.ListComp, ast.SetComp, ast.DictComp, ast.GeneratorExp)):
            bound = {x.id for gen in c.generators for x in ast.walk(gen.target) if isinstance(x, ast.Name)}
            scoped |= {id(x) for x in ast.walk(c) if isinstance(x, ast.Name) and x.id in bound}
    stored: Dict[str, int] = {}
    for n in ast.walk(nf):
        if isinstance(n, ast.Name) and isinstance(n.ctx, (ast.Store, ast.Del)) and id(n) not in scoped:
            stored[n.id] = stored.get(n.id, 0) + 1

    def pure(e: ast.AST) -> bool:
        return isinstance(e, ast.Constant) or (isinstance(e, ast.Name) and e.id not in stored)

    def display(e: ast.AST) -> Optional[List[ast.AST]]:
        if isinstance(e, (ast.Tuple, ast.List)) and not any(isinstance(x, ast.Starred) for x in e.elts):
            return list(e.elts)
        if isinstance(e, ast.Name) and stored.get(e.id) == 1:
            vals = _assigned(nf, e.id)
            if len(vals) == 1 and isinstance(vals[0], (ast.Tuple, ast.List)) and not mutation_sites(nf, {e.id}):
                # read only as the sequence of loops (never handed on / compared / indexed)
                if all(isinstance(_parent(x), ast.For) and _parent(x).iter is x for x in ast.walk(nf) if isinstance(x, ast.Name) and x.id == e.id and isinstance(x.ctx, ast.Load)):
                    return display(vals[0])
        return None

    def plan(loop: ast.For) -> Optional[List[Dict[str, ast.AST]]]:
        if loop.orelse or any(isinstance(x, (ast.Break, ast.Continue, ast.Yield, ast.YieldFrom) + FuncNode + (ast.Lambda,)) for st in loop.body for x in ast.walk(st)):
            return None
        elts = display(loop.iter)
        if elts is None or len(elts) > 16:
            return None
        tg = loop.target
        names = [tg.id] if isinstance(tg, ast.Name) else [x.id for x in tg.elts] if isinstance(tg, (ast.Tuple, ast.List)) and all(isinstance(x, ast.Name) for x in tg.elts) else None
        if not names or len(set(names)) != len(names) or any(stored.get(nm) != 1 for nm in names):
            return None
        inside = {id(x) for x in ast.walk(loop)}
        if any(isinstance(x, ast.Name) and x.id in names and id(x) not in inside and id(x) not in scoped for x in ast.walk(nf)):
            return None
        if any(isinstance(x, ast.Name) and x.id in names and id(x) in scoped for x in ast.walk(loop)):
            return None  # a comprehension of the body has a variable of the same name
        out: List[Dict[str, ast.AST]] = []
        for e in elts:
            if isinstance(tg, ast.Name):
                if not pure(e):
                    return None
                out.append({tg.id: e})
            else:
                if not isinstance(e, (ast.Tuple, ast.List)) or len(e.elts) != len(names) or not all(pure(x) for x in e.elts):
                    return None
                out.append(dict(zip(names, e.elts)))
        return out

    todo = [(id(n), plan(n)) for n in walk_no_nested(nf) if isinstance(n, ast.For)]
    plans = {k: p for k, p in todo if p is not None}
    if not plans:
        return nf
    ids: Dict[int, int] = {}

    def copy(node):  # clone that remembers which original each For came from
        if isinstance(node, ast.AST):
            new = node.__class__()
            for f in node._fields:
                if hasattr(node, f):
                    setattr(new, f, copy(getattr(node, f)))
            for a in node._attributes:
                if hasattr(node, a):
                    setattr(new, a, getattr(node, a))
            if isinstance(node, ast.For):
                ids[id(new)] = id(node)
            return new
        if isinstance(node, list):
            return [copy(x) for x in node]
        return node

    new = copy(nf)

    class Sub(ast.NodeTransformer):
        def __init__(self, mapping):
            self.mapping = mapping

        def visit_Name(self, n):
            return clone(self.mapping[n.id]) if isinstance(n.ctx, ast.Load) and n.id in self.mapping else n

    def rewrite(block: List[ast.stmt]) -> None:
        i = 0
        while i < len(block):
            st = block[i]
            p = plans.get(ids.get(id(st), 0)) if isinstance(st, ast.For) else None
            if p is not None:
                repl: List[ast.stmt] = []
                for mapping in p:
                    repl.extend(Sub(mapping).visit(clone(b)) for b in st.body)
                block[i:i + 1] = repl or [ast.copy_location(ast.Pass(), st)]
                continue  # the copies may contain loops of their own: they were cloned without ids, left as they are
            for f in ("body", "orelse", "finalbody"):
                b = getattr(st, f, None)
                if isinstance(b, list) and b and isinstance(b[0], ast.stmt):
                    rewrite(b)
            if isinstance(st, ast.Try):
                for h in st.handlers:
                    rewrite(h.body)
            i += 1

    rewrite(new.body)
    ast.fix_missing_locations(new)
    for par in ast.walk(new):
        for child in ast.iter_child_nodes(par):
            child._parent = par  # type: ignore[attr-defined]
    new._parent = _parent(nf)  # type: ignore[attr-defined]
    for a in ("_normal_of", "_inlined"):
        if hasattr(nf, a):
            setattr(new, a, getattr(nf, a))
    return new


def _resolve_bound(repo: Repo, mod, call: ast.Call) -> Optional[Tuple[object, ast.AST, Dict[str, ast.AST]]]:
    """(module, def, parameter -> argument) of the one repo function *call* runs, or None."""
    try:
        targets = repo.resolve_call(mod, call)
    except Exception:
        targets = []
    if len(targets) != 1 or not isinstance(targets[0][1], FuncNode):
        return None
    m, fn = targets[0]
    f = call.func
    in_class = isinstance(_parent(fn), ast.ClassDef) and not any(dotted_name(d) == "staticmethod" for d in fn.decorator_list)
    bound = in_class and isinstance(f, ast.Attribute) and isinstance(f.value, ast.Name) and f.value.id in ("self", "cls")
    b = _bind_args(fn, call, skip_first=bound)
    return (m, fn, b) if b is not None else None


def _carry(repo: Repo, mod, nf: ast.AST, e: Optional[ast.AST], p: str, depth: int = 2) -> Tuple[Optional[str], Optional[ast.AST]]:
    """How expression *e* of *nf* carries the value of parameter *p*: ``same`` (the value itself; ``p or {}``),
    ``copy`` (a new mapping with the same entries), ``keywise`` (a mapping with one entry per entry of *p*, values
    transformed one by one), ``other`` (anything that may lose or replace content - with the sub-expression that
    does), or None when *e* is only ever None / an empty container.  Locals are followed through their plain
    assignments, conditional expressions / ``or`` are split (an empty alternative is allowed next to a carrying one),
    a call of a repo function is decided on every value that function returns."""
    rebound = any(isinstance(x, ast.Name) and x.id == p and isinstance(x.ctx, ast.Store) for x in ast.walk(nf))
    busy: Set[str] = set()

    def worst(parts: List[Tuple[Optional[str], Optional[ast.AST]]]) -> Tuple[Optional[str], Optional[ast.AST]]:
        real = [x for x in parts if x[0] is not None]
        return max(real, key=lambda x: _LEVEL[x[0]]) if real else (None, None)

    def at_least(level: str, r: Tuple[Optional[str], Optional[ast.AST]]) -> Tuple[Optional[str], Optional[ast.AST]]:
        return r if r[0] is None or _LEVEL[r[0]] >= _LEVEL[level] else (level, r[1])

    def carries(x: ast.AST) -> bool:
        return rec(x)[0] in ("same", "copy")

    def key_ok(k: ast.AST, var: str) -> Optional[bool]:  # True: the key itself, False: str(key), None: anything else
        if isinstance(k, ast.Name) and k.id == var:
            return True
        if isinstance(k, ast.Call) and call_name(k) == "str" and len(k.args) == 1 and not k.keywords and isinstance(k.args[0], ast.Name) and k.args[0].id == var:
            return False
        return None

    def comp(x: ast.DictComp) -> Tuple[Optional[str], Optional[ast.AST]]:
        if len(x.generators) != 1 or x.generators[0].ifs or x.generators[0].is_async:
            return ("other", x)  # entries filtered / combined
        gen = x.generators[0]
        it, tg = gen.iter, gen.target
        if isinstance(it, ast.Call) and call_attr(it) == "items" and isinstance(it.func, ast.Attribute) and not it.args and not it.keywords \
                and isinstance(tg, ast.Tuple) and len(tg.elts) == 2 and all(isinstance(t, ast.Name) for t in tg.elts):
            base = rec(it.func.value)
            k, v = tg.elts[0].id, tg.elts[1].id
            ko = key_ok(x.key, k)
            if base[0] not in ("same", "copy") or ko is None:
                return ("other", x)
            if ko and isinstance(x.value, ast.Name) and x.value.id == v:
                return at_least("copy", base)
            return ("keywise", None) if any(isinstance(n, ast.Name) and n.id == v for n in ast.walk(x.value)) else ("other", x)
        src = it
        if isinstance(src, ast.Call) and call_name(src) in ("sorted", "list", "tuple") and len(src.args) == 1 and not src.keywords:
            src = src.args[0]
        if isinstance(src, ast.Call) and call_attr(src) == "keys" and isinstance(src.func, ast.Attribute) and not src.args:
            src = src.func.value
        if isinstance(tg, ast.Name) and carries(src):
            k = tg.id
            ko = key_ok(x.key, k)
            own = lambda n: isinstance(n, ast.Subscript) and isinstance(n.slice, ast.Name) and n.slice.id == k and carries(n.value)
            if ko and own(x.value):
                return ("copy", None)
            if ko is not None and any(own(n) for n in ast.walk(x.value)):
                return ("keywise", None)
        return ("other", x)

    def rec(x: Optional[ast.AST]) -> Tuple[Optional[str], Optional[ast.AST]]:
        if _is_empty(x):
            return (None, None)
        if isinstance(x, ast.Name):
            if x.id == p:
                return ("other", x) if rebound else ("same", None)
            vals = _assigned(nf, x.id)
            if not vals:
                return ("other", x)
            if x.id in busy:
                return (None, None)
            grown = mutation_sites(nf, {x.id})
            if grown:
                return ("other", grown[0][0])  # filled / edited after it was bound: not a plain carrier
            busy.add(x.id)
            try:
                return worst([rec(v) for v in vals])
            finally:
                busy.discard(x.id)
        if isinstance(x, ast.IfExp):
            return worst([rec(x.body), rec(x.orelse)])
        if isinstance(x, ast.BoolOp):
            return worst([rec(v) for v in x.values]) if isinstance(x.op, ast.Or) else rec(x.values[-1])
        if isinstance(x, ast.Call) and call_attr(x) == "cast" and len(x.args) == 2:
            return rec(x.args[1])
        op = _copied_operand(x)
        if op is not None:
            return at_least("copy", rec(op))
        if isinstance(x, ast.DictComp):
            return comp(x)
        if isinstance(x, ast.Call) and depth > 0:
            args = list(x.args) + [k.value for k in x.keywords]
            held = [a for a in args if rec(a)[0] in ("same", "copy", "keywise")]
            hit = _resolve_bound(repo, mod, x) if len(held) == 1 else None
            if hit is not None:
                m, f, b = hit
                holders = [pn for pn, v in b.items() if v is held[0]]
                cnf = normalize(repo, m, f, copyprop="all", loops=True)
                rets = [r for r in walk_no_nested(cnf) if isinstance(r, ast.Return)]
                if len(holders) == 1 and rets:
                    inner = worst([_carry(repo, m, cnf, r.value, holders[0], depth - 1) for r in rets])
                    if inner[0] is None:
                        return ("other", x)
                    if inner[0] == "other":
                        return ("other", x)  # named in the caller's terms
                    return at_least(rec(held[0])[0], inner)
        return ("other", x)

    return rec(e)


def _record_entries(nf: ast.AST, rec_names: Set[str]):
    """What *nf* puts into the mapping(s) held in *rec_names* (the record being written): (key -> [(value, statement,
    expression-level condition or None)], statements that remove a constant key, statements whose effect on the
    record is not understood)."""
    entries: Dict[object, List[Tuple[ast.AST, ast.AST, Optional[Tuple[ast.AST, bool]]]]] = {}
    removed: List[Tuple[object, ast.AST]] = []
    opaque: List[ast.AST] = []

    def literal(d: ast.AST, st: ast.AST, cond) -> None:
        if isinstance(d, ast.IfExp):
            literal(d.body, st, (d.test, True) if cond is None else cond)
            literal(d.orelse, st, (d.test, False) if cond is None else cond)
        elif isinstance(d, ast.Dict):
            for k, v in zip(d.keys, d.values):
                if k is None:
                    literal(v, st, cond)
                elif isinstance(k, ast.Constant):
                    entries.setdefault(k.value, []).append((v, st, cond))
                else:
                    opaque.append(st)
        elif isinstance(d, ast.Call) and call_name(d) in ("dict", "OrderedDict", "collections.OrderedDict") and len(d.args) <= 1:
            for a in d.args:
                literal(a, st, cond)
            for k in d.keywords:
                if k.arg is None:
                    literal(k.value, st, cond)
                else:
                    entries.setdefault(k.arg, []).append((k.value, st, cond))
        else:
            opaque.append(st)

    for n in walk_no_nested(nf):
        if isinstance(n, (ast.Assign, ast.AnnAssign)) and n.value is not None:
            for t in _flat_store_targets(n):
                if isinstance(t, ast.Name) and t.id in rec_names:
                    literal(n.value, n, None)
                elif isinstance(t, ast.Subscript) and isinstance(t.value, ast.Name) and t.value.id in rec_names:
                    if isinstance(t.slice, ast.Constant):
                        entries.setdefault(t.slice.value, []).append((n.value, n, None))
                    else:
                        opaque.append(n)
        elif isinstance(n, ast.AugAssign) and isinstance(n.target, ast.Name) and n.target.id in rec_names:
            opaque.append(n)
        elif isinstance(n, ast.Delete):
            for t in n.targets:
                if isinstance(t, ast.Subscript) and isinstance(t.value, ast.Name) and t.value.id in rec_names:
                    if isinstance(t.slice, ast.Constant):
                        removed.append((t.slice.value, n))
                    else:
                        opaque.append(n)
        elif isinstance(n, ast.Call) and isinstance(n.func, ast.Attribute) and isinstance(n.func.value, ast.Name) and n.func.value.id in rec_names:
            st = stmt_of(n)
            if n.func.attr == "update":
                for a in n.args:
                    literal(a, st, None)
                for k in n.keywords:
                    if k.arg is None:
                        literal(k.value, st, None)
                    else:
                        entries.setdefault(k.arg, []).append((k.value, st, None))
            elif n.func.attr == "pop":
                if n.args and isinstance(n.args[0], ast.Constant):
                    removed.append((n.args[0].value, st))
                else:
                    opaque.append(st)
            elif n.func.attr in ("clear", "popitem", "setdefault", "__setitem__", "__delitem__"):
                opaque.append(st)
    return entries, removed, opaque


def _absent_atom(p: str, lenient: bool) -> Callable[[ast.AST], Optional[bool]]:
    """Atom 'nothing was handed over in *p*': ``p is None`` (and, when *lenient*, ``not p``)."""
    def a(e: ast.AST) -> Optional[bool]:
        if isinstance(e, ast.Compare) and len(e.ops) == 1 and isinstance(e.left, ast.Name) and e.left.id == p and _is_none(e.comparators[0]):
            if isinstance(e.ops[0], (ast.Is, ast.Eq)):
                return True
            if isinstance(e.ops[0], (ast.IsNot, ast.NotEq)):
                return False
        if lenient and isinstance(e, ast.Name) and e.id == p:
            return False
        if lenient and isinstance(e, ast.Call) and call_name(e) == "bool" and len(e.args) == 1 and isinstance(e.args[0], ast.Name) and e.args[0].id == p:
            return False
        return None
    return a


def _real_body(fn: ast.AST) -> bool:
    """The function does something (not an interface stub: docstring / pass / ... / raise NotImplementedError)."""
    for st in fn.body:
        if isinstance(st, ast.Pass) or (isinstance(st, ast.Expr) and isinstance(st.value, ast.Constant)):
            continue
        if isinstance(st, ast.Raise) and st.exc is not None and "NotImplementedError" in ast.unparse(st.exc):
            continue
        return True
    return False


def handover_rules(repo: Repo, R: Report) -> None:
    r_ho = R.rule("C09-D5-handover", "what _run hands to the run-space emitter and execute hands to the trace driver reaches the written record as it was handed over: spec id, inputs id, launch id, attempt and run index unchanged (numbers kept when they are 0), the run_space_end summary entry by entry, the run context key by key (values may be made JSON-safe one by one); run_space_end reaches the driver whenever there is one", 20)
    SCALARS = ("run_space_spec_id", "run_space_inputs_id", "run_space_launch_id", "run_space_attempt", "run_space_index")
    NEED = {**{k: "same" for k in SCALARS}, "summary": "copy", "run_space_context": "keywise"}
    LOSS = {
        "summary": "run_space_end does not report the summary the launch produced entry by entry: a count that is 0 (no run completed / nothing planned), or the status, is lost or altered",
        "run_space_context": "pipeline_start does not carry the run's context key by key: keys are lost or the mapping is replaced by something else (e.g. the repr of the whole mapping as soon as one value is not JSON-native)",
    }

    def loss(k: str) -> str:
        return LOSS.get(k, f"the record reports another {k} than the one of the launch / run it belongs to")

    def annotation_is_int(fn: ast.AST, p: str) -> bool:
        a = next((x for x in fn.args.posonlyargs + fn.args.args + fn.args.kwonlyargs if x.arg == p), None)
        return a is not None and a.annotation is not None and any(isinstance(n, ast.Name) and n.id == "int" for n in ast.walk(a.annotation)) or \
            (a is not None and isinstance(a.annotation, ast.Constant) and isinstance(a.annotation.value, str) and "int" in a.annotation.value)

    # ---- emitter -> driver
    emod = repo.module(EMITTER)
    for meth, dmeth in (("emit_start", "on_run_space_start"), ("emit_end", "on_run_space_end")):
        qual = f"RunSpaceTraceEmitter.{meth}"
        nf = nfunc(repo, EMITTER, qual, loops=True)
        me = nf.args.args[0].arg if nf.args.args else "self"
        params = set(_params(nf))
        dcalls = [c for c in calls_in(nf) if call_attr(c) == dmeth]
        if not dcalls:
            R.violation(r_ho, EMITTER, qual, f"<driver>.{dmeth}(...)", f"{meth} never hands the record to the driver: the launch is not bracketed in the trace", nf.lineno)
            continue
        for dc in dcalls:
            for k in [k for k in NEED if k in params]:
                v = kwarg(dc, k)
                if v is None:
                    R.violation(r_ho, EMITTER, qual, f"{dmeth}(..., {k}=...)", f"`{k}` is not handed to the driver: {loss(k)}", dc.lineno)
                    continue
                lvl, culprit = _carry(repo, emod, nf, v, k)
                ok = lvl is not None and _LEVEL[lvl] <= _LEVEL[NEED[k]]
                R.check(ok, r_ho, EMITTER, qual, f"{dmeth}(..., {k}=<{k} as received>)", f"the driver gets `{norm(culprit if culprit is not None else v)[:80]}` instead of the `{k}` the emitter received: {loss(k)}", getattr(v, "lineno", dc.lineno))
        if meth == "emit_end":
            # handed to the driver on every way through the method, except where there is no driver
            g = CFG(nf, may_raise=lambda part: set())

            def no_driver(e: ast.AST) -> Optional[bool]:
                def is_driver(x: ast.AST) -> bool:
                    outs = _origins_attr_terminal(nf, x)
                    return bool(outs) and all(isinstance(o, ast.Attribute) and isinstance(o.value, ast.Name) and o.value.id == me for o in outs)
                if isinstance(e, ast.Compare) and len(e.ops) == 1 and _is_none(e.comparators[0]) and is_driver(e.left):
                    return True if isinstance(e.ops[0], (ast.Is, ast.Eq)) else False if isinstance(e.ops[0], (ast.IsNot, ast.NotEq)) else None
                if isinstance(e, (ast.Name, ast.Attribute)) and is_driver(e):
                    return False
                return None
            excused = {(n.id, lab) for n in g.nodes if n.kind in ("if", "while") and n.part is not None for lab in edges_guaranteeing(n.part, no_driver)}
            call_nodes = {i for dc in dcalls for i in g.nodes_for(stmt_of(dc))}
            bad = g.must_pass([g.entry], [g.ret_exit], lambda n: n.id in call_nodes, blocked_edges=excused)
            R.check(not bad, r_ho, EMITTER, qual, f"{dmeth} on every way through {meth} with a driver", "run_space_end is withheld from the driver on some path that does not depend on the driver being absent: a launch (e.g. one without completed runs) is left without its closing record", dcalls[0].lineno, bad[0][1] if bad else None)

    # ---- driver -> record: every class that implements the driver interface
    drivers = []
    for mod, qn, cls in repo.all_classes():
        if any((dotted_name(b) or "").split(".")[-1] == "Protocol" for b in cls.bases):
            continue
        meths = [st for st in cls.body if isinstance(st, FuncNode) and st.name in JSONL_DRIVER_METHODS and _real_body(st)]
        if meths:
            drivers.append((mod, qn, meths))
    if not drivers:
        raise AnalysisError("no class implementing on_pipeline_start / on_run_space_start / on_run_space_end found")
    for mod, cqn, meths in drivers:
        repo.module(mod.rel)
        for m in meths:
            qual = f"{cqn}.{m.name}"
            nf = _unroll_literal_loops(nfunc(repo, mod.rel, qual, loops=True))  # `for k, v in ((key, param), ...): rec[k] = v` is the stores it stands for
            params = set(_params(nf))
            rec_names = {t.id for n in walk_no_nested(nf) if isinstance(n, (ast.Assign, ast.AnnAssign)) and n.value is not None
                         for t in _flat_store_targets(n) if isinstance(t, ast.Name)
                         and any(isinstance(d, ast.Dict) and any(isinstance(k, ast.Constant) and k.value == "record_type" for k in d.keys) or
                                 (isinstance(d, ast.Call) and call_name(d) == "dict" and any(k.arg == "record_type" for k in d.keywords)) for d in ast.walk(n.value))}
            if not rec_names:
                raise AnalysisError(f"{qual}: the record (mapping with a 'record_type') is not built here")
            entries, removed, opaque = _record_entries(nf, rec_names)
            g = CFG(nf)
            store_stmts = {id(st) for vs in entries.values() for _v, st, _c in vs} | {id(st) for _k, st in removed} | {id(st) for st in opaque}
            sinks = [n.id for n in g.nodes if n.kind == "stmt" and n.ast is not None and id(n.ast) not in store_stmts
                     and any(isinstance(x, ast.Name) and x.id in rec_names and isinstance(x.ctx, ast.Load) for x in ast.walk(n.ast))]
            if not sinks:
                raise AnalysisError(f"{qual}: the record is built but never used (write site not found)")
            for k in [k for k in NEED if k in params]:
                got = entries.get(k, [])
                gone = [st for kk, st in removed if kk == k]
                if gone:
                    R.violation(r_ho, mod.rel, qual, norm(gone[0])[:100], f"`{k}` is removed from the record before it is written: {loss(k)}", gone[0].lineno)
                    continue
                if not got:
                    if opaque:
                        raise AnalysisError(f"{qual}: no store of record[{k!r}] found and `{norm(opaque[0])[:60]}` fills the record in a way that is not understood")
                    R.violation(r_ho, mod.rel, qual, f"record[{k!r}] = {k}", f"`{k}` is accepted by the driver but never written into the record: {loss(k)}", nf.lineno)
                    continue
                for v, st, _c in got:
                    lvl, culprit = _carry(repo, mod, nf, v, k)
                    ok = lvl is not None and _LEVEL[lvl] <= _LEVEL[NEED[k]]
                    R.check(ok, r_ho, mod.rel, qual, f"record[{k!r}] = <{k} as received>", f"the record gets `{norm(culprit if culprit is not None else v)[:80]}` instead of the `{k}` the driver received: {loss(k)}", getattr(v, "lineno", st.lineno))
                # written whenever a value was handed over: only `is None` (for a mapping / string also emptiness) excuses
                lenient = not annotation_is_int(nf, k)
                atom = _absent_atom(k, lenient)
                excused = {(n.id, lab) for n in g.nodes if n.kind in ("if", "while") and n.part is not None for lab in edges_guaranteeing(n.part, atom)}
                inline_ok = [(v, st, c) for v, st, c in got if c is None or ("F" if c[1] else "T") in edges_guaranteeing(c[0], atom)]
                store_nodes = {i for _v, st, _c in inline_ok for i in g.nodes_for(st)}
                bad = g.must_pass([g.entry], sinks, lambda n: n.id in store_nodes, blocked_edges=excused)
                what = (f"`{k}` is left out of the record on a path that does not depend on it being None" + (" - e.g. when it is 0 (the first run of a launch, attempt 0): " if not lenient else ": ") + loss(k))
                R.check(not bad, r_ho, mod.rel, qual, f"record[{k!r}] stored whenever {k} is given", what, got[0][1].lineno, bad[0][1] if bad else None)


# ------------------------------------------------------------------------ D5 one lifecycle file per launch

_OPEN_MODULES = {"io", "codecs", "gzip", "bz2", "lzma", "builtins", "os"}
_CLOCK_EXACT = {
    "time.time", "time.time_ns", "time.monotonic", "time.monotonic_ns", "time.perf_counter", "time.perf_counter_ns", "time.process_time",
    "time.ctime", "time.localtime", "time.gmtime", "time.asctime", "datetime.datetime.now", "datetime.datetime.utcnow", "datetime.datetime.today",
    "datetime.date.today", "uuid.uuid1", "uuid.uuid4", "os.urandom", "os.times", "next",
}
_CLOCK_LAST = {"now", "utcnow", "today", "time_ns", "monotonic", "monotonic_ns", "perf_counter", "perf_counter_ns", "uuid1", "uuid4", "uuid6", "uuid7", "urandom",
               "token_hex", "token_urlsafe", "token_bytes", "mkstemp", "mkdtemp", "mktemp", "getrandbits", "randint", "randrange", "NamedTemporaryFile", "TemporaryDirectory"}
_CLOCK_MODULES = {"random", "secrets", "tempfile"}
_ATTR_MUTATORS = {"clear", "pop", "popitem", "update", "setdefault", "__setitem__", "__delitem__", "remove", "discard", "append", "extend", "insert", "add"}


def _open_path_operand(mod, c: ast.Call) -> Optional[ast.AST]:
    """The path operand of an ``open``-like call: ``open(P, ..)`` / ``io.open(P, ..)`` / ``gzip.open(P, ..)`` / ``P.open(..)``."""
    f = c.func
    first = c.args[0] if c.args else (kwarg(c, "file") or kwarg(c, "filename") or kwarg(c, "path"))
    if isinstance(f, ast.Name):
        return first if f.id == "open" or mod.imports.get(f.id, "").endswith(".open") else None
    if isinstance(f, ast.Attribute) and f.attr == "open":
        if isinstance(f.value, ast.Name) and f.value.id in mod.imports and mod.imports[f.value.id].split(".")[0] in _OPEN_MODULES:
            return first
        return f.value
    return None


def _clock_call(mod, c: ast.Call) -> bool:
    """*c* reads something that differs from one evaluation to the next (clock, random source, uuid, temp name, iterator)."""
    d = call_name(c) or ""
    if not d:
        return False
    head, _, rest = d.partition(".")
    canon = mod.imports.get(head, head) + ("." + rest if rest else "")
    if canon in _CLOCK_EXACT or canon.rsplit(".", 1)[-1] in _CLOCK_LAST or canon.split(".")[0] in _CLOCK_MODULES:
        return True
    return canon == "time.strftime" and len(c.args) < 2


def _volatile_sources(repo: Repo, mod, cls, node: ast.AST, me: Optional[str], depth: int = 3, _busy: Optional[Set[int]] = None) -> List[ast.AST]:
    """Sub-expressions / statements of *node* whose value differs between two evaluations in the same launch: clock / random /
    uuid / temp-name reads, ``next(..)``, a counter step (augmented assignment to an attribute), and a call of a repo function
    (a method through *me*, or a resolvable function) whose body contains one of these."""
    busy = _busy if _busy is not None else set()
    out: List[ast.AST] = []
    for n in walk_no_nested(node):
        if isinstance(n, ast.AugAssign) and isinstance(n.target, (ast.Attribute, ast.Subscript)):
            out.append(n)
        if not isinstance(n, ast.Call):
            continue
        if _clock_call(mod, n):
            out.append(n)
            continue
        callee = None
        f = n.func
        if isinstance(f, ast.Attribute) and isinstance(f.value, ast.Name) and me is not None and f.value.id == me and cls is not None:
            callee = repo.method(mod, cls, f.attr)
        elif isinstance(f, (ast.Name, ast.Attribute)) and dotted_name(f):
            try:
                t = repo.resolve_call(mod, n)
            except Exception:
                t = []
            callee = t[0] if len(t) == 1 else None
        if callee is None or not isinstance(callee[1], FuncNode) or depth <= 0 or id(callee[1]) in busy:
            continue
        cm, cf = callee
        ccls = _parent(cf) if isinstance(_parent(cf), ast.ClassDef) else None
        pos = cf.args.posonlyargs + cf.args.args
        cme = pos[0].arg if ccls is not None and pos and not any(dotted_name(d) == "staticmethod" for d in cf.decorator_list) else None
        busy.add(id(cf))
        try:
            if any(_volatile_sources(repo, cm, ccls, st, cme, depth - 1, busy) for st in cf.body):
                out.append(n)
        finally:
            busy.discard(id(cf))
    return out


def _attr_touches(fn: ast.AST, me: Optional[str]) -> List[Tuple[str, ast.AST, str, List[ast.AST]]]:
    """(attribute, statement, kind, values) for everything *fn* does to ``<me>.attribute``: ``store`` (rebinding),
    ``aug``, ``del``, ``mutate`` (a store below it / a mutator method called on it)."""
    out: List[Tuple[str, ast.AST, str, List[ast.AST]]] = []
    if me is None:
        return out

    def root(t: ast.AST) -> Optional[Tuple[str, bool]]:
        direct = True
        while isinstance(t, (ast.Subscript, ast.Attribute)):
            if isinstance(t, ast.Attribute) and isinstance(t.value, ast.Name) and t.value.id == me:
                return t.attr, direct
            direct = False
            t = t.value
        return None

    for n in walk_no_nested(fn):
        tg: List[ast.AST] = []
        kind = "store"
        vals: List[ast.AST] = []
        if isinstance(n, (ast.Assign, ast.AugAssign)) or (isinstance(n, ast.AnnAssign) and n.value is not None):
            tg = _flat_store_targets(n)
            kind = "aug" if isinstance(n, ast.AugAssign) else "store"
            vals = [n.value]
        elif isinstance(n, ast.Delete):
            kind = "del"
            todo = list(n.targets)
            while todo:
                t = todo.pop()
                if isinstance(t, (ast.Tuple, ast.List)):
                    todo.extend(t.elts)
                else:
                    tg.append(t)
        for t in tg:
            r = root(t)
            if r is not None:
                out.append((r[0], n, kind if r[1] else "mutate", vals))
        if isinstance(n, ast.Call):
            if isinstance(n.func, ast.Attribute) and n.func.attr in _ATTR_MUTATORS:
                r = root(n.func.value)
                if r is not None:
                    out.append((r[0], stmt_of(n), "mutate", list(n.args) + [k.value for k in n.keywords]))
            elif call_name(n) == "setattr" and len(n.args) == 3 and isinstance(n.args[0], ast.Name) and n.args[0].id == me and isinstance(n.args[1], ast.Constant):
                out.append((str(n.args[1].value), stmt_of(n), "store", [n.args[2]]))
    return out


def _record_writes(nf: ast.AST) -> List[ast.Call]:
    """``X.write(..)`` calls of *nf* whose argument is built from the record (the mapping with a 'record_type')."""
    rec_names = {t.id for n in walk_no_nested(nf) if isinstance(n, (ast.Assign, ast.AnnAssign)) and n.value is not None
                 for t in _flat_store_targets(n) if isinstance(t, ast.Name)
                 and any(isinstance(d, ast.Dict) and any(isinstance(k, ast.Constant) and k.value == "record_type" for k in d.keys) or
                         (isinstance(d, ast.Call) and call_name(d) == "dict" and any(k.arg == "record_type" for k in d.keywords)) for d in ast.walk(n.value))}
    out = []
    for c in calls_in(nf):
        if isinstance(c.func, ast.Attribute) and c.func.attr in ("write", "writelines") and c.args:
            if any(_slice_names(nf, a) & rec_names for a in c.args):
                out.append(c)
    return out


def _bool_atoms(f, out: Optional[list] = None) -> list:
    out = [] if out is None else out
    if f[0] == "atom":
        if f[1] not in out:
            out.append(f[1])
    elif f[0] == "not":
        _bool_atoms(f[1], out)
    elif f[0] in ("and", "or"):
        for x in f[1]:
            _bool_atoms(x, out)
    return out


def _bool_eval(f, env: dict) -> bool:
    if f[0] == "const":
        return f[1]
    if f[0] == "atom":
        return env[f[1]]
    if f[0] == "not":
        return not _bool_eval(f[1], env)
    if f[0] == "and":
        return all(_bool_eval(x, env) for x in f[1])
    return any(_bool_eval(x, env) for x in f[1])


def _bool_sat(formulas: list) -> Optional[dict]:
    """A truth assignment of the atoms under which every formula holds, or None."""
    import itertools
    atoms: list = []
    for f in formulas:
        _bool_atoms(f, atoms)
    if len(atoms) > 12:
        raise AnalysisError(f"lifecycle mode analysis: {len(atoms)} atoms in the mode tests")
    for vals in itertools.product((True, False), repeat=len(atoms)):
        env = dict(zip(atoms, vals))
        if all(_bool_eval(f, env) for f in formulas):
            return env
    return None


def _plain_configured_path(exprs: Tuple, incoming: frozenset, path_attrs: Set[str], me: Optional[str]) -> bool:
    """The value described by a case of `cases(..)` is the configured output path itself: it reads exactly one attribute, one
    that only __init__ stores, and travels through plain names only (nothing joined on, no other name taken)."""
    return len(incoming) == 1 and set(incoming) <= set(path_attrs) and all(
        isinstance(x, ast.Name) or (isinstance(x, ast.Attribute) and isinstance(x.value, ast.Name) and x.value.id == me) for x in exprs)


def _mode_counterexample(alias_facts: list, dir_conjs: list) -> Optional[dict]:
    """A truth assignment of the atoms under which every fact guarding the alias holds and some directory-branch condition of
    the per-run opener holds too (None: the alias guard implies the per-run opener's single-file branch)."""
    import itertools
    atoms: list = []
    for f in alias_facts:
        _bool_atoms(f, atoms)
    for conj in dir_conjs:
        for f in conj:
            _bool_atoms(f, atoms)
    if len(atoms) > 12:
        raise AnalysisError(f"lifecycle mode agreement: {len(atoms)} atoms in the mode tests")
    for vals in itertools.product((True, False), repeat=len(atoms)):
        env = dict(zip(atoms, vals))
        if all(_bool_eval(f, env) for f in alias_facts) and any(all(_bool_eval(f, env) for f in conj) for conj in dir_conjs):
            return env
    return None


def lifecycle_file_rules(repo: Repo, R: Report) -> None:
    r_lf = R.rule("C09-D5-lifecycle-file-identity", "in every trace driver that writes to files, the file run_space_end is written to is the file run_space_start of the same launch was written to, whatever happens to the handle in between (execute() flushes and closes the driver after every run): a path that contains a clock reading / random part / counter is computed only when no path is remembered for the launch, is remembered in driver state, and no method that runs between the two records resets that state", 1)
    r_ma = R.rule("C09-D5-lifecycle-mode-agreement", "wherever the run-space lifecycle handle is made the per-run handle (single-file mode), the tests guarding that statement imply, for the same configured output path, that the per-run opener takes its single-file branch (the configured path itself, no time-stamped name): decided on the truth table over {suffix non-empty, is_dir}; the lifecycle test may be stronger than the per-run test, never weaker", 1)
    r_oh = R.rule("C09-D5-lifecycle-one-handle", "where the run-space lifecycle records go to the very file the per-run records go to (single-file mode: both openers open the configured path itself), they are written through the per-run handle, never through a second handle opened on the same path: two buffered handles on one file put the records into the file in the order of the flushes, not of the emission, so run_space_start lands behind the records of the first run it brackets (and a trace cut inside that run shows runs without their launch)", 1)
    R.assume(
        "C09-D5-lifecycle-file-identity: library calls other than the clock / random / uuid / temp-name / next() families are deterministic functions of their operands; the driver instance, its configured output path and (launch id, attempt, run_id) are the same for run_space_start and run_space_end of one launch; any public method of the driver other than on_run_space_start / on_run_space_end may run between the two records (flush() and close() do, after every run)",
        "C09-D5-lifecycle-file-identity: the per-run SER file is exempt - it is opened by pipeline_start and closed at the end of that run, all records of the run are written between that one open and that one close, so its (time-stamped) name is taken once per run; where the lifecycle records are written through the per-run handle only if the configured output path has a suffix (single-file mode), the file is the configured path itself - that the two mode tests agree is decided by C09-D5-lifecycle-mode-agreement; where they do not, or in any other mode, the opens of that handle are held to the rule",
    )
    found = 0
    for mod, cqn, cls in repo.all_classes():
        if any((dotted_name(b) or "").split(".")[-1] == "Protocol" for b in cls.bases):
            continue
        own = {st.name: st for st in cls.body if isinstance(st, FuncNode)}
        if not all(k in own and _real_body(own[k]) for k in ("on_run_space_start", "on_run_space_end")):
            continue
        if not any(_open_path_operand(mod, c) is not None for m in own.values() for c in calls_in(m)):
            continue  # keeps its records somewhere else than in files it opens
        found += 1
        _lifecycle_file_identity(repo, R, r_lf, r_ma, mod, cqn, cls, own, r_oh)
    if not found:
        raise AnalysisError("no file-writing class implementing on_run_space_start / on_run_space_end found")


def _lifecycle_file_identity(repo: Repo, R: Report, r_lf: str, r_ma: str, mod, cqn: str, cls: ast.ClassDef, own: Dict[str, ast.AST], r_oh: Optional[str] = None) -> None:
    START, END = "on_run_space_start", "on_run_space_end"

    def self_of(fn: ast.AST) -> Optional[str]:
        pos = fn.args.posonlyargs + fn.args.args
        return pos[0].arg if pos and not any(dotted_name(d) in ("staticmethod", "classmethod") for d in fn.decorator_list) else None

    # what the methods that may run between the two records do to the driver's attributes
    todo = [n for n in own if not n.startswith("_") and n not in (START, END)]
    between: List[str] = []
    while todo:
        n = todo.pop()
        if n in between:
            continue
        between.append(n)
        me = self_of(own[n])
        for c in calls_in(own[n]):
            if me is not None and isinstance(c.func, ast.Attribute) and isinstance(c.func.value, ast.Name) and c.func.value.id == me and c.func.attr in own and c.func.attr not in (START, END, "__init__"):
                todo.append(c.func.attr)
    between_touch: Dict[str, Tuple[str, ast.AST]] = {}
    for n in sorted(between, key=lambda x: (x.startswith("_"), x)):
        for attr, st, _k, _v in _attr_touches(own[n], self_of(own[n])):
            between_touch.setdefault(attr, (n, st))
    touched_after_init = {attr for n, fn in own.items() if n != "__init__" for attr, _s, _k, _v in _attr_touches(fn, self_of(fn))}

    # the handle the per-run records are written through
    run_handles: Set[str] = set()
    for n in ("on_pipeline_start", "on_node_event", "on_pipeline_end"):
        if n in own and _real_body(own[n]):
            pnf = nfunc(repo, mod.rel, f"{cqn}.{n}")
            pme = self_of(pnf)
            for w in _record_writes(pnf):
                for o in _origins_attr_terminal(pnf, w.func.value):
                    if isinstance(o, ast.Attribute) and isinstance(o.value, ast.Name) and o.value.id == pme:
                        run_handles.add(o.attr)

    def analyse(meth: str, mode: Optional[dict] = None):
        qual = f"{cqn}.{meth}"
        nf = nfunc(repo, mod.rel, qual)
        me = self_of(nf)
        if me is None:
            raise AnalysisError(f"{qual}: not an instance method")
        g = CFG(nf)
        is_attr = lambda x: isinstance(x, ast.Attribute) and isinstance(x.value, ast.Name) and x.value.id == me
        stores: Dict[str, List[Tuple[ast.AST, str, List[ast.AST]]]] = {}
        for attr, st, k, v in _attr_touches(nf, me):
            stores.setdefault(attr, []).append((st, k, v))

        def items(v: ast.AST, at: int) -> Tuple:
            out = []
            for x in walk_no_nested(v):
                if isinstance(x, ast.Name) and isinstance(x.ctx, ast.Load) and x.id != me:
                    out.append(("local", x.id, at))
                elif is_attr(x) and isinstance(x.ctx, ast.Load):
                    out.append(("attr", x.attr, at))
            return tuple(out)

        def cases(e: ast.AST, at: int) -> List[Tuple[Tuple, Tuple, frozenset]]:
            """The values *e* may have at CFG node *at*: (expressions it is built from, nodes that computed them, attributes
            whose value from before this call it reads) - locals through their reaching definitions, attributes through
            the stores of this call that reach the use."""
            results: List[Tuple[Tuple, Tuple, frozenset]] = []

            def rec(pending: Tuple, exprs: Tuple, sites: Tuple, incoming: frozenset, done: frozenset) -> None:
                if len(results) > 400:
                    raise AnalysisError(f"{qual}: too many ways to build `{norm(e)[:60]}`")
                while pending and pending[0] in done:
                    pending = pending[1:]
                if not pending:
                    results.append((exprs, sites, incoming))
                    return
                (kind, name, use), rest = pending[0], pending[1:]
                done = done | {pending[0]}
                if kind == "local":
                    defs = reaching_defs(g, name, use)
                    if not defs:
                        rec(rest, exprs, sites, incoming, done)  # parameter / global / builtin
                        return
                    for d in defs:
                        vals = _value_for(d.ast, name) if d.kind == "stmt" else []
                        if not vals:
                            raise AnalysisError(f"{qual}: `{name}` is bound by `{d.text()[:60]}`, a form the path analysis does not follow")
                        for v in vals:
                            rec(rest + items(v, d.id), exprs + (v,), sites + (d.id,), incoming, done)
                    return
                sts = stores.get(name, [])
                if not sts:
                    rec(rest, exprs, sites, incoming | {name}, done)
                    return
                store_nodes = {i for st, _k, _v in sts for i in g.nodes_for(st)}
                blocked = store_nodes - {use}
                for st, k, vs in sts:
                    for i in g.nodes_for(st):
                        starts = [t for t, _l in g.succ[i] if t not in blocked]
                        if use not in starts and use not in g.reach(starts, blocked=blocked):
                            continue
                        if k == "store":
                            vals = _value_for(st, f"{me}.{name}") or vs
                            for v in vals:
                                rec(rest + items(v, i), exprs + (v,), sites + (i,), incoming, done)
                        elif k == "aug":
                            rec(rest + items(st.value, i), exprs + (st,), sites + (i,), incoming | {name}, done)
                        elif k == "mutate":
                            extra: Tuple = ()
                            for v in vs:
                                extra += items(v, i)
                            rec(rest + extra, exprs + tuple(vs), sites + (i,), incoming | {name}, done)
                if use in g.reach([g.entry], blocked=blocked) or use == g.entry:
                    rec(rest, exprs, sites, incoming | {name}, done)

            rec(items(e, at), (e,), (at,), frozenset(), frozenset())
            return results

        def mode_facts(nodes: Iterable[int], path_attrs: Set[str]) -> Dict[int, Tuple[tuple, str]]:
            """if-node -> (formula, text) for every branch test over the configured path (atoms: suffix non-empty, is_dir) one of whose
            edges dominates all of *nodes*; the formula is the fact known on that edge."""
            nodes = list(nodes)

            def path_attr(x: ast.AST, at: int) -> Optional[str]:
                """the configured-path attribute *x* is a plain alias of (an attribute only __init__ stores)"""
                try:
                    cs = cases(x, at)
                except AnalysisError:
                    return None
                incs = set().union(*[inc for _e, _s, inc in cs]) if cs else set()
                if len(incs) == 1 and incs <= path_attrs and all(inc == incs and all(isinstance(y, ast.Name) or is_attr(y) for y in ex) for ex, _s, inc in cs):
                    return next(iter(incs))
                return None

            def reads_path(x: ast.AST, at: int) -> bool:
                try:
                    return any(inc & path_attrs for _e, _s, inc in cases(x, at))
                except AnalysisError:
                    return False

            def formula(e: ast.AST, at: int) -> tuple:
                if isinstance(e, ast.BoolOp):
                    return ("and" if isinstance(e.op, ast.And) else "or", [formula(v, at) for v in e.values])
                if isinstance(e, ast.UnaryOp) and isinstance(e.op, ast.Not):
                    return ("not", formula(e.operand, at))
                if isinstance(e, ast.Constant) and isinstance(e.value, bool):
                    return ("const", e.value)
                if isinstance(e, ast.IfExp):
                    t = formula(e.test, at)
                    return ("or", [("and", [t, formula(e.body, at)]), ("and", [("not", t), formula(e.orelse, at)])])
                if isinstance(e, ast.Call) and call_name(e) == "bool" and len(e.args) == 1 and not e.keywords:
                    return formula(e.args[0], at)
                if isinstance(e, ast.Name) and e.id != me:
                    defs = reaching_defs(g, e.id, at)
                    if len(defs) == 1 and defs[0].kind == "stmt":
                        vals = _value_for(defs[0].ast, e.id)
                        if len(vals) == 1:
                            return formula(vals[0], defs[0].id)
                if isinstance(e, ast.Attribute) and e.attr == "suffix":
                    a = path_attr(e.value, at)
                    if a is not None:
                        return ("atom", (a, "suffix non-empty"))
                if isinstance(e, ast.Compare) and len(e.ops) == 1 and isinstance(e.ops[0], (ast.Eq, ast.NotEq)):
                    for x, y in ((e.left, e.comparators[0]), (e.comparators[0], e.left)):
                        if isinstance(x, ast.Attribute) and x.attr == "suffix" and isinstance(y, ast.Constant) and y.value == "":
                            a = path_attr(x.value, at)
                            if a is not None:
                                atom = ("atom", (a, "suffix non-empty"))
                                return ("not", atom) if isinstance(e.ops[0], ast.Eq) else atom
                if isinstance(e, ast.Call) and isinstance(e.func, ast.Attribute) and e.func.attr == "is_dir" and not e.args and not e.keywords:
                    a = path_attr(e.func.value, at)
                    if a is not None:
                        return ("atom", (a, "is_dir"))
                if isinstance(e, ast.Call) and (call_name(e) or "").endswith("path.isdir") and len(e.args) == 1:
                    a = path_attr(e.args[0], at)
                    if a is not None:
                        return ("atom", (a, "is_dir"))
                if reads_path(e, at):
                    raise AnalysisError(f"{qual}: `{norm(e)[:60]}` tests the configured output path in a way the mode analysis does not know (known: .suffix truthiness, .suffix ==/!= '', .is_dir())")
                return ("atom", ("other", id(e)))

            out: Dict[int, Tuple[tuple, str]] = {}
            for n in g.nodes:
                if n.kind != "if" or n.part is None or not nodes:
                    continue
                labs = [lab for lab in ("T", "F") if all(g.dominated_by_edge(i, n.id, lab) for i in nodes)]
                if len(labs) != 1:
                    continue
                f = formula(n.part, n.id)
                if not any(isinstance(k, tuple) and k[0] in path_attrs for k in _bool_atoms(f)):
                    continue
                txt = re.sub(r"_i\d+_", "", norm(n.part))
                out[n.id] = (f, f"`{txt}` (line {n.part.lineno})") if labs[0] == "T" else (("not", f), f"not `{txt}` (line {n.part.lineno})")
            return out

        writes = _record_writes(nf)
        if not writes:
            raise AnalysisError(f"{qual}: no `.write(..)` of the record found")
        handles: Set[str] = set()
        opens: List[Tuple[ast.AST, ast.Call, Optional[str]]] = []  # (path operand, open call, handle attribute)
        for w in writes:
            for o in _origins_attr_terminal(nf, w.func.value):
                if is_attr(o):
                    handles.add(o.attr)
                    continue
                if isinstance(o, ast.Name):  # `with open(..) as f`
                    ctx = [it.context_expr for n in walk_no_nested(nf) if isinstance(n, ast.With) for it in n.items if isinstance(it.optional_vars, ast.Name) and it.optional_vars.id == o.id]
                    if len(ctx) == 1:
                        o = ctx[0]
                p = _open_path_operand(mod, o) if isinstance(o, ast.Call) else None
                if p is None:
                    raise AnalysisError(f"{qual}: the object the record is written to (`{norm(o)[:60]}`) is neither an attribute of the driver nor an open(..) call")
                opens.append((p, o, None))
        exempt: List[Tuple[str, ast.AST]] = []
        agree: List[Tuple[str, ast.AST, List[str], Optional[dict]]] = []
        seen_h: Set[Tuple[str, int]] = set()
        hq: List[Tuple[str, Optional[ast.AST]]] = [(h, None) for h in sorted(handles)]
        while hq:
            h, via = hq.pop()
            if (h, id(via)) in seen_h:
                continue
            seen_h.add((h, id(via)))
            for st, k, _vs in stores.get(h, []):
                if k != "store":
                    continue
                if via is not None:  # only what is opened on the way to the statement that hands the handle on
                    ahead = g.reach([i for i in g.nodes_for(st)])
                    if not any(i in ahead for i in g.nodes_for(via)):
                        continue
                for v in _value_for(st, f"{me}.{h}"):
                    for o in _origins_attr_terminal(nf, v):
                        if _is_none(o):
                            continue
                        if is_attr(o):
                            if o.attr == h:
                                continue
                            # written through another handle of the driver: single-file mode when the tests that guard this
                            # statement imply the single-file branch of the opener of that handle
                            if mode is not None and o.attr in mode["handles"]:
                                facts = mode_facts(g.nodes_for(st), mode["attrs"])
                                if facts:
                                    cex = _mode_counterexample([f for f, _t in facts.values()], mode["dir"])
                                    agree.append((o.attr, st, [t for _f, t in facts.values()], cex))
                                    if cex is None:
                                        exempt.append((o.attr, st))
                                        continue
                            hq.append((o.attr, st))
                            continue
                        p = _open_path_operand(mod, o) if isinstance(o, ast.Call) else None
                        if p is None:
                            raise AnalysisError(f"{qual}: `{norm(st)[:80]}` binds the handle the run-space records are written through to something that is not an open(..) call")
                        opens.append((p, o, h))
        return {"qual": qual, "nf": nf, "g": g, "me": me, "stores": stores, "cases": cases, "opens": opens, "exempt": exempt, "handles": handles, "agree": agree, "mode_facts": mode_facts}

    # the per-run opener: which attribute holds the configured path, and under which mode facts the name it opens is taken anew
    mode: Optional[dict] = None
    if "on_pipeline_start" in own and _real_body(own["on_pipeline_start"]) and run_handles:
        a_run = analyse("on_pipeline_start")
        rg = a_run["g"]
        vol_cases: List[List[int]] = []
        path_attrs: Set[str] = set()
        for p, oc, h in a_run["opens"]:
            for at in rg.nodes_for(stmt_of(oc)):
                for exprs, _sites, incoming in a_run["cases"](p, at):
                    path_attrs |= {a for a in incoming if a not in touched_after_init}
                    vol = [v for x in exprs for v in _volatile_sources(repo, mod, cls, x, a_run["me"])]
                    if vol:
                        vol_cases.append(sorted({i for v in vol for i in rg.nodes_for(stmt_of(v))} or {at}))
        dirs, dir_texts = [], []
        for vn in vol_cases:
            facts: Dict[int, Tuple[tuple, str]] = {}
            for i in vn:
                facts.update(a_run["mode_facts"]([i], path_attrs))
            dirs.append([f for f, _t in facts.values()])
            dir_texts.append(" and ".join(t for _f, t in facts.values()) or "always")
        plain_run = [oc for p, oc, h in a_run["opens"] for at in rg.nodes_for(stmt_of(oc)) for exprs, _sites, incoming in a_run["cases"](p, at)
                     if _plain_configured_path(exprs, incoming, path_attrs, a_run["me"])]
        mode = {"handles": run_handles & {h for _p, _o, h in a_run["opens"] if h is not None}, "attrs": path_attrs, "dir": dirs, "dir_text": sorted(set(dir_texts)), "plain": plain_run}
    a_start, a_end = analyse(START, mode), analyse(END, mode)
    # one file, one handle: a lifecycle open of the configured path itself, possible in a mode in which the per-run opener opens
    # the configured path itself too, is a second handle on the file of the runs
    if r_oh is not None:
        if not a_start["opens"] and not a_end["opens"]:
            R.ok(r_oh, mod.rel, a_start["qual"], "<no open(..) in the lifecycle methods>", "the lifecycle records are written through handles these methods never open")
        for a in (a_start, a_end):
            for p, oc, h in a["opens"]:
                st = stmt_of(oc)
                env = None
                plain = False
                for at in a["g"].nodes_for(st):
                    for exprs, _sites, incoming in a["cases"](p, at):
                        if mode is None or not mode["plain"] or not _plain_configured_path(exprs, incoming, mode["attrs"], a["me"]):
                            continue
                        plain = True
                        facts = a["mode_facts"]([at], mode["attrs"])
                        run_plain = ("not", ("or", [("and", list(conj)) for conj in mode["dir"]]))
                        env = env or _bool_sat([f for f, _t in facts.values()] + [run_plain])
                unbuffered = len(oc.args) >= 3 or kwarg(oc, "buffering") is not None
                if env is not None and unbuffered:
                    raise AnalysisError(f"{a['qual']}: `{norm(oc)[:60]}` opens the file of the runs a second time with an explicit buffering mode; whether the record order survives is not decided")
                where = ", ".join(f"{k[1]}={'yes' if v else 'no'}" for k, v in (env or {}).items() if k[0] != "other")
                R.check(env is None, r_oh, mod.rel, a["qual"], norm(st)[:100],
                        f"the run-space lifecycle records are written through a handle of their own opened on the configured output path itself (`{norm(oc)[:60]}`), and for a configured path with {where or 'any shape'} the per-run opener (`{norm(mode['plain'][0])[:50]}`, line {mode['plain'][0].lineno}) opens that same path for the records of the runs: two buffered handles on one file - the records reach the file in flush order, run_space_start lands after the records of the first run of the launch it brackets",
                        oc.lineno, what_ok=("the lifecycle file is not the configured path itself" if not plain else "never in a mode in which the per-run opener opens the configured path"))
    for a in (a_start, a_end):
        for h, st, texts, cex in a["agree"]:
            where = ", ".join(f"{k[1]}={'yes' if v else 'no'}" for k, v in (cex or {}).items() if k[0] != "other")
            R.check(cex is None, r_ma, mod.rel, a["qual"], norm(st)[:100],
                    f"the lifecycle records are written through the per-run handle self.{h} when {' and '.join(texts)}, but the per-run opener (reached from on_pipeline_start) takes its directory branch - a time-stamped name, taken anew after every close() - when {' / '.join(mode['dir_text'])}: the two mode tests disagree for a configured path with {where}; there run_space_start and run_space_end of one launch land in two files",
                    st.lineno, what_ok="the guard of the alias implies the single-file branch of the per-run opener")
    for a in (a_start, a_end):
        for h, st in a["exempt"]:
            R.ok(r_lf, mod.rel, a["qual"], norm(st)[:100], f"lifecycle records go through the per-run handle self.{h} only where the per-run opener takes its single-file branch (the file is the configured path)", st.lineno)
    # run_space_start: the shapes must be understood; what it leaves in the driver is what run_space_end may rely on
    for p, oc, h in a_start["opens"]:
        for at in a_start["g"].nodes_for(stmt_of(oc)):
            a_start["cases"](p, at)
    start_sets = set(a_start["stores"])

    nf, g, me, stores, cases = a_end["nf"], a_end["g"], a_end["me"], a_end["stores"], a_end["cases"]
    qual = a_end["qual"]
    if not a_end["opens"]:
        if not a_end["exempt"]:
            R.ok(r_lf, mod.rel, qual, "<no open(..) in on_run_space_end>", "run_space_end is written through a handle this method never (re-)opens", nf.lineno)
        return
    stable = {a for a in stores if a not in between_touch}

    def guard_edges(attrs: Set[str]) -> Set[Tuple[int, str]]:
        """Branch edges on which nothing usable is remembered in *attrs* (`memo is None`, `memo[0] != launch`, `launch not in memo`, `not memo`)."""
        out: Set[Tuple[int, str]] = set()
        for n in g.nodes:
            if n.kind not in ("if", "while") or n.part is None:
                continue

            def reads(x: ast.AST, n=n) -> bool:
                try:
                    return bool(set().union(*[c[2] for c in cases(x, n.id)]) & attrs)
                except AnalysisError:
                    return False

            def atom(e: ast.AST) -> Optional[bool]:
                if isinstance(e, ast.Compare) and len(e.ops) == 1:
                    l, r, op = e.left, e.comparators[0], e.ops[0]
                    rl, rr = reads(l), reads(r)
                    if rl == rr:
                        return None
                    other = r if rl else l
                    if isinstance(op, (ast.In, ast.NotIn)):
                        return None if rl else isinstance(op, ast.NotIn)
                    if isinstance(op, (ast.Is, ast.Eq)):
                        return _is_none(other)
                    if isinstance(op, (ast.IsNot, ast.NotEq)):
                        return not _is_none(other)
                    return None
                if isinstance(e, (ast.Name, ast.Attribute, ast.Subscript)) and reads(e):
                    return False
                if isinstance(e, ast.Call) and (call_attr(e) == "get" or call_name(e) == "bool") and reads(e):
                    return False
                return None
            for lab in edges_guaranteeing(n.part, atom):
                out.add((n.id, lab))
        return out

    for p, oc, h in a_end["opens"]:
        st = stmt_of(oc)
        problems: List[Tuple[str, int]] = []
        for at in g.nodes_for(st):
            for exprs, sites, incoming in cases(p, at):
                vol = [v for x in exprs for v in _volatile_sources(repo, mod, cls, x, me)]
                for a in sorted(incoming):
                    if a in touched_after_init and a in between_touch:
                        bm, bs = between_touch[a]
                        problems.append((f"the path that on_run_space_end opens is read from self.{a}, which {bm}() changes (`{norm(bs)[:60]}`, line {bs.lineno}) between run_space_start and run_space_end: after the close() that follows every run the two records of one launch land in different files", bs.lineno))
                    elif a in touched_after_init and a not in start_sets:
                        problems.append((f"the path that on_run_space_end opens is read from self.{a}, which on_run_space_start never sets: run_space_end is not written to the file that holds run_space_start", getattr(p, "lineno", st.lineno)))
                if not vol:
                    continue
                src = norm(vol[0])[:60]
                vol_ids = {id(v) for v in vol}
                vol_nodes = {i for v in vol for i in g.nodes_for(stmt_of(v))} or {at}

                def kept_in(attrs: Set[str]) -> Set[str]:
                    out = set()
                    for a2 in attrs:
                        if a2 == h:
                            out.add(a2)  # the open file itself
                            continue
                        for st2, _k2, vs2 in stores.get(a2, []):
                            if any(id(x) in vol_ids for v2 in vs2 for sl in _slice_exprs(nf, v2) for x in ast.walk(sl)):
                                out.add(a2)
                    return out

                def guarded(attrs: Set[str]) -> bool:
                    if not attrs:
                        return False
                    seen = g.reach([g.entry], blocked_edges=guard_edges(attrs))
                    return not any(i in seen for i in vol_nodes)

                if kept_in(stable) and guarded(stable):
                    continue
                every = set(stores)
                if kept_in(every) and guarded(every):
                    lost = sorted(a2 for a2 in kept_in(every) if a2 != h and a2 in between_touch)  # a remembered path that gets reset, else the open handle
                    a2 = lost[0] if lost else h if h is not None and h in between_touch else sorted(kept_in(every))[0]
                    bm, bs = between_touch.get(a2, ("?", st))
                    problems.append((f"the name of the run-space lifecycle file contains `{src}` and is kept only in self.{a2}, which {bm}() resets (`{norm(bs)[:60]}`, line {bs.lineno}); execute() closes the driver after every run, so on_run_space_end re-opens the file under a new name: run_space_start and run_space_end of one launch land in two files", getattr(vol[0], "lineno", st.lineno)))
                else:
                    problems.append((f"the name of the run-space lifecycle file contains `{src}`, taken anew on every open of the handle (not only when no path is remembered for the launch): after the close() that follows every run, on_run_space_end opens another file than the one that holds run_space_start", getattr(vol[0], "lineno", st.lineno)))
        R.check(not problems, r_lf, mod.rel, qual, norm(st)[:100], problems[0][0] if problems else "", problems[0][1] if problems else st.lineno,
                what_ok="a re-open after close() reaches the path remembered for the launch")


# --------------------------------------------------------------------------------- D3 freshness and linkage

def freshness_rules(repo: Repo, R: Report, run_nf: ast.AST, g: CFG, loop: ast.For, proc, launch_names) -> None:
    launch, is_launch_attr = launch_names
    r_fr = R.rule("C09-D3-per-run-freshness", "each run starts from a context built inside the loop body from the shared --context mapping plus that run's values (nothing carried between iterations); run metadata carries a copy of that very context, the 0-based index and the launch FK; execute forwards them to pipeline_start", 8)
    cli_mod = repo.module(CLI)
    pay = next((a for c in calls_in(loop) if call_attr(c) == "ContextType" for a in [_arg_at(repo, cli_mod, c, 0)] if a is not None), None)  # the mapping: first parameter, by position or keyword
    ctx_name = dotted_name(pay) if pay is not None else None
    if ctx_name is None:
        raise AnalysisError("_run: initial payload `ContextType(<per-run mapping>)` not found in the run loop")
    defs_in_loop = [n for n in ast.walk(loop) if isinstance(n, (ast.Assign, ast.AnnAssign)) and n.value is not None and any(isinstance(t, ast.Name) and t.id == ctx_name for t in (n.targets if isinstance(n, ast.Assign) else [n.target]))]
    all_defs = _assigned(run_nf, ctx_name)
    fresh = bool(defs_in_loop) and len(defs_in_loop) == len(all_defs) and all(
        (isinstance(d.value, ast.Call) and call_attr(d.value) in COPY_CALLS) or isinstance(d.value, (ast.Dict, ast.DictComp)) or (isinstance(d.value, ast.BinOp) and isinstance(d.value.op, ast.BitOr)) for d in defs_in_loop)  # `a | b` on mappings builds a new one
    R.check(fresh, r_fr, CLI, "_run", "run context = dict(...) inside the run loop", "the per-run context mapping is created outside the loop (or aliased): keys written by run i are visible to run i+1", loop.lineno)
    # the shared mapping is never mutated inside the loop
    shared: Set[str] = set()
    for d in defs_in_loop:
        shared |= {x.id for x in ast.walk(d.value) if isinstance(x, ast.Name)} - {"dict", "copy"}
    muts = [m for m in mutation_sites(loop, shared)]
    R.check(not muts, r_fr, CLI, "_run", "shared mapping(s) the run context is copied from are not mutated in the loop", f"`{norm(muts[0][0])[:60]}` mutates state shared by all runs" if muts else "", loop.lineno)
    # run values applied
    plan = _loop_plan(run_nf, loop)  # every planned run once, in plan order, with its 0-based position
    lv = plan[2] if plan is not None else None
    idx = plan[1] if plan is not None else None
    upd = [c for c in calls_in(loop) if call_attr(c) == "update" and dotted_name(c.func.value) == ctx_name and c.args and dotted_name(c.args[0]) == lv]
    spread = [d for d in defs_in_loop if isinstance(d.value, ast.Dict) and any(k is None and dotted_name(v) == lv for k, v in zip(d.value.keys, d.value.values))]
    merged = [d for d in defs_in_loop if isinstance(d.value, ast.BinOp) and isinstance(d.value.op, ast.BitOr) and dotted_name(d.value.right) == lv]  # `shared | values`: values win
    R.check(bool(upd or spread or merged) and lv is not None and plan is not None, r_fr, CLI, "_run", "run context updated with the run's values, for index, values in enumerate(runs)", "run i does not receive exactly run i's values (or indices are not 0-based plan order)", loop.lineno)
    # metadata literal
    def alternatives(e: Optional[ast.AST]) -> List[ast.AST]:  # values a (nested) conditional expression selects from
        if isinstance(e, ast.IfExp):
            return alternatives(e.body) + alternatives(e.orelse)
        return [e] if e is not None else []

    def is_md(d: ast.AST) -> bool:
        return isinstance(d, ast.Dict) and any(isinstance(k, ast.Constant) and k.value == "run_space_index" for k in d.keys)
    md_assign = [n for n in ast.walk(loop) if isinstance(n, (ast.Assign, ast.AnnAssign)) and any(is_md(a) for a in alternatives(n.value))]
    md = [a for n in md_assign for a in alternatives(n.value) if is_md(a)] or [d for d in ast.walk(loop) if is_md(d)]
    if not md:
        raise AnalysisError("_run: run metadata literal not found")
    mk = {k.value: v for k, v in zip(md[0].keys, md[0].values) if isinstance(k, ast.Constant)}
    ix = _origins(run_nf, mk.get("run_space_index"), keep_none=True)
    R.check(bool(ix) and all(isinstance(o, ast.Name) and o.id == idx for o in ix) and idx is not None, r_fr, CLI, "_run", "metadata.run_space_index = loop index", "run_space_index is not the 0-based loop index", md[0].lineno)
    # the recorded context is a copy of the mapping the run starts from, taken when that mapping is complete
    rc = mk.get("run_space_context")
    # the copy may be named before the literal; the run context itself is a terminal (recorded by reference)
    copies = ([rc] if dotted_name(rc) == ctx_name else _origins(run_nf, rc, keep_none=True)) if rc is not None else []
    ops = [_copied_operand(o) for o in copies]
    is_copy = bool(ops) and all(o is not None for o in ops)
    of_ctx = is_copy and all(dotted_name(o) == ctx_name for o in ops)
    op = next((o for o in ops if o is not None and dotted_name(o) != ctx_name), ops[0] if ops else None)
    what = ("the context recorded for the run is not a copy of this run's context (later mutation by the pipeline shows up in pipeline_start)" if not is_copy else
            f"pipeline_start records `{norm(op)}` instead of the mapping the run starts from (`{ctx_name}`, shared --context values plus the run's values): the recorded context does not reproduce the run")
    R.check(bool(of_ctx), r_fr, CLI, "_run", "metadata.run_space_context = copy of the run context", what, md[0].lineno)
    # the statement(s) where the copy is taken (the literal itself, or the local the copy was named in)
    taken = copies if is_copy else md
    md_nodes = [n for n in g.nodes if n.kind == "stmt" and n.ast is not None and any(d is x for d in taken for x in ast.walk(n.ast))]
    heads = set(g.nodes_for(loop))
    later = g.reach([m.id for m in md_nodes], blocked=heads) if md_nodes else {}
    late_muts = [m for m, _r in mutation_sites(loop, {ctx_name}) if any(g.nodes[i].ast is not None and any(x is m for x in ast.walk(g.nodes[i].ast)) for i in later if i not in {n.id for n in md_nodes})]
    R.check(not late_muts, r_fr, CLI, "_run", "run context complete before it is recorded", f"`{norm(late_muts[0])[:60]}` changes the run context after its copy was taken for pipeline_start" if late_muts else "", md[0].lineno)
    # launch FK: a TraceContext filled from the created launch
    # (decided below, once execute() has told which attributes of that object reach pipeline_start)
    tc = mk.get("trace_context")
    # staged for every run before process, and what is staged is that mapping
    md_names = {t.id for n in md_assign for t in (n.targets if isinstance(n, ast.Assign) else [n.target]) if isinstance(t, ast.Name)}

    def stages(n) -> bool:
        if n.kind != "stmt" or n.ast is None:
            return False
        for c in calls_in(n.ast):
            staged = _arg_at(repo, cli_mod, c, 0) if call_attr(c) == "set_run_metadata" else None  # by position or keyword
            if staged is not None:
                if any((isinstance(x, ast.Name) and x.id in md_names) or any(x is d for d in md) for x in ast.walk(staged)):
                    return True
        return False
    body_starts = [t for h in heads for t, lab in g.succ[h] if lab == "T"]
    bad = g.must_pass([s for s in body_starts if not stages(g.nodes[s])], [proc.id], stages) if body_starts else [(0, [])]
    R.check(not bad, r_fr, CLI, "_run", "pipeline.set_run_metadata(...) every iteration before process", "run metadata is not staged for every run", loop.lineno, bad[0][1] if bad else None)
    # Pipeline: metadata consumed once per run
    # the slot is found by its role: the attribute of the Pipeline that set_run_metadata (the interface _run calls) fills
    sm = nfunc(repo, PIPE, "Pipeline.set_run_metadata", copyprop="all")
    me_sm = (sm.args.posonlyargs + sm.args.args)[0].arg if (sm.args.posonlyargs + sm.args.args) else "self"
    slot_attrs = sorted({t.attr for n in walk_no_nested(sm) if isinstance(n, (ast.Assign, ast.AnnAssign, ast.AugAssign)) for t in _flat_store_targets(n)
                         if isinstance(t, ast.Attribute) and isinstance(t.value, ast.Name) and t.value.id == me_sm})
    if len(slot_attrs) != 1:
        raise AnalysisError(f"Pipeline.set_run_metadata: expected exactly one attribute of the pipeline to be filled with the staged metadata, found {slot_attrs}")
    pp = nfunc(repo, PIPE, "Pipeline._process")
    me_pp = (pp.args.posonlyargs + pp.args.args)[0].arg if (pp.args.posonlyargs + pp.args.args) else "self"
    SLOT = f"{me_pp}.{slot_attrs[0]}"
    ex_calls = [c for c in calls_in(pp) if call_attr(c) == "execute" and kwarg(c, "run_metadata") is not None]

    def _clears(n) -> bool:  # every value the statement stores into the slot is None (also `x, self._run_metadata = ..., None`)
        vals = _value_for(n.ast, SLOT) if n.ast is not None and n.kind == "stmt" else []
        return bool(vals) and all(_is_none(v) for v in vals)

    def _reads(n) -> bool:
        return n.ast is not None and n.kind == "stmt" and any(isinstance(x, ast.Attribute) and isinstance(x.ctx, ast.Load) and dotted_name(x) == SLOT for x in ast.walk(n.ast))
    gp = CFG(pp)
    ok = bool(ex_calls) and all(any(dotted_name(o) == SLOT for o in _origins_attr_terminal(pp, kwarg(c, "run_metadata"))) for c in ex_calls) and any(_clears(n) for n in gp.nodes)
    R.check(ok, r_fr, PIPE, "Pipeline._process", "run_metadata passed to execute and cleared afterwards", "staged run metadata survives into the next run of the same Pipeline", pp.lineno)
    # ... on every exit, also when the run raises: otherwise the next process() of the same Pipeline without staged
    # metadata emits a pipeline_start carrying the failed run's index / context / launch FK.  The slot may be cleared
    # after execute (try/finally) or taken-and-cleared before it (the clear is, or comes after, the read of the slot).
    ex_nodes = [n for n in gp.nodes if n.ast is not None and n.kind == "stmt" and any(call_attr(c) == "execute" and kwarg(c, "run_metadata") is not None for c in calls_in(n.ast))]
    read_ids = [n.id for n in gp.nodes if _reads(n)]
    clear_ids = {n.id for n in gp.nodes if _clears(n)}
    dirty_ids = {n.id for n in gp.nodes if n.ast is not None and n.kind == "stmt" and _value_for(n.ast, SLOT) and n.id not in clear_ids}
    for exn in ex_nodes:
        after_ex = gp.reach([exn.id])
        # clears that count: any clear after execute; before it only one that does not lose the staged value (the read
        # happens in the same statement or on every path to it)
        valid = {c for c in clear_ids if (c in after_ex and c != exn.id) or c in read_ids or any(gp.dominated_by_node(c, r) for r in read_ids)}
        staged_at_ex = exn.id in gp.reach([gp.entry], blocked=valid) or any(exn.id in gp.reach([d], blocked=valid) for d in dirty_ids)
        starts = [t for t, _lab in gp.succ[exn.id]]
        for label, exit_id in (("return", gp.ret_exit), ("raise(Exception)", gp.exc_exit), ("raise(BaseException)", gp.base_exit)):
            miss = gp.must_pass([t for t in starts if t not in valid], [exit_id], lambda n: n.id in valid) if staged_at_ex else []
            # a non-None store after execute that reaches the exit
            restaged = [d for d in dirty_ids if d in after_ex and d != exn.id and gp.must_pass([d], [exit_id], lambda n: n.id in valid)]
            # a start that is itself the exit (execute raises straight out of the function) never clears
            direct = staged_at_ex and exit_id in starts
            R.check(not miss and not direct and not restaged, r_fr, PIPE, "Pipeline._process", f"<staged run metadata slot> = None on exit {label} after execute", "staged run metadata survives a run that ends this way: a later run of the same Pipeline reports the previous run's index, context and launch", exn.line, miss[0][1] if miss else None)
    # set_run_metadata keeps its own copy: whatever it stores into the slot is a copy of the argument / a fresh literal
    stored = [o for v in _assigned(sm, f"{me_sm}.{slot_attrs[0]}") for o in _origins_attr_terminal(sm, v)]
    ok = bool(stored) and all(_copied_operand(o) is not None or (isinstance(o, ast.Call) and call_attr(o) == "dict") or isinstance(o, (ast.Dict, ast.DictComp)) or _is_none(o) for o in stored)
    R.check(ok, r_fr, PIPE, "Pipeline.set_run_metadata", "self._run_metadata = dict(metadata or {})", "run metadata stored by reference", sm.lineno)

    # execute forwards the four kwargs: each value originates from the run metadata / the launch FK under its own key
    ex = nfunc(repo, ORCH, _orch.EXECUTE)
    sc = next((c for c in calls_in(ex) if call_attr(c) == "on_pipeline_start"), None)
    if sc is None:
        raise AnalysisError("execute(): on_pipeline_start call vanished")
    spreads = [dotted_name(k.value) for k in sc.keywords if k.arg is None and dotted_name(k.value)]
    sent: Dict[str, List[ast.AST]] = {}
    for k in sc.keywords:
        if k.arg is not None and k.arg.startswith("run_space_"):
            sent.setdefault(k.arg, []).append(k.value)
    for n in walk_no_nested(ex):
        if isinstance(n, ast.Assign) and len(n.targets) == 1 and isinstance(n.targets[0], ast.Subscript) and dotted_name(n.targets[0].value) in spreads and isinstance(n.targets[0].slice, ast.Constant):
            sent.setdefault(n.targets[0].slice.value, []).append(n.value)
        for sp in spreads:
            if isinstance(n, (ast.Assign, ast.AnnAssign)) and n.value is not None and isinstance(n.value, ast.Dict) and any(dotted_name(t) == sp for t in (n.targets if isinstance(n, ast.Assign) else [n.target])):
                for kk, vv in zip(n.value.keys, n.value.values):
                    if isinstance(kk, ast.Constant):
                        sent.setdefault(kk.value, []).append(vv)

    def from_run_metadata(m: ast.AST) -> bool:
        return "run_metadata" in _slice_names(ex, m)

    cli_mod, orch_mod = repo.module(CLI), repo.module(ORCH)
    # the object staged under "trace_context": its class is the one _run constructs it from
    ctor_calls = [v for v in _origins(run_nf, tc)] if isinstance(tc, ast.Name) else []
    tc_cls = None
    if ctor_calls and all(isinstance(v, ast.Call) for v in ctor_calls):
        found = [repo.resolve_name(cli_mod, v.func, v) for v in ctor_calls]
        if all(r is not None and isinstance(r[1], ast.ClassDef) for r in found) and len({id(r[1]) for r in found}) == 1:
            tc_cls = found[0]

    def staged_tc(x: ast.AST) -> bool:  # in execute: the object read from run_metadata["trace_context"]
        recv = _origins(ex, x) if isinstance(x, (ast.Name, ast.Attribute)) else []
        return bool(recv) and all((_keyed(rv) or (None, None))[1] == "trace_context" and from_run_metadata(_keyed(rv)[0]) for rv in recv)

    def fk_attrs(e: ast.AST) -> Optional[Set[str]]:
        """Attributes of the staged trace context *e* evaluates to: read directly (`ctx.attr`) or out of the mapping a
        function (method of its class / function taking it) builds from it; None when *e* is anything else."""
        attrs: Set[str] = set()
        outs = _origins(ex, e)
        for o in outs:
            if isinstance(o, ast.Attribute) and staged_tc(o.value):
                attrs.add(o.attr)
                continue
            kd = _keyed(o)
            fks = _origins(ex, kd[0]) if kd is not None else []
            if not fks:
                return None
            for f in fks:
                hit = _callee_on(repo, orch_mod, f, staged_tc, tc_cls) if isinstance(f, ast.Call) else None
                rep = _object_reports(repo, hit[0], hit[1], hit[2], tc_cls) if hit is not None else None
                vals = rep.get(kd[1]) if rep is not None else None
                if not vals or not all(isinstance(v, ast.Attribute) and isinstance(v.value, ast.Name) and v.value.id == hit[2] for v in vals):
                    return None
                attrs |= {v.attr for v in vals}
        return attrs if outs else None

    def keyed_from(e: ast.AST, key: str) -> bool:
        outs = _origins(ex, e)
        return bool(outs) and all((_keyed(o) or (None, None))[1] == key and from_run_metadata(_keyed(o)[0]) for o in outs)

    reached: Dict[str, Set[str]] = {}  # pipeline_start kwarg -> attributes of the staged trace context it carries
    for k, via_fk in (("run_space_launch_id", True), ("run_space_attempt", True), ("run_space_index", False), ("run_space_context", False)):
        vs = sent.get(k, [])
        if via_fk:
            got = [fk_attrs(v) for v in vs]
            ok = bool(vs) and all(a for a in got)
            if ok:
                reached[k] = set().union(*got)
        else:
            ok = bool(vs) and all(keyed_from(v, k) for v in vs)
        ln = getattr(vs[0], "lineno", ex.lineno) if vs else ex.lineno
        R.check(ok, r_fr, ORCH, _orch.EXECUTE, f"on_pipeline_start(..., {k}=...)", f"pipeline_start does not receive {k} from the run metadata / launch FK under that key", ln)
    R.check(bool(sent), r_fr, ORCH, _orch.EXECUTE, "on_pipeline_start(..., **run_space_kwargs)", "run-space linkage is not forwarded to pipeline_start", sc.lineno)

    # the FK object: what _run stores into those attributes (constructor arguments, attribute assignments, any function
    # it hands the object to - method or not) is the id / attempt of the created launch, before the first run
    stores: Dict[str, List[Tuple[ast.AST, ast.AST, Tuple[str, str, int]]]] = {}  # attr -> (value in _run's terms, statement of _run, where it is stored)
    is_tc = lambda x: isinstance(tc, ast.Name) and isinstance(x, ast.Name) and x.id == tc.id
    if tc_cls is not None:
        for v in ctor_calls:
            init = repo.method(tc_cls[0], tc_cls[1], "__init__")
            if init is not None:
                b = _bind_args(init[1], v, skip_first=True)
                pos = init[1].args.posonlyargs + init[1].args.args
                if b is not None and pos:
                    for attr, vals in _object_stores(repo, init[0], init[1], pos[0].arg, tc_cls).items():
                        stores.setdefault(attr, []).extend((_translate(x, b, "__init__"), v, (init[0].rel, qualname_of(init[1]), init[1].lineno)) for x in vals)
            else:  # dataclass: fields in declaration order (bases first), given positionally or by name
                fields = [st.target.id for _m, c in reversed(repo.mro(tc_cls[0], tc_cls[1])) for st in c.body if isinstance(st, ast.AnnAssign) and isinstance(st.target, ast.Name)]
                for name, val in list(zip(fields, v.args)) + [(kw.arg, kw.value) for kw in v.keywords if kw.arg]:
                    stores.setdefault(name, []).append((val, v, (CLI, "_run", v.lineno)))
        for n in walk_no_nested(run_nf):
            if isinstance(n, (ast.Assign, ast.AnnAssign, ast.AugAssign)) and getattr(n, "value", None) is not None:
                for t in _flat_store_targets(n):
                    if isinstance(t, ast.Attribute) and is_tc(t.value):
                        vals = _value_for(n, f"{tc.id}.{t.attr}") if not isinstance(n, ast.AugAssign) else []
                        stores.setdefault(t.attr, []).extend((x, n, (CLI, "_run", n.lineno)) for x in (vals or [n]))
            elif isinstance(n, ast.Call) and not any(n is v for v in ctor_calls):
                hit = _callee_on(repo, cli_mod, n, is_tc, tc_cls)
                if hit is not None:
                    for attr, vals in _object_stores(repo, hit[0], hit[1], hit[2], tc_cls).items():
                        # a value the callee merely passes on from a parameter is the caller's doing
                        stores.setdefault(attr, []).extend((_translate(x, hit[3], hit[1].name), n, (CLI, "_run", n.lineno) if isinstance(x, ast.Name) and x.id in hit[3] else (hit[0].rel, qualname_of(hit[1]), hit[1].lineno)) for x in vals)

    def node_of(x: ast.AST) -> Optional[int]:
        return next((n.id for n in g.nodes if n.kind == "stmt" and n.ast is not None and any(y is x for y in ast.walk(n.ast))), None)
    ctor_ids = {i for i in (node_of(v) for v in ctor_calls) if i is not None}
    for key, role in (("run_space_launch_id", "id"), ("run_space_attempt", "attempt")):
        if key not in reached:
            continue  # reported above: pipeline_start does not read it from the staged trace context at all
        for attr in sorted(reached[key]):
            got = stores.get(attr, [])
            bad = next((s for s in got if not is_launch_attr(s[0], role)), None)
            at = {i for i in (node_of(s[1]) for s in got) if i is not None}
            ok = tc_cls is not None and bool(got) and bad is None and bool(ctor_ids)
            if ok and not (at & ctor_ids):  # every way from the constructor to the first run passes a store
                ok = bool(at) and not g.must_pass([t for c in ctor_ids for t, lab in g.succ[c] if lab == "n" and t not in at], list(heads), lambda n: n.id in at)
            rel, fnname, ln = bad[2] if bad is not None else (CLI, "_run", md[0].lineno)
            what = (f"the staged trace context gets `{norm(bad[0])[:60]}` as `{attr}`, which pipeline_start reports as {key}, instead of the {role} of the created launch" if bad is not None else
                    f"launch foreign key not attached: nothing stores the {role} of the created launch into `{attr}` of the staged trace context (reported by pipeline_start as {key}) on every way to the first run")
            R.check(ok, r_fr, rel, fnname, f"pipeline_start {key} = launch.{role} (through .{attr} of the staged trace context)", what, ln)

    # per-run leak through the orchestrator: caller-owned canonical spec must not be mutated (shared with C04-D3b)
    from . import c04

    R.rule_prefix = "C09-D3/"
    try:
        c04.no_mutation_of_hashed_input(repo, R)
    finally:
        R.rule_prefix = ""


def _origins_attr_terminal(fn: ast.AST, e: Optional[ast.AST]) -> List[ast.AST]:
    """Like _origins but ``self.attr`` is a terminal (locals only are followed)."""
    out: List[ast.AST] = []
    seen: Set[str] = set()

    def rec(x: Optional[ast.AST]) -> None:
        if x is None:
            return
        if isinstance(x, ast.IfExp):
            rec(x.body)
            rec(x.orelse)
            return
        if isinstance(x, ast.Name):
            vals = _assigned(fn, x.id)
            if vals:
                if x.id not in seen:
                    seen.add(x.id)
                    for v in vals:
                        rec(v)
                return
        out.append(x)

    rec(e)
    return out


# ------------------------------------------------------------------------ D4 the fingerprint uri is canonical
def _canonical_path(g: CFG, nf: ast.AST, e: Optional[ast.AST], at: Optional[int], param_ok: Callable[[str], bool], seen: Optional[Set[Tuple[int, int]]] = None, attr_ok=None) -> Tuple[bool, Optional[ast.AST]]:
    """(True, None) when *e* (evaluated at CFG node *at*) is a path with symlinks and `..` resolved on every way it can be
    produced - `.resolve()` / os.path.realpath applied, then at most steps that keep a canonical path canonical (`.parent`,
    Path(..), expanduser, absolute) - else (False, the expression that is not).  A parameter is asked of *param_ok*."""
    seen = set() if seen is None else seen
    if e is None or at is None:
        return False, e
    if (id(e), at) in seen:
        return True, None
    seen.add((id(e), at))
    rec = lambda x, a=at: _canonical_path(g, nf, x, a, param_ok, seen, attr_ok)  # noqa: E731
    if _is_none(e):
        return True, None  # no path at all
    if isinstance(e, ast.IfExp):
        for b in (e.body, e.orelse):
            ok, why = rec(b)
            if not ok:
                return ok, why
        return True, None
    if isinstance(e, ast.BoolOp):
        for v in e.values:
            ok, why = rec(v)
            if not ok:
                return ok, why
        return True, None
    if isinstance(e, ast.Call):
        a = call_attr(e)
        if a == "resolve" and isinstance(e.func, ast.Attribute):
            return True, None
        if call_name(e) in ("os.path.realpath", "realpath"):
            return True, None
        if a in ("expanduser", "absolute", "with_suffix", "with_name") and isinstance(e.func, ast.Attribute) and not e.args:
            return rec(e.func.value)
        if a in ("Path", "PurePath", "PosixPath", "str", "fspath", "cast") and e.args:
            return rec(e.args[-1] if a == "cast" else e.args[0]) if len(e.args) == (2 if a == "cast" else 1) else (False, e)
        if a in ("dirname",) and e.args:
            return rec(e.args[0])
        return False, e
    if isinstance(e, ast.Attribute) and e.attr in ("parent",):
        return rec(e.value)
    if isinstance(e, ast.Attribute) and attr_ok is not None:
        got = attr_ok(e, at)
        if got is not None:
            return got
    if isinstance(e, ast.Name):
        defs = reaching_defs(g, e.id, at)
        if not defs:
            return (True, None) if e.id in _params(nf) and param_ok(e.id) else (False, e)
        for d in defs:
            vals = _value_for(d.ast, e.id) if d.kind == "stmt" else []
            if not vals:
                return False, e
            for v in vals:
                ok, why = _canonical_path(g, nf, v, d.id, param_ok, seen, attr_ok)
                if not ok:
                    return ok, why
        return True, None
    return False, e


def _node_index(g: CFG) -> Dict[int, int]:
    idx: Dict[int, int] = {}
    for n in g.nodes:
        root = n.part if n.part is not None else (n.ast if n.kind == "stmt" else None)
        if root is not None:
            for y in ast.walk(root):
                idx.setdefault(id(y), n.id)
    return idx


def _returned_field_sources(repo: Repo, mod, call: ast.Call, attr: str) -> Optional[List[ast.AST]]:
    """The arguments of *call* (a package function returning an object it constructs) that the object's attribute *attr*
    is built from; None when that cannot be established."""
    t = [x for x in repo.resolve_call(mod, call) if isinstance(x[1], FuncNode)]
    if len(t) != 1:
        return None
    fm, f = t[0]
    outer = _bind_args(f, call, skip_first=_is_method(f) and isinstance(call.func, ast.Attribute))
    if outer is None:
        return None
    nf = normalize(repo, fm, f, inline=False)
    out: List[ast.AST] = []
    found = False
    for r in [r for r in walk_no_nested(nf) if isinstance(r, ast.Return) and r.value is not None]:
        for c in [o for o in _origins(nf, r.value) if isinstance(o, ast.Call)]:
            rr = repo.resolve_name(fm, c.func, c) if isinstance(c.func, (ast.Name, ast.Attribute)) else None
            if rr is None or not isinstance(rr[1], ast.ClassDef):
                return None
            init = repo.method(rr[0], rr[1], "__init__")
            if init is not None and isinstance(init[1], FuncNode):
                b = _bind_args(init[1], c, skip_first=True)
                pos = init[1].args.posonlyargs + init[1].args.args
                if b is None or not pos:
                    return None
                vals = _object_stores(repo, init[0], init[1], pos[0].arg, rr).get(attr, [])
                holders = {x.id for v in vals for x in ast.walk(v) if isinstance(x, ast.Name) and x.id in b}
                inner = [b[h] for h in sorted(holders)]
            else:
                v = kwarg(c, attr)
                inner = [v] if v is not None else []
            if not inner:
                return None
            found = True
            for a in inner:  # expressed in the callee's locals: back to its parameters, then to the caller's arguments
                for o in _origins(nf, a):
                    names = [x.id for x in ast.walk(o) if isinstance(x, ast.Name) and x.id in outer]
                    if isinstance(o, ast.Name) and o.id in outer:
                        out.append(outer[o.id])
                    elif _is_none(o):
                        continue
                    elif names:
                        return None
                    else:
                        return None
    return out if found else None


def canonical_uri_rules(repo: Repo, R: Report, ident_fns: List[ast.AST]) -> None:
    r_cu = R.rule("C09-D4-canonical-input-uri", "the uri of a referenced file that goes into the inputs id (and through it into the key-derived launch id) names the file, not the way the launch was spelled: the path it is rendered from has symlinks and `..` resolved - either the fingerprinting function resolves the joined path itself, or the base directory it joins the path of the specification onto is resolved on every way it gets there (the pipeline path in _run, the base directory stored in the parsed configuration).  Otherwise `semantiva run sub/../p.yaml` and `semantiva run p.yaml` (or a run through a symlinked directory) give the same files with the same content another run_space_inputs_id, and the same idempotency key another launch id", 1)
    ident_mod = repo.module(IDENT)
    cli_mod = repo.module(CLI)
    uri_fns = [f for f in ident_fns if any(call_attr(c) == "as_uri" for c in calls_in(f))]
    if not uri_fns:
        raise AnalysisError("run_space_identity: no function reachable from RunSpaceIdentityService.compute renders a path as a uri (.as_uri())")
    run_nf = nfunc(repo, CLI, "_run")

    def callers_ok(f: ast.AST, param: str, depth: int) -> Tuple[bool, str]:
        """Every value that reaches parameter *param* of *f* is a canonical path."""
        if depth <= 0:
            return False, f"`{param}` of {qualname_of(f)} (call chain too deep to follow)"
        sites: List[Tuple[object, ast.AST, ast.Call]] = []
        for cf in ident_fns:
            for c in calls_in(cf):
                if any(t is f for _m, t in repo.resolve_call(ident_mod, c)):
                    sites.append((ident_mod, cf, c))
        for c in calls_in(run_nf):
            if call_attr(c) == f.name and isinstance(c.func, ast.Attribute) and _ctor_of(run_nf, c.func.value, "RunSpaceIdentityService"):
                sites.append((cli_mod, None, c))
        if not sites:
            return False, f"`{param}` of {qualname_of(f)} (no call site found)"
        for m, cf, c in sites:
            nf = run_nf if cf is None else normalize(repo, m, cf, inline=False)
            if cf is not None:  # the call inside the normal form
                c2 = [x for x in calls_in(nf) if call_attr(x) == call_attr(c) and x.lineno == c.lineno]
                if len(c2) != 1:
                    return False, f"call of {f.name} in {qualname_of(cf)} not found in its normal form"
                c = c2[0]
            b = _bind_args(f, c, skip_first=_is_method(f) and isinstance(c.func, ast.Attribute))
            if b is None or param not in b:
                return False, f"`{norm(c)[:50]}` cannot be bound"
            g = CFG(nf)
            at = _node_index(g).get(id(c))
            ok, why = expr_ok(m, nf, g, b[param], at, cf, depth)
            if not ok:
                return False, why
        return True, ""

    def expr_ok(m, nf: ast.AST, g: CFG, e: ast.AST, at: Optional[int], owner: Optional[ast.AST], depth: int) -> Tuple[bool, str]:
        notes: List[str] = []

        def param_ok(p: str) -> bool:
            if owner is None:
                return False
            ok, why = callers_ok(owner, p, depth - 1)
            if not ok:
                notes.append(why)
            return ok
        idx = _node_index(g)

        def attr_ok(x: ast.Attribute, _at):
            # `obj.attr` of an object a package function returned: what the attribute is built from at that call
            if not isinstance(x.value, ast.Name):
                return None
            outs = _origins(nf, x.value)
            srcs = [o for o in outs if isinstance(o, ast.Call)]
            if not srcs or len(srcs) != len(outs):
                return None
            for sc in srcs:
                fed = _returned_field_sources(repo, m, sc, x.attr)
                if fed is None:
                    notes.append(f"`{norm(x)}` ({m.rel}:{getattr(x, 'lineno', 0)}): what `{norm(sc.func)}` stores as `.{x.attr}` could not be followed")
                    return False, x
                for a in fed:
                    ok, why = _canonical_path(g, nf, a, idx.get(id(sc)), param_ok, None, attr_ok)
                    if not ok:
                        notes.append(f"`{norm(x)}` is built from `{norm(a)[:50]}` ({m.rel}:{getattr(a, 'lineno', 0)}), where `{norm(why)[:50] if why is not None else '?'}` is not resolved (no .resolve() / realpath on the way)")
                        return False, why
            return True, None
        ok, why = _canonical_path(g, nf, e, at, param_ok, None, attr_ok)
        if ok:
            return True, ""
        return False, notes[0] if notes else f"`{norm(why)[:60] if why is not None else '?'}` ({m.rel}:{getattr(why, 'lineno', 0)}) is not resolved (no .resolve() / realpath on the way)"

    for uf in uri_fns:
        nf = normalize(repo, ident_mod, uf)
        g = CFG(nf)
        idx = _node_index(g)
        qn = qualname_of(uf)
        for c in [c for c in calls_in(nf) if call_attr(c) == "as_uri" and isinstance(c.func, ast.Attribute)]:
            recv, at = c.func.value, idx.get(id(c))
            asked: List[str] = []
            ok, why = _canonical_path(g, nf, recv, at, lambda p: False)
            if ok:
                R.ok(r_cu, IDENT, qn, f"{norm(c)[:60]}: the path is resolved in {qn}")
                continue
            # not resolved here: the joined path is canonical only if the base it is joined onto is (the relative part is the
            # specification's own text, which the spec id covers)
            joins = [x for s_ in _slice_exprs(nf, recv) for x in ast.walk(s_) if isinstance(x, ast.BinOp) and isinstance(x.op, ast.Div)]
            bases = {n_ for j in joins for n_ in _slice_names(nf, j.left) if n_ in _params(nf)}
            ok2, why2 = bool(bases), f"`{norm(why)[:50] if why is not None else norm(recv)}` is neither resolved nor joined onto a base directory"
            for bp in sorted(bases):
                ok2, why2 = callers_ok(uf, bp, 4)
                if not ok2:
                    break
            R.check(ok2, r_cu, IDENT, qn, norm(stmt_of(c))[:90],
                    f"the uri that enters the inputs id is rendered from a path that is not resolved in {qn} (`{norm(why)[:40] if why is not None else norm(recv)[:40]}`), and the base directory it is joined onto is not resolved either: {why2} - the same file with the same content gets another uri, so another run_space_inputs_id and (with an idempotency key) another launch id, when the pipeline is addressed as `sub/../p.yaml` or through a symlinked directory", c.lineno)


# ------------------------------------------------------------------------------- D4 launch id derivation

def launch_id_rules(repo: Repo, R: Report) -> None:
    r_l = R.rule("C09-D4-launch-id", "explicit launch id returned unchanged; idempotent id hashes only (inputs_id or spec_id, key) under a fixed prefix; only the path without explicit id / key generates a uuid; every launch carries the requested attempt; inputs id covers spec id and every file digest", 7)
    QUAL = "RunSpaceLaunchManager.create_launch"
    cl = nfunc(repo, LAUNCH, QUAL, copyprop="all")
    params = set(_params(cl))
    for need in ("run_space_spec_id", "run_space_inputs_id", "provided_launch_id", "idempotency_key", "attempt"):
        if need not in params:
            raise AnalysisError(f"create_launch: parameter {need} vanished")
    rebound = {x.id for x in ast.walk(cl) if isinstance(x, ast.Name) and isinstance(x.ctx, ast.Store)} & params
    gl = CFG(cl, may_raise=lambda p: set())
    # field order of the RunSpaceLaunch dataclass (positional construction)
    lc = repo.cls(LAUNCH, "RunSpaceLaunch")
    fields = [st.target.id for st in lc.body if isinstance(st, ast.AnnAssign) and isinstance(st.target, ast.Name)]

    def field(c: ast.Call, name: str) -> Optional[ast.AST]:
        v = kwarg(c, name)
        if v is None and name in fields and fields.index(name) < len(c.args):
            v = c.args[fields.index(name)]
        return v

    def atom(names: Set[str], truthy: bool) -> Callable[[ast.AST], Optional[bool]]:
        def a(e: ast.AST) -> Optional[bool]:
            if isinstance(e, ast.Name) and e.id in names:
                return truthy
            if isinstance(e, ast.Call) and isinstance(e.func, ast.Name) and e.func.id == "bool" and len(e.args) == 1 and not e.keywords:
                return a(e.args[0])
            if isinstance(e, ast.UnaryOp) and isinstance(e.op, ast.Not):
                inner = a(e.operand)
                return None if inner is None else not inner
            # `bool(x) is True` / `(not x) == False` ... (a lowered `match bool(x): case True:`): only for operands that are booleans
            if (isinstance(e, ast.Compare) and len(e.ops) == 1 and isinstance(e.comparators[0], ast.Constant) and isinstance(e.comparators[0].value, bool)
                    and isinstance(e.ops[0], (ast.Is, ast.IsNot, ast.Eq, ast.NotEq))
                    and ((isinstance(e.left, ast.Call) and isinstance(e.left.func, ast.Name) and e.left.func.id == "bool") or (isinstance(e.left, ast.UnaryOp) and isinstance(e.left.op, ast.Not)))):
                inner = a(e.left)
                same = e.comparators[0].value == isinstance(e.ops[0], (ast.Is, ast.Eq))
                return None if inner is None else (inner if same else not inner)
            if isinstance(e, ast.Compare) and len(e.ops) == 1 and isinstance(e.left, ast.Name) and e.left.id in names and _is_none(e.comparators[0]):
                if isinstance(e.ops[0], ast.IsNot):
                    return truthy
                if isinstance(e.ops[0], ast.Is):
                    return not truthy
            return None
        return a

    tests = [n for n in gl.nodes if n.kind in ("if", "while") and n.part is not None]

    def holds_param(name: str, at: int, param: str) -> bool:
        """Local *name*, read at node *at*, certainly holds the value of parameter *param* (an alias)."""
        cs = _value_cases(gl, cl, ast.Name(id=name, ctx=ast.Load()), at, params)
        return bool(cs) and all(isinstance(c.value, ast.Name) and c.value.id == param for c in cs)

    guard_cache: Dict[Tuple[str, bool], Set[Tuple[int, str]]] = {}

    def guard_edges(param: str, truthy: bool) -> Set[Tuple[int, str]]:
        """Branch edges on which *param* is known to be truthy / falsy; a test on a local that holds the
        parameter's value at that point counts as a test on the parameter."""
        key = (param, truthy)
        if key not in guard_cache:
            out: Set[Tuple[int, str]] = set()
            for n in tests:
                locs = {x.id for x in ast.walk(n.part) if isinstance(x, ast.Name) and x.id not in params}
                names = {param} | {x for x in locs if holds_param(x, n.id, param)}
                out |= {(n.id, e) for e in edges_guaranteeing(n.part, atom(names, truthy))}
            guard_cache[key] = out
        return guard_cache[key]

    def only_when(node_id: int, param: str, truthy: bool) -> bool:
        blocked = guard_edges(param, truthy)
        return bool(blocked) and node_id not in gl.reach([gl.entry], blocked_edges=blocked)

    def def_nodes(name: str) -> List[int]:
        out: List[int] = []
        for n in gl.nodes:
            a = n.ast
            if a is None or n.kind not in ("stmt", "for", "with", "except"):
                continue
            if n.kind == "except":
                tg: List[ast.AST] = [ast.Name(id=a.name, ctx=ast.Store())] if getattr(a, "name", None) else []
            elif n.kind == "with":
                tg = [it.optional_vars for it in a.items if it.optional_vars is not None]
            else:
                tg = list(a.targets) if isinstance(a, ast.Assign) else [a.target] if isinstance(a, (ast.AnnAssign, ast.AugAssign, ast.For)) else []
            if any(isinstance(x, ast.Name) and x.id == name for t in tg for x in ast.walk(t)):
                out.append(n.id)
        return out

    def case_only_when(case: _Case, param: str, truthy: bool, carried_from: int = 0) -> bool:
        """The value of *case* is produced only when *param* is truthy / falsy (parameters are not rebound -
        checked by the callers).  Any of: a statement executed to produce it (its definition in a branch, the
        return) is confined to such paths; a conditional expression / ``or`` on the way selected it under such a
        test; a local it travelled in gets from its definition to its use only over such a branch edge (while the
        local carries the parameter's own value, a test on the local is a test on the parameter)."""
        if any(only_when(s_, param, truthy) for s_ in case.sites):
            return True
        if any(("T" if truth else "F") in edges_guaranteeing(test, atom({param}, truthy)) for test, truth in case.conds):
            return True
        is_param = isinstance(case.value, ast.Name) and case.value.id == param
        for k, (d, use, local) in enumerate(case.hops):
            blocked = set(guard_edges(param, truthy))
            if is_param and k >= carried_from:  # hops[carried_from:] are the locals the value itself travelled in
                for n in tests:
                    blocked |= {(n.id, e) for e in edges_guaranteeing(n.part, atom({local}, truthy))}
            others = {o for o in def_nodes(local) if o != d and o != use}
            if blocked and use not in gl.reach([t for t, _l in gl.succ[d]], blocked=others, blocked_edges=blocked):
                return True
        return False

    def uuid_based(e: ast.AST, depth: int = 3) -> bool:
        mod = repo.module(LAUNCH)
        todo: List[Tuple[ast.AST, int]] = [(e, depth)]
        seen: Set[int] = set()
        while todo:
            x, d = todo.pop()
            for c in ast.walk(x):
                if isinstance(c, ast.Call):
                    if (call_name(c) or "").split(".")[0] == "uuid":
                        return True
                    if d > 0:
                        for _m, f in repo.resolve_call(mod, c):
                            if id(f) not in seen and isinstance(f, FuncNode):
                                seen.add(id(f))
                                todo.append((f, d - 1))
        return False

    rets = [n for n in gl.nodes if n.kind == "stmt" and isinstance(n.ast, ast.Return)]
    if not rets:
        raise AnalysisError("create_launch: no return found")
    # every (return, RunSpaceLaunch(...) it may return, value its id may have) with the path facts that select it
    explicit: List[Tuple] = []
    idem: List[Tuple] = []
    generated: List[Tuple] = []
    unknown: List[Tuple] = []
    for n in rets:
        for cc in _value_cases(gl, cl, n.ast.value, n.id, params):
            c = cc.value
            if not (isinstance(c, ast.Call) and (call_name(c) or "").split(".")[-1] == "RunSpaceLaunch"):
                unknown.append((n, c))
                continue
            for case in _value_cases(gl, cl, field(c, "id"), cc.sites[-1], params, cc):
                idv = case.value
                if idv is None or _is_none(idv):
                    unknown.append((n, c))
                elif isinstance(idv, ast.Name) and idv.id == "provided_launch_id":
                    explicit.append((n, cc, case))
                elif any(isinstance(x, ast.Call) and (call_name(x) or "").startswith("hashlib.") for s_ in _slice_exprs(cl, idv) for x in ast.walk(s_)):
                    idem.append((n, cc, case))
                else:
                    generated.append((n, cc, case))
    # (1) explicit id unchanged, only when one was given
    ok = len(explicit) >= 1 and not unknown and "provided_launch_id" not in rebound and all(case_only_when(case, "provided_launch_id", True, len(cc.hops)) for _n, cc, case in explicit)
    R.check(ok, r_l, LAUNCH, QUAL, "return RunSpaceLaunch(id=provided_launch_id)", "an explicit launch id is not returned unchanged", cl.lineno)
    # (2) idempotent id: sha256 over prefix + (inputs_id or spec_id) + key and nothing else
    ALLOWED = {"idempotency_key", "run_space_inputs_id", "run_space_spec_id"}

    def leaves(e: ast.AST, names: Set[str], consts: List[object], foreign: List[ast.AST]) -> None:
        if isinstance(e, ast.Constant):
            consts.append(e.value)
        elif isinstance(e, ast.Name):
            vals = _assigned(cl, e.id)
            if vals and e.id not in params:
                for v in vals:
                    leaves(v, names, consts, foreign)
            elif e.id in params:
                names.add(e.id)
            else:
                foreign.append(e)
        elif isinstance(e, ast.BinOp) and isinstance(e.op, (ast.Add, ast.Mod)):
            leaves(e.left, names, consts, foreign)
            leaves(e.right, names, consts, foreign)
        elif isinstance(e, ast.BoolOp) and isinstance(e.op, ast.Or):
            for v in e.values:
                leaves(v, names, consts, foreign)
        elif isinstance(e, ast.IfExp):
            for v in (e.test, e.body, e.orelse):
                leaves(v, names, consts, foreign)
        elif isinstance(e, ast.Compare) and all(isinstance(o, (ast.Is, ast.IsNot)) for o in e.ops):
            for v in [e.left] + e.comparators:
                leaves(v, names, consts, foreign)
        elif isinstance(e, (ast.Tuple, ast.List)):
            for v in e.elts:
                leaves(v, names, consts, foreign)
        elif isinstance(e, ast.JoinedStr):
            for v in e.values:
                leaves(v, names, consts, foreign)
        elif isinstance(e, ast.FormattedValue):
            leaves(e.value, names, consts, foreign)
        elif isinstance(e, ast.Call) and isinstance(e.func, ast.Attribute) and e.func.attr in ("encode", "join", "format") and all(isinstance(a, ast.Constant) for a in e.args if e.func.attr == "encode"):
            leaves(e.func.value, names, consts, foreign)
            if e.func.attr != "encode":
                for a in e.args:
                    leaves(a, names, consts, foreign)
        elif isinstance(e, ast.Call) and isinstance(e.func, ast.Name) and e.func.id in ("str", "bytes") and e.args:
            for a in e.args:
                leaves(a, names, consts, foreign)
        else:
            foreign.append(e)

    def when(entry: Tuple, param: str, truthy: bool) -> bool:
        _n, cc, case = entry
        return case_only_when(case, param, truthy, len(cc.hops))

    ok = len(idem) >= 1
    why = "idempotent launch id depends on something other than (inputs/spec id, key) - e.g. time, attempt or a random value"
    bases: Set[str] = set()
    for entry in idem:  # one per way the digest is built (one in the usual spelling; `basis` chosen by if/else gives two)
        idv = entry[2].value
        hs = [x for s_ in _slice_exprs(cl, idv) for x in ast.walk(s_) if isinstance(x, ast.Call) and (call_name(x) or "").startswith("hashlib.")]
        parts: List[ast.AST] = []
        for h in hs:
            parts.extend(h.args)
        if len(hs) == 1 and not parts:
            # h = hashlib.sha256(); h.update(a); h.update(b)
            hn = next((nm for nm in {x.id for x in ast.walk(cl) if isinstance(x, ast.Name)} if any(v is hs[0] for v in _assigned(cl, nm))), None)
            parts = [a for c in calls_in(cl) if call_attr(c) == "update" and dotted_name(c.func.value) == hn for a in c.args] if hn else []
        names: Set[str] = set()
        consts: List[object] = []
        foreign: List[ast.AST] = []
        for p in parts:
            leaves(p, names, consts, foreign)
        prefix_ok = bool(consts) and isinstance(consts[0], (bytes, str)) and (consts[0] if isinstance(consts[0], bytes) else consts[0].encode()).startswith(b"semantiva:rsl")
        bases |= names & {"run_space_inputs_id", "run_space_spec_id"}
        ok = ok and len(hs) == 1 and (call_name(hs[0]) == "hashlib.sha256") and bool(parts) and not foreign and names <= ALLOWED and "idempotency_key" in names and bool(names & {"run_space_inputs_id", "run_space_spec_id"}) and prefix_ok and not (rebound & ALLOWED)
        if foreign:
            why = f"idempotent launch id depends on `{norm(foreign[0])[:60]}`, not only on (inputs/spec id, key): the same key does not reproduce the id"
        elif names - ALLOWED:
            why = f"idempotent launch id depends on {sorted(names - ALLOWED)}, not only on (inputs/spec id, key): the same key does not reproduce the id"
        ok = ok and when(entry, "idempotency_key", True) and when(entry, "provided_launch_id", False)
    ok = ok and "run_space_spec_id" in bases  # the inputs id may be absent: the spec id is the basis then
    R.check(ok, r_l, LAUNCH, QUAL, "sha256(prefix + (inputs_id or spec_id) + key)", why, idem[0][0].line if idem else cl.lineno)
    # (3) generated ids only when neither an id nor a key was given, and they are uuid based
    ok = len(generated) >= 1 and all(uuid_based(entry[2].value) and when(entry, "provided_launch_id", False) and when(entry, "idempotency_key", False) for entry in generated)
    R.check(ok, r_l, LAUNCH, QUAL, "generated id only on the fall-through path", "uuid-based id is not confined to the path without explicit id / idempotency key", generated[0][0].line if generated else cl.lineno)
    # (4) every launch carries the attempt that was asked for
    for kind, entries in (("explicit", explicit), ("idempotent", idem), ("generated", generated)):
        for n, cc, _case in entries:
            c = cc.value
            av = field(c, "attempt")
            outs = _value_cases(gl, cl, av, cc.sites[-1], params) if av is not None else []
            ok = bool(outs) and all(isinstance(o.value, ast.Name) and o.value.id == "attempt" for o in outs) and "attempt" not in rebound
            R.check(ok, r_l, LAUNCH, QUAL, f"return RunSpaceLaunch(..., attempt=attempt) [{kind} id]",
                    f"`{norm(c)[:70]}` does not carry the requested attempt ({'default of the dataclass is used' if av is None else 'attempt=' + norm(av)[:30]}): run_space_start, every pipeline_start and run_space_end of that launch report another attempt than the one asked for", n.line)
    # the CLI asks for the attempt given on the command line
    run_nf = nfunc(repo, CLI, "_run")
    crt = [c for c in calls_in(run_nf) if call_attr(c) == "create_launch"]
    ok = len(crt) == 1 and any("run_space_attempt" in d for d in _slice_names(run_nf, kwarg(crt[0], "attempt"))) and all(
        any(want in d for d in _slice_names(run_nf, kwarg(crt[0], kw))) for kw, want in (("provided_launch_id", "run_space_launch_id"), ("idempotency_key", "run_space_idempotency_key")))
    R.check(ok, r_l, CLI, "_run", "create_launch(provided_launch_id=args..., idempotency_key=args..., attempt=args...)", "the launch is not created from the launch id / idempotency key / attempt given on the command line", crt[0].lineno if crt else run_nf.lineno)

    # inputs id: spec id + every fingerprint (role, uri, content digest), order independent
    # (found by role among the functions RunSpaceIdentityService.compute reaches: the one that serialises the
    # {spec_id, inputs} payload, and the one that reads a file in binary mode to digest it)
    ident_mod = repo.module(IDENT)
    ident_fns = _reachable_in_module(repo, IDENT, "RunSpaceIdentityService.compute")

    def has_key(fn: ast.AST, key: str) -> bool:
        return any(isinstance(d, ast.Dict) and any(isinstance(k, ast.Constant) and k.value == key for k in d.keys) for d in ast.walk(fn))
    rsm_def = _by_role(ident_fns, lambda f: bool(_dumps_calls(f)) and has_key(f, "spec_id"), "run_space_identity: serialiser of the inputs payload (RSM)")
    rsm = normalize(repo, ident_mod, rsm_def)
    rsm_q = qualname_of(rsm_def)
    rp = set(_params(rsm)[1:] if _is_method(rsm_def) else _params(rsm))
    item_ok = False
    fps_param: Optional[str] = None
    for d in ast.walk(rsm):
        if isinstance(d, ast.Dict):
            kv = {k.value: v for k, v in zip(d.keys, d.values) if isinstance(k, ast.Constant)}
            if "sha256" in kv and "uri" in kv:
                bases = {dotted_name(v.value) for key, v in kv.items() if key in ("sha256", "uri", "role") and isinstance(v, ast.Attribute)}
                item_ok = (isinstance(kv["sha256"], ast.Attribute) and kv["sha256"].attr == "digest_sha256" and isinstance(kv["uri"], ast.Attribute) and kv["uri"].attr == "uri" and len(bases) == 1 and None not in bases)
                if item_ok:
                    var = next(iter(bases))
                    iters = [c.iter for c in ast.walk(rsm) if isinstance(c, ast.comprehension) and dotted_name(c.target) == var] + [f.iter for f in ast.walk(rsm) if isinstance(f, ast.For) and dotted_name(f.target) == var]
                    # every fingerprint handed in: the loop runs over a parameter (by whatever name / position)
                    item_ok = bool(iters) and len({dotted_name(i) for i in iters}) == 1 and dotted_name(iters[0]) in rp
                    fps_param = dotted_name(iters[0]) if item_ok else None
    spec_ok = any(isinstance(d, ast.Dict) and any(isinstance(k, ast.Constant) and k.value == "spec_id" and dotted_name(v) in rp - {fps_param} for k, v in zip(d.keys, d.values)) for d in ast.walk(rsm))
    sorted_ok = any(call_attr(c) in ("sort", "sorted") for c in calls_in(rsm))
    R.check(item_ok and spec_ok and sorted_ok, r_l, IDENT, rsm_q, "payload = {spec_id, sorted [(role, uri, sha256, size)]}", "inputs id does not cover the spec id and every referenced file's content digest (order-independently)", rsm.lineno)

    def reads_file(fn: ast.AST) -> bool:
        hashes = any((call_name(c) or "").startswith("hashlib.") for c in calls_in(fn))
        return hashes and (any(isinstance(x, ast.Constant) and x.value == "rb" for x in ast.walk(fn)) or any(call_attr(c) == "read_bytes" for c in calls_in(fn)))
    sf_def = _by_role(ident_fns, reads_file, "run_space_identity: file digest")
    sf = normalize(repo, ident_mod, sf_def)
    # the whole content: fed chunk by chunk without leaving the loop early, or read at once (read_bytes() / read() without
    # a size / hashlib.file_digest)
    fed = [c for c in calls_in(sf, include_nested=True) if call_attr(c) == "update" or (call_name(c) or "").startswith("hashlib.sha256")]
    whole_reads = [c for c in calls_in(sf, include_nested=True) if call_attr(c) == "read_bytes" or (call_attr(c) == "read" and not c.args and not c.keywords)]
    # a read of a limited size: `h.read(n)` - also spelled as the bound callable `functools.partial(h.read, n)` that
    # `iter(.., sentinel)` calls once per chunk
    def _partial_read(c: ast.Call) -> bool:
        return call_attr(c) == "partial" and bool(c.args) and isinstance(c.args[0], ast.Attribute) and c.args[0].attr == "read" and (len(c.args) > 1 or bool(c.keywords))
    sized_reads = [c for c in calls_in(sf, include_nested=True) if (call_attr(c) == "read" and (c.args or c.keywords)) or _partial_read(c)]
    in_loop = lambda c: any(isinstance(a, (ast.For, ast.While)) for a in ancestors(c))
    chunked = bool(sized_reads) and any(call_attr(c) == "update" and in_loop(c) for c in fed) and not any(isinstance(n, (ast.Break, ast.Return)) and in_loop(n) for n in ast.walk(sf))
    at_once = bool(whole_reads) and not sized_reads and any(c.args for c in fed)
    file_digest = any(call_name(c) == "hashlib.file_digest" for c in calls_in(sf))
    R.check(chunked or at_once or file_digest, r_l, IDENT, qualname_of(sf_def), "digest of the whole file content", "file digest does not read the complete content", sf.lineno)
    canonical_uri_rules(repo, R, ident_fns)
