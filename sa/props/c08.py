"""C08 - run-space expansion yields exactly the documented ordered list of runs.

D1 ordering rules (sorted keys, declaration order, product order), D2 rejection guards dominate
what they protect, D3 the cap is tested before anything of product size is materialised,
D4 error classes.

Locals are identified by role (what defines them), literals may live in module-level constants,
guards may live in a helper that raises (one level), loops may be comprehensions.
"""
from __future__ import annotations

import ast
from typing import Dict, List, Optional, Set, Tuple

from ..cfg import CFG, edges_guaranteeing, returns_only_through
from ..engine import (
    AnalysisError,
    FuncNode,
    Module,
    Repo,
    ancestors,
    assigned_value,
    call_attr,
    call_name,
    calls_in,
    dotted_name,
    kwarg,
    norm,
    stmt_of,
    terminates_in_raise,
    walk_no_nested,
)
from ..pat import find, find1, match, name_of
from ..report import Report

RS = "semantiva/execution/run_space.py"
ERS = "expand_run_space"
CONFIG_ERRORS = ("ConfigurationError", "PipelineConfigurationError")


def _u(e: Optional[ast.AST]) -> str:
    return ast.unparse(e) if e is not None else ""


def _raises(body: List[ast.stmt]) -> Optional[str]:
    if not terminates_in_raise(body):
        return None
    last = body[-1]
    if isinstance(last, ast.Raise) and last.exc is not None:
        t = last.exc.func if isinstance(last.exc, ast.Call) else last.exc
        return dotted_name(t)
    return "?"


def module_consts(mod: Module) -> Dict[str, object]:
    out = {}
    for st in mod.tree.body:
        if isinstance(st, (ast.Assign, ast.AnnAssign)) and isinstance(getattr(st, "value", None), ast.Constant):
            t = st.targets[0] if isinstance(st, ast.Assign) else st.target
            if isinstance(t, ast.Name):
                out[t.id] = st.value.value
    return out


def const_of(e: Optional[ast.AST], consts: Dict[str, object]):
    if isinstance(e, ast.Constant):
        return e.value
    if isinstance(e, ast.Name) and e.id in consts:
        return consts[e.id]
    return None


def defs_of(fn: ast.AST, e: Optional[ast.AST]) -> List[ast.AST]:
    if isinstance(e, ast.Name):
        return assigned_value(fn, e.id) or [e]
    return [e] if e is not None else []


def names_in(e: Optional[ast.AST]) -> Set[str]:
    return {x.id for x in ast.walk(e) if isinstance(x, ast.Name)} if e is not None else set()


def run(repo: Repo, R: Report) -> None:
    mod = repo.module(RS)
    consts = module_consts(mod)
    fn = repo.func(RS, ERS)
    ee = repo.func(RS, "_expand_entries")
    ls = repo.func(RS, "_load_and_process_source")
    spec = fn.args.args[0].arg
    R.assume(
        "itertools.product enumerates with the rightmost iterable varying fastest (stdlib contract)",
        "csv/json/yaml parsers return the file's rows in file order",
    )
    R.undecided("content of parsed source files and scalar coercion values; memory actually used (only *where* product-sized structures are built is decided)")

    # ------------------------------------------------------------------ D1 ordering
    r_ord = R.rule("C08-D1-ordering", "keys inside a block are taken in sorted order (one definition feeding both modes), blocks in declaration order, products via itertools.product over them in that order; context varies slower than source inside a combinatorial block", 7)
    entries = ee.args.args[0].arg
    sk = find(ee, f"_K_ = sorted({entries})")
    any_sorted = [c for c in calls_in(ee) if call_attr(c) == "sorted"]
    ok = len(sk) == 1 and len(any_sorted) == 1
    K = name_of(sk[0][1], "_K_") if sk else "__missing__"
    R.check(ok, r_ord, RS, "_expand_entries", "keys = sorted(entries)", "keys are not iterated in plain sorted order (custom key function, reversed, or mapping order)", ee.lineno)
    prods = [c for c in calls_in(ee) if call_name(c) in ("itertools.product", "product")]
    ok = False
    combo_src = None
    if len(prods) == 1 and len(prods[0].args) == 1 and isinstance(prods[0].args[0], ast.Starred):
        for v in defs_of(ee, prods[0].args[0].value):
            if match(f"[{entries}[_k_] for _k_ in {K}]", v):
                ok = True
    R.check(ok, r_ord, RS, "_expand_entries", "itertools.product(*[entries[k] for k in keys])", "the product is not taken over the value lists in sorted-key order", prods[0].lineno if prods else ee.lineno)
    ok = bool(find(ee, f"dict(zip({K}, _C_))", nested=True))
    R.check(ok, r_ord, RS, "_expand_entries", "dict(zip(keys, combo))", "product combinations are not paired with the sorted keys", ee.lineno)
    ok = False
    for lc in [n for n in ast.walk(ee) if isinstance(n, ast.ListComp)]:
        m = match(f"[{{_k_: {entries}[_k_][_i_] for _k_ in {K}}} for _i_ in range(_N_)]", lc)
        if m:
            ok = True
    if not ok:
        # explicit loop form
        for lp in [n for n in ast.walk(ee) if isinstance(n, ast.For)]:
            if match("range(_N_)", lp.iter) and isinstance(lp.target, ast.Name) and find(lp, f"{{_k_: {entries}[_k_][{lp.target.id}] for _k_ in {K}}}", nested=True):
                ok = True
    R.check(ok, r_ord, RS, "_expand_entries", "[{k: entries[k][i] for k in keys} for i in range(size)]", "by_position does not align positions 0..size-1 over the sorted keys", ee.lineno)
    loops = [n for n in walk_no_nested(fn) if isinstance(n, ast.For) and (match(f"{spec}.blocks", n.iter) or match(f"enumerate({spec}.blocks)", n.iter))]
    other = [n for n in walk_no_nested(fn) if isinstance(n, ast.For) and f"{spec}.blocks" in _u(n.iter) and n not in loops]
    R.check(len(loops) == 1 and not other, r_ord, RS, ERS, norm(loops[0]) if loops else "for block in spec.blocks", "blocks are not processed in declaration order", loops[0].lineno if loops else fn.lineno)
    bl = loops[0] if loops else (other[0] if other else None)
    top = [c for c in ast.walk(fn) if isinstance(c, ast.Call) and call_name(c) in ("itertools.product", "product")]
    ALL = None
    if len(top) == 1 and len(top[0].args) == 1 and isinstance(top[0].args[0], ast.Starred) and isinstance(top[0].args[0].value, ast.Name):
        ALL = top[0].args[0].value.id
    R.check(ALL is not None, r_ord, RS, ERS, "itertools.product(*all_block_runs)", "top-level combination is not the product of the block run lists in declaration order", top[0].lineno if top else fn.lineno)
    apps = [c for c in ast.walk(fn) if isinstance(c, ast.Call) and call_attr(c) == "append" and dotted_name(c.func.value) == ALL]
    ok = len(apps) == 1 and bl is not None and any(a is bl for a in ancestors(apps[0])) and isinstance(apps[0].args[0], ast.Name)
    BR = apps[0].args[0].id if ok else "__missing__"
    R.check(ok, r_ord, RS, ERS, "all_block_runs.append(block_runs)", "block results are not collected in declaration order", apps[0].lineno if apps else fn.lineno)
    # roles inside the block loop
    block = None
    if bl is not None:
        block = bl.target.elts[-1].id if isinstance(bl.target, ast.Tuple) else getattr(bl.target, "id", None)
    ctx_entries = src_entries = None
    if bl is not None and block:
        m = find1(bl, f"_CE_ = {{_k_: list(_v_) for (_k_, _v_) in {block}.context.items()}}") or find1(bl, f"_CE_ = _ANY_") if False else find1(bl, f"_CE_ = {{_k_: list(_v_) for (_k_, _v_) in {block}.context.items()}}")
        if m:
            ctx_entries = name_of(m[1], "_CE_")
        m = find1(bl, f"(_SE_, _SM_) = _load_and_process_source({block}.source, _B_)")
        if m:
            src_entries = name_of(m[1], "_SE_")
    if ctx_entries is None or src_entries is None:
        raise AnalysisError("expand_run_space: per-block context/source entry mappings not recognised")

    def expansions(entries_name: str) -> List[Tuple[ast.Call, Optional[str]]]:
        out = []
        for c in ast.walk(bl):
            if isinstance(c, ast.Call) and call_attr(c) == "_expand_entries" and len(c.args) == 2 and dotted_name(c.args[0]) == entries_name:
                tgt = None
                st = stmt_of(c)
                if isinstance(st, ast.Assign) and isinstance(st.targets[0], ast.Name):
                    tgt = st.targets[0].id
                out.append((c, tgt))
        return out

    ctx_exp, src_exp = expansions(ctx_entries), expansions(src_entries)
    ctx_runs = {t for _c, t in ctx_exp if t}
    src_runs = {t for _c, t in src_exp if t}

    def block_mode_of(node: ast.AST) -> Optional[str]:
        for a in ancestors(node):
            if isinstance(a, ast.If):
                m = match(f"{block}.mode == _M_", a.test)
                if m and any(node is x for s in a.body for x in ast.walk(s)):
                    v = const_of(m["_M_"], consts)
                    if isinstance(v, str):
                        return v
        return None

    # ctx outer / src inner
    combos = []  # (site node, outer iter name, inner iter name)
    for n in ast.walk(bl):
        if isinstance(n, ast.For) and isinstance(n.iter, ast.Name):
            for m in n.body:
                if isinstance(m, ast.For) and isinstance(m.iter, ast.Name) and any(call_attr(c) == "append" for c in calls_in(m)):
                    combos.append((n, n.iter.id, m.iter.id))
        if isinstance(n, (ast.ListComp,)) and len(n.generators) == 2 and all(isinstance(g.iter, ast.Name) for g in n.generators):
            combos.append((n, n.generators[0].iter.id, n.generators[1].iter.id))
    cs = [c for c in combos if {c[1], c[2]} == (ctx_runs | src_runs) and len(ctx_runs) == 1 and len(src_runs) == 1]
    ok = len(cs) == 1 and cs[0][1] in ctx_runs and cs[0][2] in src_runs
    R.check(ok, r_ord, RS, ERS, "block combination: context outer, source inner", "inside a combinatorial block the source no longer varies fastest (or context/source are not combined pairwise)", cs[0][0].lineno if cs else fn.lineno)
    # index-aligned combine over all blocks
    ok = False
    for n in ast.walk(fn):
        if isinstance(n, ast.For) and match("range(_T_)", n.iter) and isinstance(n.target, ast.Name) and not any(a is bl for a in ancestors(n)):
            inner = [m for m in ast.walk(n) if isinstance(m, (ast.For, ast.comprehension)) and dotted_name(m.iter) == ALL]
            if inner and f"[{n.target.id}]" in _u(n):
                ok = True
        if isinstance(n, ast.ListComp) and not any(a is bl for a in ancestors(n)) and match("range(_T_)", n.generators[0].iter) and ALL in names_in(n.elt):
            ok = True
    R.check(ok, r_ord, RS, ERS, "combine=by_position: merge runs[idx] of every block for idx in range(total)", "combine=by_position does not merge aligned positions of all blocks", fn.lineno)

    # ------------------------------------------------------------------ D2 guards
    r_g = R.rule("C08-D2-rejection-guards", "duplicate keys (within a block, across blocks, after rename), missing selected columns and mismatched lengths (key, context-vs-source, block level) are each tested by a guard that raises the configuration error and dominates the merge it protects; the neutral [{}] stands in only for an absent side", 9)

    def mismatch_var(test: ast.AST) -> Optional[str]:
        """`len(set(X)) > 1` / `!= 1` (possibly and-ed with X) -> X."""
        for t in ([test] + (list(test.values) if isinstance(test, ast.BoolOp) and isinstance(test.op, ast.And) else [])):
            m = match("len(set(_X_)) > 1", t) or match("len(set(_X_)) != 1", t)
            if m and isinstance(m["_X_"], ast.Name):
                if isinstance(test, ast.BoolOp) and not all(match("len(set(_X_)) > 1", v) or match("len(set(_X_)) != 1", v) or dotted_name(v) == m["_X_"].id for v in test.values):
                    return None
                return m["_X_"].id
        return None

    def mismatch_guards(f: ast.AST) -> List[Tuple[ast.If, str]]:
        out = []
        for n in ast.walk(f):
            if isinstance(n, ast.If):
                v = mismatch_var(n.test)
                if v and _raises(n.body) in CONFIG_ERRORS:
                    out.append((n, v))
        return out

    mg_ee = mismatch_guards(ee)
    ok = False
    for gnode, v in mg_ee:
        if any(match(f"[len({entries}[_k_]) for _k_ in _K_]", d) for d in assigned_value(ee, v)):
            ok = True
    R.check(ok, r_g, RS, "_expand_entries", "by_position: unequal list lengths raise", "the equal-length guard of positional expansion is missing or no longer raises the configuration error", ee.lineno)
    mg_fn = mismatch_guards(fn)
    in_block = [g for g in mg_fn if bl is not None and any(a is bl for a in ancestors(g[0]))]
    after = [g for g in mg_fn if g not in in_block]
    ok_b = any(all(isinstance(d, ast.ListComp) and "len(" in _u(d.elt) for d in assigned_value(fn, v)) for _g, v in in_block)
    ok_a = any(any(match(f"[len(_r_) for _r_ in {ALL}]", d) for d in assigned_value(fn, v)) for _g, v in after)
    R.check(ok_b, r_g, RS, ERS, "block: context vs source run counts must match", "the context-vs-source size guard of a by_position block is missing or no longer raises", fn.lineno)
    R.check(ok_a, r_g, RS, ERS, "combine=by_position: block sizes must match", "the block-size guard of combine=by_position is missing or no longer raises", fn.lineno)
    # duplicate keys
    dup_ifs = []
    for n in ast.walk(fn):
        if isinstance(n, ast.If) and isinstance(n.test, ast.Name) and _raises(n.body) in CONFIG_ERRORS:
            for d in reaching_values(fn, n.test.id, n):
                if isinstance(d, ast.Call) and call_attr(d) == "intersection":
                    dup_ifs.append((n, d))
    within = [d for _n, d in dup_ifs if {ctx_entries, src_entries} <= names_in(d)]
    seen_name = None
    across = []
    for _n, d in dup_ifs:
        if d in within:
            continue
        recv = d.func.value
        if isinstance(recv, ast.Name):
            across.append(d)
            seen_name = recv.id
    R.check(len(within) >= 1, r_g, RS, ERS, "duplicate keys within a block (context ∩ source) raise", "a key present both inline and in the block's source is no longer rejected", fn.lineno)
    ok = len(across) >= 1 and seen_name is not None
    if ok:
        cur = across[0].args[0] if across[0].args else None
        cur_defs = defs_of(fn, cur)
        ok = any({ctx_entries, src_entries} <= names_in(v) for v in cur_defs) and bool(find(fn, f"{seen_name}.update(_C_)", nested=True))
    R.check(ok, r_g, RS, ERS, "duplicate keys across blocks (seen ∩ current) raise; seen.update(current)", "a key declared in two blocks is no longer rejected (or keys are not all remembered)", fn.lineno)
    # rename collision / select missing
    ok = any(isinstance(n, ast.If) and match("_T_ in _R_", n.test) and _raises(n.body) in CONFIG_ERRORS and bool(find(ls, f"{_u(match('_T_ in _R_', n.test)['_R_'])}[{_u(match('_T_ in _R_', n.test)['_T_'])}] = _V_", nested=True)) for n in ast.walk(ls))
    R.check(ok, r_g, RS, "_load_and_process_source", "rename collision: target already present raises", "two columns renamed onto the same key (or onto an existing one) are no longer rejected", ls.lineno)
    ok = False
    for n in ast.walk(ls):
        if isinstance(n, ast.If) and isinstance(n.test, ast.Name) and _raises(n.body) in CONFIG_ERRORS:
            if any(call_attr(c) == "append" and dotted_name(c.func.value) == n.test.id for c in calls_in(ls)):
                ok = True
    R.check(ok, r_g, RS, "_load_and_process_source", "select: missing columns raise", "selecting a column the source does not have is no longer rejected", ls.lineno)
    # the rename collision test covers every column (no early skip before it)
    for lp in [n for n in ast.walk(ls) if isinstance(n, ast.For) and "items()" in _u(n.iter)]:
        coll = [n for n in ast.walk(lp) if isinstance(n, ast.If) and match("_T_ in _R_", n.test) and _raises(n.body) in CONFIG_ERRORS]
        if coll:
            early = [x for x in ast.walk(lp) if isinstance(x, ast.Continue)]
            R.check(not early, r_g, RS, "_load_and_process_source", "every column passes the collision test", "some columns skip the rename-collision test (a rename onto an un-renamed column is accepted and silently drops data)", lp.lineno)
    # guard dominance of the positional expansion
    g1 = CFG(ee, may_raise=lambda p: set())
    lens_vars = {v for _g, v in mg_ee}
    targets = [n.id for n in g1.nodes if n.ast is not None and n.kind == "stmt" and any(isinstance(x, (ast.ListComp, ast.DictComp)) and f"range(" in _u(x) and "][" in _u(x) for x in ast.walk(n.ast))]
    holds, path, guards_n = returns_only_through(g1, lambda e: (False if mismatch_var(e) in lens_vars and mismatch_var(e) else None), targets=targets)
    R.check(holds and guards_n > 0 and bool(targets), r_g, RS, "_expand_entries", "equal-length test dominates the positional expansion", "positions are aligned without the equal-length test having passed", ee.lineno, path)
    # neutral element only for an absent side
    neutral_bad = []
    neutral_ok = 0
    for n in ast.walk(fn):
        is_neutral = lambda v: isinstance(v, ast.List) and len(v.elts) == 1 and isinstance(v.elts[0], ast.Dict) and not v.elts[0].keys
        if isinstance(n, ast.BoolOp) and isinstance(n.op, ast.Or) and any(is_neutral(v) for v in n.values):
            if any(isinstance(v, ast.Call) and call_attr(v) == "_expand_entries" for v in n.values):
                neutral_bad.append(n)
        if isinstance(n, ast.IfExp) and (is_neutral(n.orelse) or is_neutral(n.body)):
            exp_side = n.body if is_neutral(n.orelse) else n.orelse
            ent = exp_side.args[0] if isinstance(exp_side, ast.Call) and exp_side.args else None
            test_name = dotted_name(n.test) if is_neutral(n.orelse) else (dotted_name(n.test.operand) if isinstance(n.test, ast.UnaryOp) and isinstance(n.test.op, ast.Not) else None)
            if test_name is not None and test_name == dotted_name(ent) and test_name in (ctx_entries, src_entries):
                neutral_ok += 1
            else:
                neutral_bad.append(n)
    # statement form: if entries: runs = expand(...) else: runs = [{}]
    for n in ast.walk(fn):
        if isinstance(n, ast.If) and dotted_name(n.test) in (ctx_entries, src_entries) and n.orelse:
            if any(isinstance(s, ast.Assign) and isinstance(s.value, ast.List) and _u(s.value) == "[{}]" for s in n.orelse):
                neutral_ok += 1
    for b in neutral_bad:
        R.violation(r_g, RS, ERS, "neutral [{}] replaces an empty expansion", "the neutral run [{}] replaces an *empty expansion* (e.g. a key with an empty value list) instead of an *absent* side: runs appear that lack declared keys and empty blocks no longer yield zero runs", b.lineno)
    if not neutral_bad:
        R.check(neutral_ok == 2, r_g, RS, ERS, "[{}] only when the entries mapping is empty (context, source)", "neutral element selection not recognised", fn.lineno)

    # ------------------------------------------------------------------ D3 cap before materialisation
    r_cap = R.rule("C08-D3-cap-before-materialisation", "every statement that materialises something of product size is dominated by a test `size > spec.max_runs` (size computed from len()s only, directly or in a helper that raises) whose failing branch raises RunSpaceMaxRunsExceededError", 4)
    g = CFG(fn, may_raise=lambda p: set())
    materialised = {dotted_name(r.value.elts[0]) for r in walk_no_nested(fn) if isinstance(r, ast.Return) and isinstance(r.value, ast.Tuple) and r.value.elts} | {BR}

    def size_ok(f: ast.AST, left: ast.AST) -> bool:
        for v in defs_of(f, left):
            if any(isinstance(c, ast.Call) and call_attr(c) == "len" and dotted_name(c.args[0]) in materialised for c in ast.walk(v)):
                return False
        return True

    def cap_atom_in(f: ast.AST, cap_expr: str):
        def atom(e: ast.AST) -> Optional[bool]:
            m = match(f"_S_ > {cap_expr}", e)
            if m and size_ok(f, m["_S_"]):
                return False  # the test is the negation of "within cap"
            m = match(f"_S_ <= {cap_expr}", e)
            if m and size_ok(f, m["_S_"]):
                return True
            return None
        return atom

    cap_atom = cap_atom_in(fn, f"{spec}.max_runs")
    cap_ifs = [n for n in g.nodes if n.kind == "if" and n.part is not None and edges_guaranteeing(n.part, cap_atom)]
    n_cap = 0
    for n in cap_ifs:
        exc = _raises(n.ast.body)
        n_cap += 1
        R.check(exc == "RunSpaceMaxRunsExceededError", r_cap, RS, ERS, "cap test raises the max-runs error", f"exceeding the cap raises {exc} instead of the max-runs error", n.line)
        if exc:
            rc = n.ast.body[-1].exc
            m = match(f"_S_ > {spec}.max_runs", n.part)
            ok = isinstance(rc, ast.Call) and m is not None and _u(kwarg(rc, "actual_runs")) == _u(m["_S_"]) and _u(kwarg(rc, "max_runs")) == f"{spec}.max_runs"
            R.check(ok, r_cap, RS, ERS, "max-runs error carries projected size and limit", "the max-runs error does not carry the projected size and the limit", n.line)
    # helper functions that raise unless within cap: _helper(size, spec)
    helper_calls = []
    for hqn, hf in [(q, n) for q, n in mod.defs.items() if isinstance(n, FuncNode) and "." not in q and n is not fn]:
        params = [a.arg for a in hf.args.args]
        for n in walk_no_nested(hf):
            if isinstance(n, ast.If) and _raises(n.body) == "RunSpaceMaxRunsExceededError":
                m = match("_S_ > _C_", n.test)
                if m and isinstance(m["_S_"], ast.Name) and m["_S_"].id in params and "max_runs" in _u(m["_C_"]) and hf.body.index(n) <= 1:
                    helper_calls.append((hf.name, params.index(m["_S_"].id)))
    blocked = set()
    for n in cap_ifs:
        for e in edges_guaranteeing(n.part, cap_atom):
            blocked.add((n.id, e))
    for n in g.nodes:
        if n.ast is not None and n.kind == "stmt":
            for c in calls_in(n.ast):
                for hname, idx in helper_calls:
                    if call_attr(c) == hname and len(c.args) > idx and size_ok(fn, c.args[idx]):
                        n_cap += 1
                        for _t, lab in g.succ[n.id]:
                            blocked.add((n.id, lab))
                        R.ok(r_cap, RS, ERS, f"cap enforced through helper {hname}()", "", c.lineno)
    seen = g.reach([g.entry], blocked_edges=blocked)
    # materialisation sites by role
    sites: List[Tuple[str, ast.AST]] = []
    for c, _t in ctx_exp:
        mode = const_of(c.args[1], consts)
        if mode != "by_position":
            sites.append((f"block expansion: context side ({block_mode_of(c) or '?'} block)", stmt_of(c)))
    for c, _t in src_exp:
        mode = const_of(c.args[1], consts)
        if mode != "by_position":
            sites.append((f"block expansion: source side ({block_mode_of(c) or '?'} block)", stmt_of(c)))
    for n, a, b in cs:
        sites.append(("block combination: context x source", n if isinstance(n, ast.stmt) else stmt_of(n)))
    for c in top:
        sites.append(("top-level combination: product of all blocks", stmt_of(c)))
    if len(sites) < 4 and not R.violations():
        raise AnalysisError(f"expand_run_space: only {len(sites)} product-materialisation site(s) recognised")
    for label, s in sites:
        ids = g.nodes_for(s)
        if not ids:
            # comprehension inside an assignment etc.: use the enclosing statement
            ids = g.nodes_for(stmt_of(s))
        if not ids:
            continue
        unguarded = ids[0] in seen
        R.check(not unguarded, r_cap, RS, ERS, label, "a structure of product size is built before (or without) the max_runs test: a specification far larger than the cap is fully materialised first", s.lineno, g.path_to(seen, ids[0])[-6:] if unguarded else None)
    if n_cap == 0:
        R.violation(r_cap, RS, ERS, "cap test", "no `size > spec.max_runs` test on a projected size exists", fn.lineno)
    # the size used for the product is the product of all block sizes
    ok = False
    for n in ast.walk(fn):
        if isinstance(n, ast.AugAssign) and isinstance(n.op, ast.Mult) and match("len(_r_)", n.value) and any(isinstance(a, ast.For) and dotted_name(a.iter) == ALL for a in ancestors(n)):
            ok = True
        if isinstance(n, ast.Call) and call_name(n) in ("math.prod", "prod") and ALL in names_in(n):
            ok = True
    R.check(ok or n_cap == 0, r_cap, RS, ERS, "projected size = product of len(runs) over all blocks", "the projected size is not the product of all block sizes", fn.lineno)

    # ------------------------------------------------------------------ D4 error classes
    r_err = R.rule("C08-D4-error-classes", "expansion raises only the documented configuration error and max-runs error", 5)
    for f in [n for q, n in mod.defs.items() if isinstance(n, FuncNode) and "." not in q and n.name != "_coerce_scalar"]:
        for n in walk_no_nested(f):
            if isinstance(n, ast.Raise) and n.exc is not None:
                t = n.exc.func if isinstance(n.exc, ast.Call) else n.exc
                R.check(dotted_name(t) in ("ConfigurationError", "RunSpaceMaxRunsExceededError"), r_err, RS, f.name, f"raise {dotted_name(t)}", "an undocumented exception class is raised for an invalid run space", n.lineno)
    # the cap value itself comes from the configuration unchanged
    from ..engine import Repo as _R  # noqa: F401
    lp = repo.maybe_func("semantiva/configurations/load_pipeline_from_yaml.py", "_parse_run_space_block")
    if lp is not None:
        r_cfg = R.rule("C08-D3-cap-value", "the max_runs value of the block is taken as given (an explicit 0 is not replaced by the default)", 1)
        bad = [n for n in ast.walk(lp) if isinstance(n, ast.BoolOp) and isinstance(n.op, ast.Or) and "max_runs" in _u(n.values[0])]
        gets = [c for c in ast.walk(lp) if isinstance(c, ast.Call) and call_attr(c) == "get" and c.args and isinstance(c.args[0], ast.Constant) and c.args[0].value == "max_runs"]
        R.check(bool(gets) and not bad, r_cfg, "semantiva/configurations/load_pipeline_from_yaml.py", "_parse_run_space_block", "max_runs = block.get('max_runs', <default>)", "a falsy max_runs (0) is replaced by the default: a cap of 0 no longer rejects anything", lp.lineno)


def reaching_values(fn: ast.AST, name: str, at: ast.AST) -> List[ast.AST]:
    """Right-hand sides of the assignments to *name* that textually precede *at* (nearest first) in the
    same or an enclosing block; falls back to all assignments."""
    vals = []
    for n in ast.walk(fn):
        if isinstance(n, ast.Assign) and any(isinstance(t, ast.Name) and t.id == name for t in n.targets) and n.lineno <= getattr(at, "lineno", 0):
            vals.append(n)
    vals.sort(key=lambda n: -n.lineno)
    return [vals[0].value] if vals else assigned_value(fn, name)
