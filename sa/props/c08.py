"""C08 - run-space expansion yields exactly the documented ordered list of runs.

D1 ordering rules (sorted keys, declaration order, product order), D2 rejection guards dominate
what they protect, D3 the cap is tested before anything of product size is materialised,
D4 error classes.  Round 4: the configuration parser and the run-space dataclasses agree on what a missing key means
(C08-D1-declared-defaults, an interface rule over every function that builds the dataclasses), and source content
reaches a word-accepting converter (float, ...) only behind a test on its spelling (C08-D1-source-cells).
Defect 4eea17b: every failure of reading a source file (I/O and decoding class) is carried through the handlers and
call sites of the call graph of expand_run_space and must leave it as the configuration error named by the `except`
clauses around the CLI's expand_run_space call (C08-D4-read-errors-converted, sibling of the parser-error conversion
in C08-D4-error-classes; re-applied by C17).
Round 7: rejection and the union of keys are for-all statements over the declared blocks - the loop over the blocks
(expansion) and the loop that builds the block objects (parser, found by role) are left only by exhaustion or by
raising, and no iteration gets round the collection / duplicate test / construction (C08-D2-every-block-examined,
C08-D2-every-block-built); rename is one simultaneous mapping: the mapping the renamed columns are filed into starts
without columns under their old names (C08-D1-rename-simultaneous).

Everything is decided on the *normal form* of the three anchored functions (private helpers inlined,
module constants substituted, if/else merged, accumulate loops turned into comprehensions, pure
single-assignment locals substituted).  Locals are identified by *provenance* (reaching definitions:
"derived from block.context", "first item of _load_and_process_source(...)", "an expansion of the
context mapping"), never by name.  A guard is a branch of the CFG: one edge guarantees the protected
condition (interpreting not/and/or), every path over the other edge ends in `raise <config error>`;
which edge is the `if` body does not matter.  What is protected must be unreachable without passing
the guaranteeing edge.
"""
from __future__ import annotations

import ast
import copy
from typing import Callable, Dict, FrozenSet, Iterator, List, Optional, Sequence, Set, Tuple

from ..cfg import CFG, edges_guaranteeing, reaching_defs
from ..engine import (
    AnalysisError,
    FuncNode,
    Repo,
    _attach_parents,
    ancestors,
    assigned_value,
    call_attr,
    call_name,
    calls_in,
    dotted_name,
    kwarg,
    norm,
    parent,
    stmt_of,
    terminates_in_raise,
    walk_no_nested,
)
from ..normal import nfunc
from ..pat import find, match
from ..report import Report

RS = "semantiva/execution/run_space.py"
ERS = "expand_run_space"
EE = "_expand_entries"
LPS = "_load_and_process_source"
LSF = "_load_source_file"
KEEP = (EE, LPS, LSF)
_DEFAULT_ANCHORS = (EE, LPS, LSF)
_PARSER_MODULES = ("csv", "json", "yaml", "tomllib")
_MODE_WORDS = ("by_position", "combinatorial")


def _resolve_anchors(repo: Repo) -> None:
    """The three private helpers of the expansion are found by what they do in the call graph of the public
    `expand_run_space`, not by how they are spelled (a private helper can be renamed any day):

    * the *file loader*: the deepest module-level function through which every call of a content parser
      (csv / json / yaml module) of the expansion is reached;
    * the *source processor*: the outermost function between the entry point and the file loader that reads the
      `select` / `rename` declarations (public fields of the source dataclass) of one of its parameters;
    * the *entries expander*: the function that compares one of its own parameters with the mode words
      (`by_position` / `combinatorial`, the public vocabulary) and (itself or through its callees) calls itertools.product.

    A role that cannot be told apart (none / several candidates) falls back to the historical name; when that does not
    exist either the later look-up ends in the documented ANALYSIS-ERROR."""
    global EE, LPS, LSF, KEEP
    ee, lps, lsf = _DEFAULT_ANCHORS
    try:
        mod = repo.module(RS)
        funcs = {q: n for q, n in mod.defs.items() if isinstance(n, FuncNode) and "." not in q}
    except Exception:
        funcs = {}
    if ERS in funcs:
        def ext(f: ast.AST) -> str:
            d = dotted_name(f) or ""
            head, _, rest = d.partition(".")
            target = getattr(mod, "imports", {}).get(head)
            if target is None:
                return d
            return f"{target}.{rest}" if rest else target

        direct: Dict[str, Set[str]] = {}
        for q, n in funcs.items():
            direct[q] = {c.func.id for c in ast.walk(n) if isinstance(c, ast.Call) and isinstance(c.func, ast.Name) and c.func.id in funcs and c.func.id != q}

        def closure(q: str) -> Set[str]:
            seen: Set[str] = set()
            todo = [q]
            while todo:
                x = todo.pop()
                for y in direct.get(x, ()):
                    if y not in seen:
                        seen.add(y)
                        todo.append(y)
            return seen

        reach = closure(ERS) - {ERS}
        clo = {q: closure(q) for q in reach}
        # file loader
        parsing = {q for q in reach if any(isinstance(c, ast.Call) and ext(c.func).split(".")[0] in _PARSER_MODULES for c in ast.walk(funcs[q]))}
        cover = [q for q in reach if parsing and parsing <= (clo[q] | {q})]
        deepest = [q for q in cover if not any(o != q and o in clo[q] for o in cover)]
        if len(deepest) == 1:
            lsf = deepest[0]
        # source processor
        if lsf in funcs:
            def reads_decl(q: str) -> bool:
                a = funcs[q].args
                params = {x.arg for x in a.posonlyargs + a.args + a.kwonlyargs}
                return any(isinstance(x, ast.Attribute) and x.attr in ("select", "rename") and isinstance(x.value, ast.Name) and x.value.id in params for x in ast.walk(funcs[q]))
            cands = [q for q in reach if q != lsf and lsf in clo[q] and reads_decl(q)]
            outer = [q for q in cands if not any(o != q and q in clo[o] for o in cands)]
            if len(outer) == 1:
                lps = outer[0]
        # entries expander
        def on_mode_param(q: str) -> bool:
            a = funcs[q].args
            params = {x.arg for x in a.posonlyargs + a.args + a.kwonlyargs}
            for x in ast.walk(funcs[q]):
                if isinstance(x, ast.Compare) and len(x.ops) == 1:
                    sides = [x.left, x.comparators[0]]
                    names = [s_ for s_ in sides if isinstance(s_, ast.Name) and s_.id in params]
                    words = [w for s_ in sides for w in ast.walk(s_) if isinstance(w, ast.Constant) and w.value in _MODE_WORDS]
                    if names and words:
                        return True
            return False

        def has_product(q: str) -> bool:
            return any(isinstance(c, ast.Call) and ext(c.func) in ("itertools.product",) for o in (clo[q] | {q}) for c in ast.walk(funcs[o]))
        cands = [q for q in reach if q not in (lsf, lps) and on_mode_param(q)]
        withp = [q for q in cands if has_product(q)]
        pick = withp if withp else cands
        outer = [q for q in pick if not any(o != q and q in clo[o] for o in pick)]
        if len(outer) == 1:
            ee = outer[0]
    EE, LPS, LSF = ee, lps, lsf
    KEEP = (EE, LPS, LSF)
CONFIG_ERRORS = ("ConfigurationError", "PipelineConfigurationError")
CAP_ERROR = "RunSpaceMaxRunsExceededError"
COMPS = (ast.ListComp, ast.SetComp, ast.GeneratorExp, ast.DictComp)


def _u(e: Optional[ast.AST]) -> str:
    return ast.unparse(e) if e is not None else ""


def _last(name: Optional[str]) -> Optional[str]:
    return name.split(".")[-1] if name else name


def names_in(e: Optional[ast.AST]) -> Set[str]:
    return {x.id for x in ast.walk(e) if isinstance(x, ast.Name)} if e is not None else set()


def _raises(body: List[ast.stmt]) -> Optional[str]:
    if not terminates_in_raise(body):
        return None
    last = body[-1]
    if isinstance(last, ast.Raise) and last.exc is not None:
        t = last.exc.func if isinstance(last.exc, ast.Call) else last.exc
        return dotted_name(t)
    return "?"


def call_arg(c: ast.Call, idx: int, name: Optional[str]) -> Optional[ast.AST]:
    """Argument of *c* given positionally at *idx* or by keyword *name*."""
    if len(c.args) > idx and not any(isinstance(a, ast.Starred) for a in c.args[: idx + 1]):
        return c.args[idx]
    if name and kwarg(c, name) is None:
        # f(**{"name": value, ..}): keywords handed over as a mapping display
        hits = [v for kw in c.keywords if kw.arg is None and isinstance(kw.value, ast.Dict) for k, v in zip(kw.value.keys, kw.value.values) if isinstance(k, ast.Constant) and k.value == name]
        if len(hits) == 1:
            return hits[0]
    return kwarg(c, name) if name else None


def strip_keyset(e: ast.AST) -> ast.AST:
    """Peel wrappers that keep the key set / element order of a mapping or key collection."""
    while True:
        if isinstance(e, ast.Call) and not e.keywords and len(e.args) == 1 and isinstance(e.func, ast.Name) and e.func.id in ("set", "list", "dict", "tuple", "frozenset", "iter"):
            e = e.args[0]
        elif isinstance(e, ast.Call) and not e.args and not e.keywords and isinstance(e.func, ast.Attribute) and e.func.attr in ("keys", "items", "copy"):
            e = e.func.value
        elif isinstance(e, ast.Dict) and len(e.keys) == 1 and e.keys[0] is None:
            e = e.values[0]
        else:
            return e


def is_empty_container(e: ast.AST) -> bool:
    if isinstance(e, (ast.List, ast.Set, ast.Tuple)) and not e.elts:
        return True
    if isinstance(e, ast.Dict) and not e.keys:
        return True
    return isinstance(e, ast.Call) and not e.args and not e.keywords and isinstance(e.func, ast.Name) and e.func.id in ("set", "list", "dict", "tuple", "frozenset")


def is_neutral(v: Optional[ast.AST]) -> bool:
    return isinstance(v, ast.List) and len(v.elts) == 1 and isinstance(v.elts[0], ast.Dict) and not v.elts[0].keys


def iterations(root: ast.AST) -> Iterator[Tuple[ast.AST, ast.AST, ast.AST, List[ast.AST]]]:
    """(construct, iterable, target, nodes evaluated per element) for every `for` statement and every
    comprehension generator under *root*: a loop and the comprehension it can be rewritten into look alike."""
    for n in ast.walk(root):
        if isinstance(n, ast.For):
            yield n, n.iter, n.target, list(n.body)
        elif isinstance(n, COMPS):
            res = [n.key, n.value] if isinstance(n, ast.DictComp) else [n.elt]
            for i, gen in enumerate(n.generators):
                yield n, gen.iter, gen.target, list(gen.ifs) + [x for g in n.generators[i + 1:] for x in [g.iter] + list(g.ifs)] + res


def found(nodes: Sequence[ast.AST], pattern: str) -> List[Tuple[ast.AST, dict]]:
    out = []
    for b in nodes:
        out.extend(find(b, pattern, nested=True))
    return out


def cmp_parts(e: ast.AST) -> Optional[Tuple[ast.AST, type, ast.AST]]:
    """Single comparison as (left, op type, right) with an integer constant moved to the right."""
    if not (isinstance(e, ast.Compare) and len(e.ops) == 1):
        return None
    l, op, r = e.left, type(e.ops[0]), e.comparators[0]
    flip = {ast.Lt: ast.Gt, ast.Gt: ast.Lt, ast.LtE: ast.GtE, ast.GtE: ast.LtE, ast.Eq: ast.Eq, ast.NotEq: ast.NotEq}
    if isinstance(l, ast.Constant) and not isinstance(r, ast.Constant) and op in flip:
        l, op, r = r, flip[op], l
    return l, op, r


def count_cmp(e: ast.AST) -> Optional[Tuple[ast.AST, str]]:
    """`len(X) <op> n` classified: (X, 'many') for >1 / >=2 / !=1, (X, 'atmost1') for <=1 / <2 / ==1,
    (X, 'some') for >0 / >=1 / !=0, (X, 'none') for ==0 / <1 / <=0."""
    p = cmp_parts(e)
    if p is None:
        return None
    l, op, r = p
    if not (isinstance(l, ast.Call) and isinstance(l.func, ast.Name) and l.func.id == "len" and len(l.args) == 1 and isinstance(r, ast.Constant) and isinstance(r.value, int) and not isinstance(r.value, bool)):
        return None
    n = r.value
    table = {
        (ast.Gt, 1): "many", (ast.GtE, 2): "many", (ast.NotEq, 1): "many",
        (ast.LtE, 1): "atmost1", (ast.Lt, 2): "atmost1", (ast.Eq, 1): "atmost1",
        (ast.Gt, 0): "some", (ast.GtE, 1): "some", (ast.NotEq, 0): "some",
        (ast.Eq, 0): "none", (ast.Lt, 1): "none", (ast.LtE, 0): "none",
    }
    kind = table.get((op, n))
    return (l.args[0], kind) if kind else None


def _container_kind(e: ast.AST) -> Optional[str]:
    """'dict' / 'set' / 'list' / 'tuple' when the expression visibly builds a container of that type."""
    if isinstance(e, (ast.Dict, ast.DictComp)):
        return "dict"
    if isinstance(e, (ast.Set, ast.SetComp)):
        return "set"
    if isinstance(e, (ast.List, ast.ListComp)):
        return "list"
    if isinstance(e, ast.Tuple):
        return "tuple"
    if isinstance(e, ast.Call) and isinstance(e.func, ast.Name):
        return {"dict": "dict", "set": "set", "frozenset": "set", "list": "list", "sorted": "list", "tuple": "tuple"}.get(e.func.id)
    if isinstance(e, ast.Call) and isinstance(e.func, ast.Attribute) and e.func.attr in ("intersection", "difference", "symmetric_difference"):
        return "set"
    if isinstance(e, ast.Call) and isinstance(e.func, ast.Attribute) and e.func.attr == "union":
        return _container_kind(e.func.value)
    if isinstance(e, ast.BinOp) and isinstance(e.op, (ast.BitAnd, ast.BitOr, ast.Sub)):
        l, r = _container_kind(e.left), _container_kind(e.right)
        return l if l == r or r is None else (r if l is None else None)
    return None


def emptiness_test(e: ast.AST, flow: Optional["Flow"] = None, at: Optional[ast.AST] = None) -> Optional[Tuple[ast.AST, bool]]:
    """(X, empty?) when the truth of *e* tells that the collection X is empty (True) / not empty (False):
    `len(X) == 0`, `len(X) > 0`, ... (count_cmp), bare `len(X)` / `bool(X)`, and `X == {}` / `X != []` provided the
    empty display has the type X is visibly built with and none of its definitions visibly builds another type
    (`a_set == {}` is never true).  A bare name is left to the
    caller (it knows what the name has to stand for)."""
    cc = count_cmp(e)
    if cc and cc[1] in ("some", "none"):
        return cc[0], cc[1] == "none"
    if isinstance(e, ast.Call) and isinstance(e.func, ast.Name) and e.func.id in ("len", "bool") and len(e.args) == 1 and not e.keywords:
        return e.args[0], False
    if isinstance(e, ast.Compare) and len(e.ops) == 1 and isinstance(e.ops[0], (ast.Eq, ast.NotEq)):
        l, r = e.left, e.comparators[0]
        if is_empty_container(l) and not is_empty_container(r):
            l, r = r, l
        if is_empty_container(r) and not is_empty_container(l) and flow is not None:
            want = _container_kind(r)
            kinds = {_container_kind(v) for v, _s in flow.values(l, at if at is not None else stmt_of(e))}
            if want is not None and want in kinds and kinds <= {want, None}:  # some definitions may be opaque (a call result)
                return l, isinstance(e.ops[0], ast.Eq)
    return None


def keyed_stores(root: ast.AST) -> Iterator[Tuple[ast.stmt, str, ast.AST]]:
    """(statement, mapping local, key expression) for every statement under *root* that files one value under one key
    of a mapping held in a local, however the store is spelled: `M[k] = v`, `M.update({k: v})`, `M.__setitem__(k, v)`,
    `M.setdefault(k, v)`, `M |= {k: v}`, `M = {**M, k: v}`, `M = M | {k: v}`."""
    def display_keys(d: ast.AST) -> Optional[List[ast.AST]]:
        return list(d.keys) if isinstance(d, ast.Dict) and d.keys and all(k is not None for k in d.keys) else None

    for n in ast.walk(root):
        if isinstance(n, ast.Assign) and len(n.targets) == 1:
            t = n.targets[0]
            if isinstance(t, ast.Subscript) and isinstance(t.value, ast.Name):
                yield n, t.value.id, t.slice
            elif isinstance(t, ast.Name) and isinstance(n.value, ast.Dict) and n.value.keys and n.value.keys[0] is None and isinstance(n.value.values[0], ast.Name) and n.value.values[0].id == t.id and all(k is not None for k in n.value.keys[1:]):
                for k in n.value.keys[1:]:
                    yield n, t.id, k
            elif isinstance(t, ast.Name) and isinstance(n.value, ast.BinOp) and isinstance(n.value.op, ast.BitOr) and isinstance(n.value.left, ast.Name) and n.value.left.id == t.id:
                for k in display_keys(n.value.right) or []:
                    yield n, t.id, k
        elif isinstance(n, ast.AugAssign) and isinstance(n.op, ast.BitOr) and isinstance(n.target, ast.Name):
            for k in display_keys(n.value) or []:
                yield n, n.target.id, k
        elif isinstance(n, ast.Expr) and isinstance(n.value, ast.Call) and isinstance(n.value.func, ast.Attribute) and isinstance(n.value.func.value, ast.Name) and not n.value.keywords:
            c = n.value
            if c.func.attr == "update" and len(c.args) == 1:
                for k in display_keys(c.args[0]) or []:
                    yield n, c.func.value.id, k
            elif c.func.attr in ("__setitem__", "setdefault") and len(c.args) == 2:
                yield n, c.func.value.id, c.args[0]


def mutated_in(root: ast.AST, name: str) -> bool:
    """The container held in the local *name* is changed in place somewhere under *root*."""
    for n in ast.walk(root):
        if isinstance(n, ast.Call) and isinstance(n.func, ast.Attribute) and isinstance(n.func.value, ast.Name) and n.func.value.id == name and n.func.attr in ("update", "setdefault", "pop", "popitem", "clear", "__setitem__", "__delitem__", "add", "append", "extend", "insert", "discard", "remove", "sort", "reverse"):
            return True
        if isinstance(n, ast.Subscript) and isinstance(n.ctx, (ast.Store, ast.Del)) and isinstance(n.value, ast.Name) and n.value.id == name:
            return True
        if isinstance(n, ast.AugAssign) and isinstance(n.target, ast.Name) and n.target.id == name:
            return True
    return False


def _single_store(st: ast.stmt) -> Optional[Tuple[str, ast.AST, ast.AST]]:
    """(mapping local, key, value) when the statement files exactly one value under one key of a mapping local."""
    def one(d: ast.AST) -> Optional[Tuple[ast.AST, ast.AST]]:
        return (d.keys[0], d.values[0]) if isinstance(d, ast.Dict) and len(d.keys) == 1 and d.keys[0] is not None else None

    if isinstance(st, ast.Assign) and len(st.targets) == 1 and isinstance(st.targets[0], ast.Subscript) and isinstance(st.targets[0].value, ast.Name):
        return st.targets[0].value.id, st.targets[0].slice, st.value
    if isinstance(st, ast.AugAssign) and isinstance(st.op, ast.BitOr) and isinstance(st.target, ast.Name) and one(st.value):
        return (st.target.id,) + one(st.value)
    if isinstance(st, ast.Expr) and isinstance(st.value, ast.Call) and isinstance(st.value.func, ast.Attribute) and isinstance(st.value.func.value, ast.Name) and not st.value.keywords:
        c = st.value
        if c.func.attr == "update" and len(c.args) == 1 and one(c.args[0]):
            return (c.func.value.id,) + one(c.args[0])
        if c.func.attr == "__setitem__" and len(c.args) == 2:
            return c.func.value.id, c.args[0], c.args[1]
    return None


def canon_dicts(fn: ast.AST) -> ast.AST:
    """Own copy of a normal form in which a mapping built from (key, value) pairs has one spelling, the dict
    comprehension: `dict((k, v) for ..)` / `dict([(k, v) for ..])`, and `m = {}` followed by a loop whose whole body
    files one pair (`m[k] = v`, `m.update({k: v})`, `m |= {k: v}`, `m.__setitem__(k, v)`).  Same keys, values, order."""
    par = parent(fn)
    new = copy.deepcopy(fn, {id(par): par} if par is not None else {})

    class T(ast.NodeTransformer):
        def visit_Call(self, c: ast.Call) -> ast.AST:
            self.generic_visit(c)
            if isinstance(c.func, ast.Name) and c.func.id == "dict" and len(c.args) == 1 and not c.keywords and isinstance(c.args[0], (ast.GeneratorExp, ast.ListComp)):
                elt = c.args[0].elt
                if isinstance(elt, ast.Tuple) and len(elt.elts) == 2 and not any(isinstance(x, ast.Starred) for x in elt.elts):
                    return ast.copy_location(ast.DictComp(key=elt.elts[0], value=elt.elts[1], generators=c.args[0].generators), c)
            return c

        def generic_visit(self, node: ast.AST) -> ast.AST:
            super().generic_visit(node)
            for field in ("body", "orelse", "finalbody"):
                body = getattr(node, field, None)
                if not isinstance(body, list) or not all(isinstance(x, ast.stmt) for x in body):
                    continue
                i = 0
                while i + 1 < len(body):
                    a, lp = body[i], body[i + 1]
                    tgt = a.targets[0] if isinstance(a, ast.Assign) and len(a.targets) == 1 else a.target if isinstance(a, ast.AnnAssign) else None
                    val = getattr(a, "value", None)
                    if isinstance(tgt, ast.Name) and val is not None and is_empty_container(val) and _container_kind(val) == "dict" and isinstance(lp, ast.For) and not lp.orelse and len(lp.body) == 1:
                        st = _single_store(lp.body[0])
                        if st is not None and st[0] == tgt.id and tgt.id not in (names_in(st[1]) | names_in(st[2]) | names_in(lp.iter) | names_in(lp.target)):
                            a.value = ast.copy_location(ast.DictComp(key=st[1], value=st[2], generators=[ast.comprehension(target=lp.target, iter=lp.iter, ifs=[], is_async=0)]), lp)
                            for x in ast.walk(a.value.generators[0].target):
                                if isinstance(x, ast.Name):
                                    x.ctx = ast.Store()
                            del body[i + 1]
                            continue
                    i += 1
            return node

    new = T().visit(new)
    ast.fix_missing_locations(new)
    _attach_parents(new)
    new._parent = par  # type: ignore[attr-defined]
    return new


class Flow:
    """CFG of one (normal-form) function with reaching-definition look-ups and guard queries."""

    def __init__(self, fn: ast.AST):
        self.fn = fn
        self.g = CFG(fn, may_raise=lambda p: set())
        self._rd: Dict[Tuple[str, int], List[Tuple]] = {}

    def nid(self, node: ast.AST) -> int:
        cur = node if isinstance(node, ast.stmt) else stmt_of(node)
        while True:
            ids = self.g.nodes_for(cur)
            if ids:
                return ids[0]
            nxt = None
            for a in ancestors(cur):
                if isinstance(a, ast.stmt):
                    nxt = a
                    break
            if nxt is None or nxt is self.fn:
                raise AnalysisError(f"{getattr(self.fn, 'name', '?')}: no control-flow node for `{norm(cur)[:60]}`")
            cur = nxt

    def defs(self, name: str, at: ast.AST) -> List[Tuple]:
        """Reaching definitions of *name* at the statement of *at*: ('val', expr, stmt) |
        ('item', expr, index, stmt) | ('iter', for-stmt) | ('aug', stmt) | ('other', stmt)."""
        use = self.nid(at)
        key = (name, use)
        if key in self._rd:
            return self._rd[key]
        out: List[Tuple] = []
        for d in reaching_defs(self.g, name, use):
            a = d.ast
            if isinstance(a, ast.Assign) and any(isinstance(t, ast.Name) and t.id == name for t in a.targets):
                out.append(("val", a.value, a))
            elif isinstance(a, ast.AnnAssign) and isinstance(a.target, ast.Name) and a.value is not None:
                out.append(("val", a.value, a))
            elif isinstance(a, ast.Assign):
                hit = False
                for t in a.targets:
                    if isinstance(t, (ast.Tuple, ast.List)):
                        for i, el in enumerate(t.elts):
                            if isinstance(el, ast.Name) and el.id == name:
                                out.append(("item", a.value, i, a))
                                hit = True
                if not hit:
                    out.append(("other", a))
            elif isinstance(a, ast.For):
                out.append(("iter", a))
            elif isinstance(a, ast.AugAssign):
                out.append(("aug", a))
            else:
                out.append(("other", a))
        self._rd[key] = out
        return out

    def values(self, e: ast.AST, at: ast.AST, depth: int = 4) -> List[Tuple[ast.AST, ast.AST]]:
        """(expression, statement it is evaluated in) pairs *e* can stand for: a local is followed through its
        reaching plain assignments (tuple items through tuple displays); anything else is returned as is."""
        if not isinstance(e, ast.Name) or depth <= 0:
            return [(e, at)]
        ds = self.defs(e.id, at)
        if not ds:
            return [(e, at)]
        out: List[Tuple[ast.AST, ast.AST]] = []
        for d in ds:
            if d[0] == "val":
                if isinstance(d[1], ast.Name) and d[1].id == e.id:
                    continue
                out.extend(self.values(d[1], d[2], depth - 1))
            elif d[0] == "item":
                got = False
                for v, st in self.values(d[1], d[3], depth - 1):
                    if isinstance(v, (ast.Tuple, ast.List)) and len(v.elts) > d[2] and not any(isinstance(x, ast.Starred) for x in v.elts):
                        out.extend(self.values(v.elts[d[2]], st, depth - 1))
                        got = True
                if not got:
                    out.append((e, at))
            else:
                out.append((e, at))
        return out

    def raise_only(self, nid: int, label: str) -> Optional[Set[str]]:
        """Exception class names raised when edge (*nid*, *label*) is taken, provided no path over that edge
        returns normally; None otherwise."""
        targets = [t for t, lab in self.g.succ[nid] if lab == label]
        if not targets:
            return None
        seen = self.g.reach(targets)
        if self.g.ret_exit in seen:
            return None
        out: Set[str] = set()
        for i in seen:
            a = self.g.nodes[i].ast
            if isinstance(a, ast.Raise) and self.g.nodes[i].kind == "stmt":
                if a.exc is None:
                    out.add("?")
                    continue
                t = a.exc.func if isinstance(a.exc, ast.Call) else a.exc
                nm = dotted_name(t)
                if isinstance(t, ast.Name):
                    vs = [v for v, _s in self.values(t, a)]
                    if vs and all(isinstance(v, ast.Call) for v in vs):
                        for v in vs:
                            out.add(_last(dotted_name(v.func)) or "?")
                        continue
                out.add(_last(nm) or "?")
        return out

    def raise_nodes(self, nid: int, label: str) -> List[ast.Raise]:
        targets = [t for t, lab in self.g.succ[nid] if lab == label]
        seen = self.g.reach(targets)
        return [self.g.nodes[i].ast for i in seen if isinstance(self.g.nodes[i].ast, ast.Raise) and self.g.nodes[i].kind == "stmt"]

    def lift(self, atom: Callable[[ast.AST], Optional[bool]]) -> Callable[[ast.AST], Optional[bool]]:
        """*atom* extended to a local that names a condition (`flag = <test>` ... `if flag:`): the local stands
        for the test it was assigned (single reaching definition)."""
        def lifted(e: ast.AST, _depth: List[int] = [0]) -> Optional[bool]:
            r = atom(e)
            if r is not None or not isinstance(e, ast.Name) or _depth[0] > 3:
                return r
            vals = self.values(e, stmt_of(e))
            if len(vals) == 1 and isinstance(vals[0][0], (ast.Compare, ast.BoolOp, ast.UnaryOp, ast.Call)):
                _depth[0] += 1
                try:
                    eg = edges_guaranteeing(vals[0][0], lifted)
                finally:
                    _depth[0] -= 1
                if eg == {"T"}:
                    return True
                if eg == {"F"}:
                    return False
            return None
        return lifted

    def edges(self, test: ast.AST, atom: Callable[[ast.AST], Optional[bool]]) -> Set[str]:
        return edges_guaranteeing(test, self.lift(atom))

    def guards(self, atom: Callable[[ast.AST], Optional[bool]]) -> List[Tuple[int, str, str, Optional[Set[str]]]]:
        """(if-node, edge guaranteeing the atom, the other edge, classes raised over the other edge or None)."""
        out = []
        for n in self.g.nodes:
            if n.kind == "if" and n.part is not None:
                ok_edges = self.edges(n.part, atom)
                if len(ok_edges) == 1:
                    ok = next(iter(ok_edges))
                    other = "F" if ok == "T" else "T"
                    out.append((n.id, ok, other, self.raise_only(n.id, other)))
        return out

    def rejecting(self, atom: Callable[[ast.AST], Optional[bool]], classes: Sequence[str] = CONFIG_ERRORS) -> List[Tuple[int, str]]:
        """Guards on *atom* whose failing edge always raises one of *classes*: (node, passing edge)."""
        return [(nid, ok) for nid, ok, _other, rs in self.guards(atom) if rs and rs <= set(classes)]

    def passes_only_through(self, node_ids: Sequence[int], edges: Sequence[Tuple[int, str]]) -> Tuple[bool, List[str]]:
        """No path entry -> n -> normal return (n in *node_ids*) avoids all of *edges*."""
        blocked = set(edges)
        seen = self.g.reach([self.g.entry], blocked_edges=blocked)
        for n in node_ids:
            if n in seen:
                onward = self.g.reach([n], blocked_edges=blocked)
                if self.g.ret_exit in onward:
                    return False, self.g.path_to(seen, n)[-6:]
        return True, []

    def dominated(self, node_ids: Sequence[int], edges: Sequence[Tuple[int, str]]) -> Tuple[bool, List[str]]:
        """Every n in *node_ids* is unreachable from the entry once *edges* are removed."""
        seen = self.g.reach([self.g.entry], blocked_edges=set(edges))
        for n in node_ids:
            if n in seen:
                return False, self.g.path_to(seen, n)[-6:]
        return True, []


def loop_leavers(flow: "Flow", loop: ast.AST) -> List[ast.AST]:
    """The statements over which the walk of *loop* ends before its iterable is exhausted, other than by raising:
    the last statement inside the loop on every path from the start of an iteration to something outside it
    (`break`, `return`, a `continue` / fall-through of an *enclosing* loop is outside too)."""
    g = flow.g
    inside = {id(x) for x in ast.walk(loop)}
    out: List[ast.AST] = []
    for lid in g.nodes_for(loop):
        todo = [t for t, lab in g.succ[lid] if lab == "T" and t != lid]
        seen = set(todo) | {lid}
        while todo:
            n = todo.pop()
            for t, _lab in g.succ[n]:
                if t in (g.exc_exit, g.base_exit):
                    continue
                a = g.nodes[t].ast
                if a is None or id(a) not in inside:
                    # control is outside the loop (its code is not expanded: what follows the loop is not "leaving" it)
                    via = g.nodes[n].ast
                    if via is not None and not any(via is o for o in out):
                        out.append(via)
                elif t not in seen:
                    seen.add(t)
                    todo.append(t)
    return out


def loop_bypass(flow: "Flow", loop: ast.AST, nodes: Sequence[int] = (), edges: Sequence[Tuple[int, str]] = ()) -> Optional[List[str]]:
    """A path from the start of an iteration of *loop* to the next iteration that avoids all of *nodes* and
    *edges* (None when every iteration that is followed by another one passes one of them)."""
    g = flow.g
    blocked = set(nodes)
    for lid in g.nodes_for(loop):
        starts = [t for t, lab in g.succ[lid] if lab == "T" and t not in blocked]
        seen = g.reach(starts, blocked=blocked - {lid}, blocked_edges=set(edges))
        if lid in seen and seen[lid] is not None:
            return g.path_to(seen, lid)[-6:]
    return None


def _source_columns(repo: Repo, R: Report) -> None:
    """Source loading keeps every cell under its own key: each value the loader files into a column of the mapping
    it returns is (a pure function of) the value of one (key, value) pair of the parsed data, the column is named by
    that pair's own key, and every pair of the row is filed.  A loader that takes the key set from somewhere else
    (the first row, a header) or looks cells up with a default drops keys / invents values: runs then lack declared
    keys and ragged rows are no longer rejected as mismatched lengths."""
    r_src = R.rule("C08-D1-source-columns", "the source loader files every (key, value) pair of every parsed row / mapping under the column named by the pair's own key and stores nothing else: no key is dropped (runs carry the union of keys) and no cell is invented (unequal column lengths stay visible to the length guards)", 3)
    lsf = nfunc(repo, RS, LSF, keep=KEEP, copyprop="all")
    FS = Flow(lsf)
    a = lsf.args
    local_names = {x.arg for x in a.posonlyargs + a.args + a.kwonlyargs} | {x.id for x in ast.walk(lsf) if isinstance(x, ast.Name) and isinstance(x.ctx, ast.Store)}
    cols: Set[str] = set()
    sites: List[Tuple[ast.AST, ast.AST, ast.AST, List[ast.comprehension], Optional[str]]] = []  # (node, key, cells, own generators, mapping)

    def display_sites(node: ast.AST, v: ast.AST, mapping: Optional[str]) -> None:
        if isinstance(v, ast.DictComp):
            sites.append((node, v.key, v.value, list(v.generators), mapping))
        elif isinstance(v, ast.Dict):
            for k, val in zip(v.keys, v.values):
                if k is not None:
                    sites.append((node, k, val, [], mapping))

    def grown_by(value: ast.AST, mapping: str, key: ast.AST) -> ast.AST:
        """`M[k] = M.get(k, []) + cells` / `M[k] = M[k] + cells` stores the column it already had, grown by *cells*:
        the cells filed by the statement are the right operand (as with `M[k] += cells`)."""
        if isinstance(value, ast.BinOp) and isinstance(value.op, ast.Add):
            had = value.left
            same = isinstance(had, ast.Subscript) and isinstance(had.value, ast.Name) and had.value.id == mapping and _u(had.slice) == _u(key)
            if isinstance(had, ast.Call) and isinstance(had.func, ast.Attribute) and had.func.attr in ("get", "setdefault") and isinstance(had.func.value, ast.Name) and had.func.value.id == mapping and len(had.args) == 2 and not had.keywords:
                same = _u(had.args[0]) == _u(key) and is_empty_container(had.args[1])
            if same:
                return value.right
        return value

    for r in walk_no_nested(lsf):
        if isinstance(r, ast.Return) and r.value is not None:
            v = strip_keyset(r.value)
            if isinstance(v, ast.Name):
                cols.add(v.id)
            else:
                display_sites(r, v, None)
    for n in ast.walk(lsf):
        if isinstance(n, (ast.Assign, ast.AnnAssign)) and n.value is not None:
            for t in (n.targets if isinstance(n, ast.Assign) else [n.target]):
                if isinstance(t, ast.Name) and t.id in cols:
                    display_sites(n, n.value, t.id)
                elif isinstance(t, ast.Subscript) and isinstance(t.value, ast.Name) and t.value.id in cols:
                    sites.append((n, t.slice, grown_by(n.value, t.value.id, t.slice), [], t.value.id))
        elif isinstance(n, ast.AugAssign) and isinstance(n.op, ast.Add) and isinstance(n.target, ast.Subscript) and isinstance(n.target.value, ast.Name) and n.target.value.id in cols:
            sites.append((n, n.target.slice, n.value, [], n.target.value.id))
        elif isinstance(n, (ast.Expr, ast.AugAssign)) and _single_store(n) is not None and _single_store(n)[0] in cols:
            m_, k_, v_ = _single_store(n)  # columns.update({k: cells}) / columns |= {k: cells} / columns.__setitem__(k, cells)
            sites.append((n, k_, grown_by(v_, m_, k_), [], m_))
        elif isinstance(n, ast.Call) and isinstance(n.func, ast.Attribute) and n.func.attr in ("append", "extend") and len(n.args) == 1:
            holder = n.func.value
            if isinstance(holder, ast.Subscript) and isinstance(holder.value, ast.Name) and holder.value.id in cols:
                sites.append((n, holder.slice, n.args[0], [], holder.value.id))
            elif isinstance(holder, ast.Call) and isinstance(holder.func, ast.Attribute) and holder.func.attr == "setdefault" and isinstance(holder.func.value, ast.Name) and holder.func.value.id in cols and holder.args:
                sites.append((n, holder.args[0], n.args[0], [], holder.func.value.id))

    def bound_inside(e: ast.AST) -> Set[str]:
        return {t.id for c in ast.walk(e) if isinstance(c, COMPS) for gen in c.generators for t in ast.walk(gen.target) if isinstance(t, ast.Name)}

    def depends_only(e: ast.AST, at: ast.AST, allowed: Set[str], depth: int = 0) -> bool:
        """Every local the expression reads is one of *allowed* (locals naming a pure value are followed)."""
        own = bound_inside(e)
        for x in ast.walk(e):
            if isinstance(x, ast.Name) and isinstance(x.ctx, ast.Load) and x.id in local_names and x.id not in allowed and x.id not in own:
                if depth > 3:
                    return False
                vals = [(v, st) for v, st in FS.values(x, at) if v is not x]
                if not vals or not all(depends_only(v, st, allowed, depth + 1) for v, st in vals):
                    return False
        return True

    def mentions(e: ast.AST, at: ast.AST, name: str, depth: int = 0) -> bool:
        for x in ast.walk(e):
            if isinstance(x, ast.Name) and isinstance(x.ctx, ast.Load):
                if x.id == name:
                    return True
                if depth < 3 and x.id in local_names and any(v is not x and mentions(v, st, name, depth + 1) for v, st in FS.values(x, at)):
                    return True
        return False

    def pair_of(it: ast.AST, tgt: ast.AST, body: Sequence[ast.AST] = ()) -> Optional[Tuple[str, str, Optional[str]]]:
        """(key variable, value variable or None, mapping iterated) for `for k, v in X.items()` / `for k in X`."""
        while isinstance(it, ast.Call) and isinstance(it.func, ast.Name) and it.func.id in ("list", "tuple", "iter") and len(it.args) == 1 and not it.keywords:
            it = it.args[0]
        if isinstance(it, ast.Call) and isinstance(it.func, ast.Attribute) and not it.args and not it.keywords and isinstance(it.func.value, ast.Name):
            if it.func.attr == "items" and isinstance(tgt, ast.Name):
                # for pair in X.items(): k, v = pair
                for st in body:
                    if isinstance(st, ast.Assign) and len(st.targets) == 1 and isinstance(st.value, ast.Name) and st.value.id == tgt.id:
                        tgt = st.targets[0]
                        break
            if it.func.attr == "items" and isinstance(tgt, ast.Tuple) and len(tgt.elts) == 2 and all(isinstance(x, ast.Name) for x in tgt.elts):
                return tgt.elts[0].id, tgt.elts[1].id, it.func.value.id
            if it.func.attr == "keys" and isinstance(tgt, ast.Name):
                return tgt.id, None, it.func.value.id
        if isinstance(it, ast.Name) and isinstance(tgt, ast.Name):
            return tgt.id, None, it.id
        return None

    def every_pair_filed(loop: ast.For, mapping: Optional[str]) -> bool:
        """No pair of the row gets round all the stores into *mapping* inside *loop* (other than by raising)."""
        inside = {id(x) for x in ast.walk(loop)}
        stores = {FS.nid(node) for node, _k, _v, _g, m in sites if m == mapping and id(node) in inside}
        lid = FS.nid(loop)
        starts = [t for t, lab in FS.g.succ[lid] if lab == "T" and t not in stores]  # (reach() expands a blocked start)
        seen = FS.g.reach(starts, blocked=stores)
        return lid not in seen and FS.g.ret_exit not in seen

    for node, key, cells, gens, mapping in sites:
        if is_empty_container(cells):
            continue  # an empty column: no cell is stored
        at = node if isinstance(node, ast.stmt) else stmt_of(node)
        cands: List[Tuple[ast.AST, ast.AST, Optional[ast.For], Optional[ast.comprehension]]] = [(gen.iter, gen.target, None, gen) for gen in gens]
        cands += [(lp.iter, lp.target, lp, None) for lp in ancestors(node) if isinstance(lp, ast.For)]
        ok = False
        partial = False
        for it, tgt, lp, gen in cands:
            p = pair_of(it, tgt, lp.body if lp is not None else ())
            if p is None:
                continue
            kvar, vvar, src_map = p
            if not mentions(key, at, kvar):
                continue
            if vvar is not None:
                good = mentions(cells, at, vvar) and depends_only(cells, at, {vvar})
            else:
                good = bool(found([cells], f"{src_map}[{kvar}]")) and depends_only(cells, at, {src_map, kvar}) and not any(isinstance(c, ast.Call) and call_attr(c) in ("get", "pop", "setdefault") for c in ast.walk(cells))
            if not good:
                continue
            every = every_pair_filed(lp, mapping) if lp is not None else not gen.ifs
            if every:
                ok = True
                break
            partial = True
        what = "some (key, value) pairs of a row are skipped: a key present in the source does not become a column" if partial else "the stored cells are not the values of the row's own (key, value) pairs filed under their own key (key set taken from elsewhere, e.g. the first row / a header, or cells looked up with a default): a key that appears only in some rows is dropped and a missing cell is invented, so runs lack declared keys and ragged rows are no longer rejected as mismatched lengths"
        R.check(ok, r_src, RS, LSF, f"cells stored by `{norm(node)[:70]}`", what, getattr(node, "lineno", lsf.lineno))


# --------------------------------------------------------------------------------------------------------------
# interface: the configuration parser and the run-space dataclasses agree on what a missing key means
# --------------------------------------------------------------------------------------------------------------
_INPUT, _UNKNOWN, _RAISES = "<input>", "<unknown>", "<raises>"
_NODEFAULT = object()
_PURE_BUILTINS = {"str": str, "int": int, "float": float, "bool": bool, "list": list, "dict": dict, "tuple": tuple, "set": set, "frozenset": frozenset, "len": len, "sorted": sorted}
_PURE_METHODS = ("lower", "upper", "strip", "lstrip", "rstrip", "casefold", "title", "items", "keys", "values", "copy")
_TYPE_NAMES = {"str": str, "int": int, "float": float, "bool": bool, "list": list, "dict": dict, "tuple": tuple, "set": set}


def _same_value(a: object, b: object) -> bool:
    return type(a) is type(b) and a == b


def _is_dataclass(cls: ast.ClassDef) -> bool:
    return any(_last(dotted_name(d.func if isinstance(d, ast.Call) else d)) == "dataclass" for d in cls.decorator_list)


def _field_default(v: Optional[ast.AST]) -> object:
    """Declared default of a dataclass field as ('c', python value), _NODEFAULT (required) or _UNKNOWN."""
    if v is None:
        return _NODEFAULT
    if isinstance(v, ast.Call) and _last(dotted_name(v.func)) == "field":
        d, f = kwarg(v, "default"), kwarg(v, "default_factory")
        if d is not None:
            return _field_default(d)
        if f is not None:
            if isinstance(f, ast.Name) and f.id in ("dict", "list", "set", "tuple"):
                return ("c", _PURE_BUILTINS[f.id]())
            if isinstance(f, ast.Lambda):
                return _field_default(f.body)
            return _UNKNOWN
        return _NODEFAULT
    try:
        return ("c", ast.literal_eval(v))
    except (ValueError, TypeError, SyntaxError, MemoryError, RecursionError):
        return _UNKNOWN


def _spec_classes(repo: Repo) -> Dict[int, Tuple[object, ast.ClassDef, Dict[str, object], List[str]]]:
    """The dataclasses a run-space specification is made of, found from the annotation of the first parameter of
    the expansion entry point and closed over the field annotations: id(class) -> (module, class, {field: default},
    field order)."""
    mod = repo.module(RS)
    ers = repo.func(RS, ERS)
    if not ers.args.args or ers.args.args[0].annotation is None:
        raise AnalysisError("expand_run_space: the specification parameter carries no annotation (its class cannot be found)")

    def classes_named(m, ann: ast.AST) -> List[Tuple[object, ast.ClassDef]]:
        if isinstance(ann, ast.Constant) and isinstance(ann.value, str):
            try:
                ann = ast.parse(ann.value, mode="eval").body
            except SyntaxError:
                return []
        out = []
        for x in ast.walk(ann):
            if isinstance(x, ast.Constant) and isinstance(x.value, str) and x is not ann:
                out.extend(classes_named(m, x))
            if isinstance(x, (ast.Name, ast.Attribute)):
                local = m.defs.get(dotted_name(x) or "")
                r = (m, local) if isinstance(local, ast.ClassDef) else repo.resolve_name(m, x, m.tree)
                if r is not None and isinstance(r[1], ast.ClassDef) and _is_dataclass(r[1]):
                    out.append(r)
        return out

    found_cls: Dict[int, Tuple[object, ast.ClassDef, Dict[str, object], List[str]]] = {}
    todo = classes_named(mod, ers.args.args[0].annotation)
    while todo:
        m, c = todo.pop()
        if id(c) in found_cls:
            continue
        repo.consulted.add(m.rel)
        fields: Dict[str, object] = {}
        order: List[str] = []
        for st in c.body:
            if isinstance(st, ast.AnnAssign) and isinstance(st.target, ast.Name):
                fields[st.target.id] = _field_default(st.value)
                order.append(st.target.id)
                todo.extend(classes_named(m, st.annotation))
        found_cls[id(c)] = (m, c, fields, order)
    if not found_cls:
        raise AnalysisError("expand_run_space: the class of the specification parameter was not found in the package")
    return found_cls


def _declared_defaults(repo: Repo, R: Report) -> None:
    """Every place that builds a run-space dataclass (RunSpaceV1Config / RunBlock / RunSource - found by role, see
    _spec_classes) from a key of a mapping gives the field, when that key is missing, the default the dataclass
    declares.  The expansion is documented on the dataclasses (`RunSource.mode` defaults to rows-as-runs, `combine` to
    combinatorial, `max_runs` to 1000): a parser that falls back to anything else - another constant, or a value
    taken from somewhere else in the file - makes the same declaration expand differently through the YAML path
    than the documented list."""
    r_def = R.rule("C08-D1-declared-defaults", "where a run-space dataclass field is filled from a key of a configuration mapping, the value used when the key is missing is the default the dataclass declares (the parser and the schema agree on what an omitted mode / combine / max_runs / select / rename means; it does not depend on other parts of the file)", 3)
    classes = _spec_classes(repo)
    names = {c.name for _m, c, _f, _o in classes.values()}
    for mod in list(repo.modules.values()):
        if not any(nm in mod.source for nm in names):
            continue
        for qn, node in list(mod.defs.items()):
            if not isinstance(node, FuncNode):
                continue
            raw_calls = [c for c in walk_no_nested(node) if isinstance(c, ast.Call) and _last(dotted_name(c.func)) in names]
            if not raw_calls:
                continue
            repo.consulted.add(mod.rel)
            try:
                fn = nfunc(repo, mod.rel, qn, copyprop="all")
            except AnalysisError:
                raise
            except Exception:  # a shape the normaliser does not handle (nested class, ...): analyse the function as written
                fn = node
            _defaults_in(repo, R, r_def, mod, fn, classes)


def _defaults_in(repo: Repo, R: Report, r_def, mod, fn: ast.AST, classes) -> None:
    FP = Flow(fn)
    comp_bound = {t.id for c in ast.walk(fn) if isinstance(c, COMPS) for gen in c.generators for t in ast.walk(gen.target) if isinstance(t, ast.Name)}

    def class_of(call: ast.AST):
        if not isinstance(call, ast.Call):
            return None
        r = repo.resolve_name(mod, call.func, mod.tree) if isinstance(call.func, (ast.Name, ast.Attribute)) else None
        return classes.get(id(r[1])) if r is not None else None

    def keyed_read(e: ast.AST) -> Optional[Tuple[str, str, Optional[ast.AST], str]]:
        if isinstance(e, ast.Call) and isinstance(e.func, ast.Attribute) and e.func.attr in ("get", "pop") and not e.keywords and 1 <= len(e.args) <= 2 and isinstance(e.args[0], ast.Constant) and isinstance(e.args[0].value, str):
            return _u(e.func.value), e.args[0].value, (e.args[1] if len(e.args) == 2 else None), "get"
        if isinstance(e, ast.Subscript) and isinstance(e.ctx, ast.Load) and isinstance(e.slice, ast.Constant) and isinstance(e.slice.value, str):
            return _u(e.value), e.slice.value, None, "item"
        return None

    def member_test(e: ast.AST) -> Optional[Tuple[str, str, bool]]:
        if isinstance(e, ast.Compare) and len(e.ops) == 1 and isinstance(e.ops[0], (ast.In, ast.NotIn)) and isinstance(e.left, ast.Constant) and isinstance(e.left.value, str) and not isinstance(e.comparators[0], (ast.Constant, ast.Tuple, ast.List, ast.Set, ast.Dict)):
            return _u(strip_keyset(e.comparators[0])), e.left.value, isinstance(e.ops[0], ast.In)
        return None

    def live_values(e: ast.Name, at: ast.AST, absent, depth: int) -> List[Tuple[ast.AST, ast.AST]]:
        """Reaching values of a local, minus those overwritten on every path on which the key is missing
        (`x = m.get(k)` followed by `if x is None: x = D`)."""
        vals = [(v, st) for v, st in FP.values(e, at, depth=1) if v is not e]
        if len(vals) < 2:
            return vals
        keep = []
        for v, st in vals:
            killed = False
            for v2, st2 in vals:
                if st2 is st:
                    continue
                for a in ancestors(st2):
                    if a is fn:
                        break
                    if isinstance(a, ast.If) and not any(x is st for x in ast.walk(a)) and getattr(a, "lineno", 0) > getattr(st, "lineno", 0):
                        in_body = any(x is st2 for b in a.body for x in ast.walk(b))
                        # the value seen by the test is the one assigned at *st*
                        t = ev(a.test, a, absent, depth + 1, {e.id: (v, st)})
                        if isinstance(t, tuple) and bool(t[1]) == in_body and any(b is st2 for b in (a.body if in_body else a.orelse)):
                            killed = True
            if not killed:
                keep.append((v, st))
        return keep or vals

    def join(rs: List[object]) -> object:
        rs = [r for r in rs if r is not _RAISES]
        if not rs:
            return _RAISES
        if any(r is _UNKNOWN for r in rs):
            return _UNKNOWN
        if any(r is _INPUT for r in rs):
            return _INPUT
        first = rs[0]
        return first if all(_same_value(first[1], r[1]) for r in rs) else _UNKNOWN

    def ev(e: ast.AST, at: ast.AST, absent: Tuple[str, str], depth: int = 0, env: Optional[Dict[str, Tuple[ast.AST, ast.AST]]] = None) -> object:
        """Value of *e* (evaluated in statement *at*) when key absent[1] is missing from the mapping absent[0]:
        ('c', python value) | _INPUT (depends on other input) | _RAISES | _UNKNOWN."""
        if depth > 14:
            return _UNKNOWN
        if isinstance(e, ast.Constant):
            return ("c", e.value)
        if isinstance(e, ast.Name):
            if env and e.id in env:
                v, st = env[e.id]
                return ev(v, st, absent, depth + 1)
            if e.id in comp_bound:
                return _INPUT
            vals = live_values(e, at, absent, depth)
            if not vals:
                c = class_of(ast.Call(func=e, args=[], keywords=[]))
                return _UNKNOWN if c is not None or e.id in _PURE_BUILTINS else _INPUT
            return join([ev(v, st, absent, depth + 1) for v, st in vals])
        kr = keyed_read(e)
        if kr is not None:
            mtext, key, default, kind = kr
            if (mtext, key) == absent:
                if kind == "item":
                    return _RAISES
                return ("c", None) if default is None else ev(default, at, absent, depth + 1, env)
            return _INPUT
        if isinstance(e, ast.Call):
            nm = dotted_name(e.func) or ""
            if _last(nm) == "cast" and len(e.args) == 2 and not e.keywords:
                return ev(e.args[1], at, absent, depth + 1, env)
            if e.keywords or any(isinstance(a, ast.Starred) for a in e.args):
                return _UNKNOWN
            args = [ev(a, at, absent, depth + 1, env) for a in e.args]
            recv = ev(e.func.value, at, absent, depth + 1, env) if isinstance(e.func, ast.Attribute) and e.func.attr in _PURE_METHODS else None
            parts = args + ([recv] if recv is not None else [])
            if any(p is _RAISES for p in parts):
                return _RAISES
            if nm == "isinstance" and len(args) == 2 and isinstance(args[0], tuple):
                tnames = [x for x in (e.args[1].elts if isinstance(e.args[1], ast.Tuple) else [e.args[1]])]
                types = [_TYPE_NAMES.get(dotted_name(t) or "") for t in tnames]
                if all(t is not None for t in types):
                    return ("c", isinstance(args[0][1], tuple(types)))
                if _last(dotted_name(tnames[0]) or "") in ("Mapping", "MutableMapping") and len(tnames) == 1:
                    return ("c", isinstance(args[0][1], dict))
                return _UNKNOWN
            if any(p is _UNKNOWN for p in parts):
                return _UNKNOWN
            if any(p is _INPUT for p in parts):
                return _INPUT
            try:
                if recv is not None:
                    out = getattr(recv[1], e.func.attr)(*[a[1] for a in args])
                    return ("c", list(out) if e.func.attr in ("items", "keys", "values") else out)
                if isinstance(e.func, ast.Name) and e.func.id in _PURE_BUILTINS and FP.values(e.func, at)[0][0] is e.func:
                    return ("c", _PURE_BUILTINS[e.func.id](*[a[1] for a in args]))
            except Exception:
                return _RAISES
            return _UNKNOWN
        if isinstance(e, ast.Subscript):
            inner = ev(e.value, at, absent, depth + 1, env)
            return inner if inner in (_INPUT, _RAISES) else _UNKNOWN
        if isinstance(e, ast.Attribute):
            r = repo.resolve_name(mod, e.value, mod.tree) if isinstance(e.value, (ast.Name, ast.Attribute)) else None
            if r is not None and id(r[1]) in classes:
                d = classes[id(r[1])][2].get(e.attr, _UNKNOWN)
                return d if isinstance(d, tuple) else _UNKNOWN
            inner = ev(e.value, at, absent, depth + 1, env)
            return inner if inner in (_INPUT, _RAISES) else _UNKNOWN
        if isinstance(e, ast.BoolOp):
            seen_input = False
            last: object = _UNKNOWN
            for v in e.values:
                r = ev(v, at, absent, depth + 1, env)
                if r is _UNKNOWN or r is _RAISES:
                    return r
                if r is _INPUT:
                    seen_input = True
                    continue
                last = r
                if bool(r[1]) == isinstance(e.op, ast.Or):
                    return _INPUT if seen_input else r
            return _INPUT if seen_input else last
        if isinstance(e, ast.UnaryOp) and isinstance(e.op, ast.Not):
            r = ev(e.operand, at, absent, depth + 1, env)
            return ("c", not r[1]) if isinstance(r, tuple) else r
        if isinstance(e, ast.BinOp) and isinstance(e.op, (ast.Add, ast.Sub, ast.Mult, ast.Pow, ast.FloorDiv)):
            l, r = ev(e.left, at, absent, depth + 1, env), ev(e.right, at, absent, depth + 1, env)
            for p in (l, r):
                if not isinstance(p, tuple):
                    return _UNKNOWN if _UNKNOWN in (l, r) else p
            if not all(isinstance(p[1], (int, float)) and not isinstance(p[1], bool) for p in (l, r)) or (isinstance(e.op, ast.Pow) and not (isinstance(r[1], int) and 0 <= r[1] <= 64 and abs(l[1]) <= 1024)):
                return _UNKNOWN
            try:
                ops = {ast.Add: lambda a, b: a + b, ast.Sub: lambda a, b: a - b, ast.Mult: lambda a, b: a * b, ast.Pow: lambda a, b: a ** b, ast.FloorDiv: lambda a, b: a // b}
                return ("c", ops[type(e.op)](l[1], r[1]))
            except Exception:
                return _RAISES
        if isinstance(e, ast.Compare) and len(e.ops) == 1:
            mt = member_test(e)
            if mt is not None:
                return ("c", not mt[2]) if (mt[0], mt[1]) == absent else _INPUT
            l, r = ev(e.left, at, absent, depth + 1, env), ev(e.comparators[0], at, absent, depth + 1, env)
            for p in (l, r):
                if not isinstance(p, tuple):
                    return p if p is not _INPUT or _UNKNOWN not in (l, r) else _UNKNOWN
            op = e.ops[0]
            try:
                table = {ast.Is: lambda a, b: a is b, ast.IsNot: lambda a, b: a is not b, ast.Eq: lambda a, b: a == b, ast.NotEq: lambda a, b: a != b,
                         ast.In: lambda a, b: a in b, ast.NotIn: lambda a, b: a not in b}
                f = table.get(type(op))
                return ("c", bool(f(l[1], r[1]))) if f else _UNKNOWN
            except Exception:
                return _RAISES
        if isinstance(e, ast.IfExp):
            t = ev(e.test, at, absent, depth + 1, env)
            if isinstance(t, tuple):
                return ev(e.body if t[1] else e.orelse, at, absent, depth + 1, env)
            if t is _INPUT:
                j = join([ev(e.body, at, absent, depth + 1, env), ev(e.orelse, at, absent, depth + 1, env)])
                return j if isinstance(j, tuple) or j is _RAISES else _INPUT if j is _INPUT else _UNKNOWN
            return t
        if isinstance(e, (ast.List, ast.Tuple, ast.Set)):
            if any(isinstance(x, ast.Starred) for x in e.elts):
                return _UNKNOWN
            parts = [ev(x, at, absent, depth + 1, env) for x in e.elts]
            if all(isinstance(p, tuple) for p in parts):
                try:
                    return ("c", {ast.List: list, ast.Tuple: tuple, ast.Set: set}[type(e)](p[1] for p in parts))
                except TypeError:
                    return _UNKNOWN
            return _INPUT if parts and all(isinstance(p, tuple) or p is _INPUT for p in parts) else _UNKNOWN
        if isinstance(e, ast.Dict):
            if not e.keys:
                return ("c", {})
            return _UNKNOWN
        if isinstance(e, COMPS) and len(e.generators) == 1:
            it = ev(e.generators[0].iter, at, absent, depth + 1, env)
            if isinstance(it, tuple):
                try:
                    if len(it[1]) == 0:
                        return ("c", {} if isinstance(e, ast.DictComp) else set() if isinstance(e, ast.SetComp) else [])
                except TypeError:
                    return _RAISES
                return _UNKNOWN
            return it
        return _UNKNOWN

    def primaries(e: ast.AST, at: ast.AST, depth: int = 0, seen: Optional[Set[int]] = None) -> List[Tuple[str, str, ast.AST]]:
        """Keyed reads the value of *e* is taken from (not those inside another read's default or receiver)."""
        seen = set() if seen is None else seen
        if depth > 8 or id(e) in seen:
            return []
        seen.add(id(e))
        if isinstance(e, ast.Name):
            if e.id in comp_bound:
                return []
            vals = sorted([(v, st) for v, st in FP.values(e, at, depth=1) if v is not e], key=lambda p: getattr(p[1], "lineno", 0))
            return [p for v, st in vals for p in primaries(v, st, depth + 1, seen)]
        kr = keyed_read(e)
        if kr is not None:
            return [(kr[0], kr[1], e)]
        mt = member_test(e)
        if mt is not None:
            return [(mt[0], mt[1], e)]
        if isinstance(e, ast.Call) and class_of(e) is not None:
            return [("<object>", "<built>", e)]
        out = []
        for ch in ast.iter_child_nodes(e):
            if isinstance(ch, (ast.expr, ast.comprehension, ast.keyword)):
                out.extend(primaries(ch, at, depth, seen))
        return out

    sites: List[Tuple[ast.ClassDef, str, object, ast.AST, ast.AST]] = []  # (class, field, declared default, value expr, statement)
    for c in ast.walk(fn):
        info = class_of(c) if isinstance(c, ast.Call) else None
        if info is not None:
            _m, cls, fields, order = info
            st = stmt_of(c)
            if any(isinstance(a, ast.Starred) for a in c.args) or any(k.arg is None for k in c.keywords):
                continue
            for i, a in enumerate(c.args[: len(order)]):
                sites.append((cls, order[i], fields[order[i]], a, st))
            for k in c.keywords:
                if k.arg in fields:
                    sites.append((cls, k.arg, fields[k.arg], k.value, st))
        if isinstance(c, ast.Assign) and len(c.targets) == 1 and isinstance(c.targets[0], ast.Attribute) and isinstance(c.targets[0].value, ast.Name):
            holders = [v for v, _s in FP.values(c.targets[0].value, c) if v is not c.targets[0].value]
            infos = [class_of(v) for v in holders]
            if holders and all(i is not None for i in infos) and len({id(i[1]) for i in infos}) == 1:
                _m, cls, fields, _order = infos[0]
                if c.targets[0].attr in fields:
                    sites.append((cls, c.targets[0].attr, fields[c.targets[0].attr], c.value, c))
    for cls, fname, declared, expr, st in sites:
        if not isinstance(declared, tuple):
            continue  # a required field (or a default this analysis cannot read): nothing to agree with
        prim = primaries(expr, st)
        if not prim or ("<object>", "<built>") in {(m, k) for m, k, _n in prim}:
            continue  # not filled from a key of a mapping
        # the first read in evaluation order is the key the field stands for; later reads are its fallbacks
        absent = (prim[0][0], prim[0][1])
        got = ev(expr, st, absent)
        node = prim[0][2]
        line = getattr(node, "lineno", None) or getattr(st, "lineno", fn.lineno)
        label = f"{cls.name}.{fname} when `{absent[1]}` is missing from `{absent[0][:40]}`"
        if got is _INPUT:
            R.violation(r_def, mod.rel, fn.name, label, f"when the key `{absent[1]}` is omitted the field is given a value that depends on other input (`{_u(expr)[:90]}`) instead of the default `{declared[1]!r}` declared by {cls.name}.{fname}: the same declaration expands differently through this path than documented (e.g. a source without `mode` inside a combinatorial block multiplies its columns instead of contributing one run per row)", line)
        elif isinstance(got, tuple):
            R.check(_same_value(got[1], declared[1]), r_def, mod.rel, fn.name, label, f"when the key `{absent[1]}` is omitted the field is given `{got[1]!r}`, but {cls.name}.{fname} declares the default `{declared[1]!r}`: the parser and the schema disagree on what the omitted key means, so the same declaration does not expand to the documented list", line)
        # _RAISES: the key is required here (a missing key is rejected); _UNKNOWN: not decided


# --------------------------------------------------------------------------------------------------------------
# source cells: a converter that accepts words is applied only behind a test on the spelling
# --------------------------------------------------------------------------------------------------------------
WORD_CONVERTERS = {"float": "inf / nan / infinity (any case, signed) and exponent forms such as 1e3", "complex": "inf / nan / 1e3 / 1j",
                   "Decimal": "Infinity / NaN / sNaN / 1E3", "eval": "any expression", "literal_eval": "any literal"}


# --------------------------------------------------------------------------------------------------------------
# interface: what a rejection made while the specification is built may compare (select names file columns, rename
# is applied afterwards - the loader's order, pinned by C08-D2-rejection-guards "select: missing columns raise")
# --------------------------------------------------------------------------------------------------------------
_OVERLAP_METHODS = ("intersection", "isdisjoint", "issubset", "issuperset", "difference", "symmetric_difference", "intersection_update", "difference_update")
_GROW_METHODS = ("update", "add", "append", "extend", "insert", "setdefault", "__setitem__")


def _parse_time_keys(repo: Repo, R: Report) -> None:
    """Every function that builds the run-space dataclasses (the YAML parser; found by role as for
    C08-D1-declared-defaults) may reject a specification early, but a membership / overlap test whose failing branch
    raises must compare only keys the expansion certainly produces: inline context keys, or selected columns mapped
    through rename.  `select` entries and `rename` keys name columns *of the file*; the loader selects first and
    renames afterwards, so they are not the keys the block contributes.  Feeding them (or rename targets taken on their
    own) into a duplicate-key test rejects valid specifications - a column renamed away from a name another block
    uses - that `expand_run_space` expands to the documented list."""
    rule = R.rule("C08-D2-parse-time-keys", "a membership / overlap test that rejects a specification while it is built (YAML parser) compares only keys the expansion certainly produces - inline context keys, or selected columns mapped through rename; names of source columns before rename (select entries, rename keys) and rename targets on their own never feed it: select names file columns and rename is applied afterwards (loader order), so a valid spec whose column is renamed away from a name used elsewhere would be rejected", 1)
    classes = _spec_classes(repo)
    src_classes = [(m, c, f, o) for m, c, f, o in classes.values() if "select" in f and "rename" in f]
    if not src_classes:
        raise AnalysisError("run-space source dataclass (fields select / rename) not found from the specification class")
    names = {c.name for _m, c, _f, _o in classes.values()}
    for mod in list(repo.modules.values()):
        if not any(nm in mod.source for nm in names):
            continue
        for qn, node in list(mod.defs.items()):
            if not isinstance(node, FuncNode):
                continue
            if not any(isinstance(c, ast.Call) and _last(dotted_name(c.func)) in names for c in walk_no_nested(node)):
                continue
            repo.consulted.add(mod.rel)
            try:
                fn = nfunc(repo, mod.rel, qn, copyprop="all")
            except AnalysisError:
                raise
            except Exception:
                fn = node
            _parse_time_keys_in(repo, R, rule, mod, fn, classes, src_classes)


def _parse_time_keys_in(repo: Repo, R: Report, rule: str, mod, fn: ast.AST, classes, src_classes) -> None:
    FP = Flow(fn)
    LABELS = ("select", "rename")
    comp_bound = {t.id for c in ast.walk(fn) if isinstance(c, COMPS) for gen in c.generators for t in ast.walk(gen.target) if isinstance(t, ast.Name)}
    a = fn.args
    local_names = {x.arg for x in a.posonlyargs + a.args + a.kwonlyargs} | {x.id for x in ast.walk(fn) if isinstance(x, ast.Name) and isinstance(x.ctx, ast.Store)}

    def keyed_key(e: ast.AST) -> Optional[str]:
        if isinstance(e, ast.Call) and isinstance(e.func, ast.Attribute) and e.func.attr in ("get", "pop") and e.args and isinstance(e.args[0], ast.Constant) and isinstance(e.args[0].value, str):
            return e.args[0].value
        if isinstance(e, ast.Subscript) and isinstance(e.ctx, ast.Load) and isinstance(e.slice, ast.Constant) and isinstance(e.slice.value, str):
            return e.slice.value
        return None

    # locals and configuration keys whose value becomes the select / rename field of a source object
    t_locals: Dict[str, Set[str]] = {}
    t_keys: Dict[str, Set[str]] = {}

    def taint_from(e: ast.AST, label: str, depth: int = 0) -> None:
        if depth > 6:
            return
        receivers: Set[int] = set()
        reads = [x for x in ast.walk(e) if keyed_key(x) is not None]
        for x in reads:
            recv = x.func.value if isinstance(x, ast.Call) else x.value
            receivers |= {id(y) for y in ast.walk(recv)}
        for x in reads:
            if id(x) not in receivers:  # (the mapping a key is read from - itself read from another one - is not the value)
                t_keys.setdefault(keyed_key(x), set()).add(label)
        for x in ast.walk(e):
            if isinstance(x, ast.Name) and isinstance(x.ctx, ast.Load) and id(x) not in receivers and x.id in local_names and x.id not in comp_bound:
                if label in t_locals.get(x.id, set()):
                    continue
                t_locals.setdefault(x.id, set()).add(label)
                for v in assigned_value(fn, x.id):
                    taint_from(v, label, depth + 1)

    for c in ast.walk(fn):
        if not isinstance(c, ast.Call) or not isinstance(c.func, (ast.Name, ast.Attribute)):
            continue
        r = repo.resolve_name(mod, c.func, mod.tree)
        hit = next((sc for sc in src_classes if r is not None and r[1] is sc[1]), None)
        if hit is None:
            continue
        for label in LABELS:
            arg = call_arg(c, hit[3].index(label), label)
            if arg is not None:
                taint_from(arg, label)

    def binding_iter(nm: ast.Name) -> Optional[ast.AST]:
        """The iterable a loop / comprehension variable ranges over."""
        for anc in ancestors(nm):
            if isinstance(anc, COMPS):
                for gen in anc.generators:
                    if isinstance(gen.target, ast.Name) and gen.target.id == nm.id:
                        return gen.iter
            if isinstance(anc, ast.For) and isinstance(anc.target, ast.Name) and anc.target.id == nm.id:
                return anc.iter
            if anc is fn:
                break
        return None

    def direct_labels(e: ast.AST) -> Set[str]:
        """Labels of the pre-rename column-name sources *e* reads, without following locals."""
        out: Set[str] = set()
        for x in ast.walk(e):
            if isinstance(x, ast.Attribute) and x.attr in LABELS:
                out.add(x.attr)
            elif isinstance(x, ast.Name) and x.id in t_locals:
                out |= t_locals[x.id]
            elif keyed_key(x) in t_keys:
                out |= t_keys[keyed_key(x)]
        return out

    def mapped_through_rename(c: ast.AST) -> Optional[ast.Name]:
        """`<rename>.get(col, col)` with col ranging over the selection: the key the selected column ends up under."""
        if isinstance(c, ast.Call) and isinstance(c.func, ast.Attribute) and c.func.attr == "get" and len(c.args) == 2 and not c.keywords and isinstance(c.args[0], ast.Name) and _u(c.args[0]) == _u(c.args[1]) and direct_labels(c.func.value) == {"rename"}:
            it = binding_iter(c.args[0])
            if it is not None and direct_labels(it) == {"select"}:
                return c.args[0]
        return None

    class Reads:
        def __init__(self) -> None:
            self.taints: List[Tuple[str, ast.AST]] = []
            self.overlaps: List[Tuple[ast.AST, ast.AST, List[ast.AST]]] = []  # (node, statement, operands)
            self.seen: Set[Tuple[object, int]] = set()

        def visit(self, n: ast.AST, at: ast.AST, depth: int = 0) -> None:
            if depth > 40:
                return
            if isinstance(n, ast.Compare) and len(n.ops) == 1 and isinstance(n.ops[0], (ast.In, ast.NotIn)):
                cmp = n.comparators[0]
                if not (isinstance(cmp, (ast.Constant, ast.Tuple, ast.List, ast.Set, ast.Dict)) and all(isinstance(x, ast.Constant) for x in getattr(cmp, "elts", []) or getattr(cmp, "keys", []) or [])):
                    self.overlaps.append((n, at, [n.left, cmp]))
            elif isinstance(n, ast.Call) and isinstance(n.func, ast.Attribute) and n.func.attr in _OVERLAP_METHODS:
                self.overlaps.append((n, at, [n.func.value] + list(n.args)))
            elif isinstance(n, ast.BinOp) and isinstance(n.op, (ast.BitAnd, ast.Sub, ast.BitXor)):
                self.overlaps.append((n, at, [n.left, n.right]))
            if mapped_through_rename(n) is not None:
                return
            if isinstance(n, COMPS):
                # a generator whose variable is only used as `<rename>.get(v, v)` contributes renamed keys
                for gen in n.generators:
                    uses = [x for x in ast.walk(n) if isinstance(x, ast.Name) and isinstance(x.ctx, ast.Load) and isinstance(gen.target, ast.Name) and x.id == gen.target.id]
                    mapped = {id(y) for c in ast.walk(n) if mapped_through_rename(c) is not None for y in c.args}
                    if uses and all(id(u) in mapped for u in uses):
                        continue
                    self.visit(gen.iter, at, depth + 1)
                for x in ([n.key, n.value] if isinstance(n, ast.DictComp) else [n.elt]) + [i for gen in n.generators for i in gen.ifs]:
                    self.visit(x, at, depth + 1)
                return
            if isinstance(n, ast.Attribute) and not (isinstance(parent(n), ast.Call) and parent(n).func is n):
                chain = [x.attr for x in ast.walk(n) if isinstance(x, ast.Attribute)]
                for label in LABELS:
                    if label in chain:
                        self.taints.append((label, n))
                return  # a data field: its holder is not followed (field-sensitive)
            k = keyed_key(n)
            if k is not None and k in t_keys:
                for label in t_keys[k]:
                    self.taints.append((label, n))
                return
            if isinstance(n, ast.Name):
                if not isinstance(n.ctx, ast.Load) or n.id not in local_names:
                    return
                if n.id in t_locals:
                    for label in t_locals[n.id]:
                        self.taints.append((label, n))
                    return
                if n.id in comp_bound and any(isinstance(x, COMPS) for x in ancestors(n)):
                    it = binding_iter(n)  # (an operand of a test inside a comprehension is visited on its own)
                    if it is not None and (id(it), -1) not in self.seen:
                        self.seen.add((id(it), -1))
                        self.visit(it, at, depth + 1)
                    return
                try:
                    key = (n.id, FP.nid(at))
                except AnalysisError:
                    return
                if key in self.seen:
                    return
                self.seen.add(key)
                for d in FP.defs(n.id, at):
                    if d[0] == "val":
                        self.visit(d[1], d[2], depth + 1)
                    elif d[0] == "item":
                        self.visit(d[1], d[3], depth + 1)
                    elif d[0] == "iter":
                        self.visit(d[1].iter, d[1], depth + 1)
                    elif d[0] == "aug":
                        self.visit(d[1].value, d[1], depth + 1)
                # what the collection held in the local is grown with, wherever that happens
                for g in ast.walk(fn):
                    if isinstance(g, ast.Call) and isinstance(g.func, ast.Attribute) and g.func.attr in _GROW_METHODS and isinstance(g.func.value, ast.Name) and g.func.value.id == n.id:
                        gkey = (id(g), 0)
                        if gkey not in self.seen:
                            self.seen.add(gkey)
                            grown = g.args[:1] if g.func.attr in ("setdefault", "__setitem__", "update", "add", "append", "extend") else g.args[1:2]
                            for arg in grown:
                                self.visit(arg, stmt_of(g), depth + 1)
                    elif isinstance(g, ast.Subscript) and isinstance(g.ctx, ast.Store) and isinstance(g.value, ast.Name) and g.value.id == n.id:
                        gkey = (id(g), 0)
                        if gkey not in self.seen:
                            self.seen.add(gkey)
                            self.visit(g.slice, stmt_of(g), depth + 1)
                return
            if isinstance(n, ast.Call) and isinstance(n.func, ast.Attribute):
                self.visit(n.func.value, at, depth + 1)
                for x in list(n.args) + [kw.value for kw in n.keywords]:
                    self.visit(x, at, depth + 1)
                return
            if isinstance(n, ast.Call) and isinstance(n.func, ast.Name):
                for x in list(n.args) + [kw.value for kw in n.keywords]:
                    self.visit(x, at, depth + 1)
                return
            if isinstance(n, ast.Lambda):
                return
            for ch in ast.iter_child_nodes(n):
                if isinstance(ch, (ast.expr, ast.comprehension, ast.keyword)) or isinstance(ch, ast.Starred):
                    self.visit(ch, at, depth + 1)

    done: Set[int] = set()
    for nd in FP.g.nodes:
        if nd.kind != "if" or nd.part is None or nd.ast is None:
            continue
        rejecting = any(rs for rs in (FP.raise_only(nd.id, "T"), FP.raise_only(nd.id, "F")) if rs)
        if not rejecting:
            continue
        top = Reads()
        top.visit(nd.part, nd.ast)
        for op, at, operands in top.overlaps:
            if id(op) in done:
                continue
            done.add(id(op))
            rd = Reads()
            for o in operands:
                rd.visit(o, at)
            bad = rd.taints[0] if rd.taints else None
            what = ""
            if bad is not None:
                kind = "a select entry (the column's name in the file, before rename)" if bad[0] == "select" else "a rename key / target taken on its own (a rename applies only to a column that is present and selected)"
                what = f"the rejecting test `{_u(op)[:60]}` is fed by `{_u(bad[1])[:50]}`: {kind} is compared as if it were a key the block contributes - a valid specification whose selected column is renamed away from a name used by another block is rejected while it is parsed, although expand_run_space expands it to the documented list (select, then rename; duplicates are judged after rename)"
            R.check(bad is None, rule, mod.rel, getattr(fn, "name", "?"), f"rejecting key test `{_u(op)[:60]}` reads only keys the expansion certainly produces", what, getattr(bad[1] if bad else op, "lineno", getattr(at, "lineno", 0)))


def _built_blocks_exhaustive(repo: Repo, R: Report) -> None:
    """The other side of C08-D2-every-block-examined: a function that builds the block objects of a specification
    in a loop (the YAML parser; found by role - it calls the constructor of the dataclass that carries the inline
    context and the source of a block) builds one for every declared entry.  The loop is left only by exhaustion or
    by raising, and an iteration that is followed by another one has built its block: a declared block that is
    skipped (or everything after some block) contributes no keys and is never validated by the expansion, and an
    empty by_position block - zero runs, it empties the whole expansion - would vanish."""
    classes = _spec_classes(repo)
    blk_classes = [(m, c, f, o) for m, c, f, o in classes.values() if "context" in f and "source" in f]
    if not blk_classes:
        raise AnalysisError("run-space block dataclass (fields context / source) not found from the specification class")
    rule = R.rule("C08-D2-every-block-built", "a function that builds the block objects of a specification in a loop over the declared entries (configuration parser) builds one for every entry: the loop is left only by exhaustion or by raising, and every iteration that is followed by another one has passed the construction - no declared block is dropped before the expansion sees it (its keys, its length / duplicate / missing-column errors and, for an empty by_position block, its zero runs are part of the documented result)", 1)
    names = {c.name for _m, c, _f, _o in blk_classes}
    for mod in list(repo.modules.values()):
        if not any(nm in mod.source for nm in names):
            continue
        for qn, node in list(mod.defs.items()):
            if not isinstance(node, FuncNode):
                continue
            if not any(isinstance(c, ast.Call) and _last(dotted_name(c.func)) in names for c in walk_no_nested(node)):
                continue
            repo.consulted.add(mod.rel)
            try:
                fn = nfunc(repo, mod.rel, qn, copyprop="all")
            except AnalysisError:
                raise
            except Exception:
                fn = node
            FP: Optional[Flow] = None
            for c in walk_no_nested(fn):
                if not isinstance(c, ast.Call) or not isinstance(c.func, (ast.Name, ast.Attribute)):
                    continue
                r = repo.resolve_name(mod, c.func, mod.tree)
                if r is None or not any(r[1] is bc[1] for bc in blk_classes):
                    continue
                loops = [a for a in ancestors(c) if isinstance(a, (ast.For, ast.While))]
                if not loops:
                    continue  # one object, or a comprehension (exhaustive by construction)
                lp = loops[-1]
                FP = FP or Flow(fn)
                fname = getattr(fn, "name", qn)
                leavers = loop_leavers(FP, lp)
                for lv in leavers:
                    R.violation(rule, mod.rel, fname, f"`{norm(lv)[:60]}` ends the loop that builds the blocks", "the loop that builds one block object per declared entry is left before the entries are exhausted: the remaining declared blocks never reach the expansion (their keys are missing from every run and nothing in them is validated)", getattr(lv, "lineno", lp.lineno))
                if not leavers:
                    R.ok(rule, mod.rel, fname, f"`{norm(lp)[:60]}` is left only by exhaustion or by raising")
                path = loop_bypass(FP, lp, nodes=[FP.nid(c)])
                R.check(path is None, rule, mod.rel, fname, f"every entry walked by `{norm(lp)[:50]}` is built into a block", "a declared block can be passed without a block object being built for it: the block is dropped before the expansion sees it (its keys are missing from every run, its errors go unreported, an empty by_position block no longer yields zero runs)", c.lineno, path or [])


def _cell_converters(repo: Repo, R: Report) -> None:
    """Text read from a source file stays the text that was written unless it is spelled like a number: in the
    functions that load a source (call graph of _load_and_process_source), a converter that also accepts *words*
    (`float` takes inf, nan, infinity, 1e3; likewise complex / Decimal / literal_eval) is applied to file content only
    on a branch where a test on the spelling has passed (a '.'/digit containment test, str.isdigit-like predicates,
    a regular-expression match).  Unguarded, label columns such as bound=inf|sup or fill=nan|zero come back as
    floats, nan cells make identical runs unequal, and csv disagrees with the same data in json / yaml."""
    r_cell = R.rule("C08-D1-source-cells", "while loading a source, a converter that also accepts words (float: inf, nan, infinity, 1e3; complex, Decimal, literal_eval) is applied to file content only behind a test on the spelling ('.'/digit containment, isdigit-like predicate, regular-expression match): a cell that is not spelled like a number is carried into the runs as written", 1)
    mod = repo.module(RS)
    roots = [(mod, repo.func(RS, LPS))]
    closure = repo.call_graph_closure(roots)
    done: Set[Tuple] = set()
    for _k, (m, node, _path) in sorted(closure.items(), key=lambda kv: (kv[1][0].rel, getattr(kv[1][1], "lineno", 0))):
        if not isinstance(node, FuncNode):
            continue
        qn = next((q for q, n in m.defs.items() if n is node), None)
        fn = node
        if qn is not None and "." not in qn:
            try:
                fn = nfunc(repo, m.rel, qn, keep=KEEP, copyprop="temps")
            except AnalysisError:
                raise
            except Exception:
                fn = node
        _converters_in(R, r_cell, m.rel, fn, done)


def _converters_in(R: Report, r_cell, rel: str, fn: ast.AST, done: Set[Tuple]) -> None:
    FX = Flow(fn)
    a = fn.args
    params = {x.arg for x in a.posonlyargs + a.args + a.kwonlyargs}
    local_names = params | {x.id for x in ast.walk(fn) if isinstance(x, ast.Name) and isinstance(x.ctx, ast.Store)}

    def converters_named(f: ast.AST, at: ast.AST, depth: int = 0) -> Set[str]:
        """Word-accepting converters the callee expression *f* can stand for."""
        if depth > 3:
            return set()
        if isinstance(f, ast.Attribute):
            return {f.attr} & set(WORD_CONVERTERS) if dotted_name(f) else set()
        if isinstance(f, (ast.Tuple, ast.List, ast.Set)):
            return set().union(*[converters_named(x, at, depth + 1) for x in f.elts]) if f.elts else set()
        if isinstance(f, ast.IfExp):
            return converters_named(f.body, at, depth + 1) | converters_named(f.orelse, at, depth + 1)
        if not isinstance(f, ast.Name):
            return set()
        if f.id not in local_names:
            return {f.id} & set(WORD_CONVERTERS)
        for a2 in ancestors(f):
            if isinstance(a2, COMPS):
                for gen in a2.generators:
                    if any(isinstance(t, ast.Name) and t.id == f.id for t in ast.walk(gen.target)):
                        return converters_named(gen.iter, at, depth + 1) if isinstance(gen.target, ast.Name) else set()
        out: Set[str] = set()
        for d in FX.defs(f.id, at):
            if d[0] == "val":
                out |= converters_named(d[1], d[2], depth + 1)
            elif d[0] == "iter" and isinstance(d[1].target, ast.Name):
                for v, st in FX.values(d[1].iter, d[1]):
                    out |= converters_named(v, st, depth + 1)
        return out

    # (call, converters, converted expression, selecting test of a {True: f, False: g}[test] dispatch or None)
    sites: List[Tuple[ast.Call, Set[str], ast.AST, Optional[Tuple[ast.AST, bool]]]] = []
    for c in ast.walk(fn):
        if not isinstance(c, ast.Call) or not c.args:
            continue
        st = stmt_of(c)
        convs = converters_named(c.func, st)
        if convs:
            sites.append((c, convs, c.args[0], None))
        elif isinstance(c.func, ast.Name) and c.func.id == "map" and c.func.id not in local_names and len(c.args) >= 2:
            convs = converters_named(c.args[0], st)
            if convs:
                sites.append((c, convs, c.args[1], None))
        elif isinstance(c.func, ast.Subscript):
            tables = [v for v, _s in FX.values(c.func.value, st)] if isinstance(c.func.value, ast.Name) else [c.func.value]
            for tb in tables:
                if isinstance(tb, ast.Dict) and tb.keys and all(isinstance(k, ast.Constant) and isinstance(k.value, bool) for k in tb.keys):
                    for k, v in zip(tb.keys, tb.values):
                        convs = converters_named(v, st)
                        if convs:
                            sites.append((c, convs, c.args[0], (c.func.slice, bool(k.value))))
                elif isinstance(tb, (ast.Dict, ast.Tuple, ast.List)):
                    convs = set().union(*[converters_named(v, st) for v in (tb.values if isinstance(tb, ast.Dict) else tb.elts)]) if (tb.values if isinstance(tb, ast.Dict) else tb.elts) else set()
                    if convs:
                        sites.append((c, convs, c.args[0], None))
    if not sites:
        return

    def roots_of(e: ast.AST, at: ast.AST) -> Set[str]:
        """Texts the converted value goes by: the expression itself and the locals / expressions it was copied from."""
        out = {_u(e)}
        if isinstance(e, ast.Name):
            out |= {_u(v) for v, _s in FX.values(e, at)}
        out |= {n for n in names_in(e) if n in local_names}
        return out

    def spelling_atom(texts: Set[str]):
        def about(x: ast.AST) -> bool:
            return bool(names_in(x) & {t for t in texts if t.isidentifier()}) or _u(x) in texts

        def atom(e: ast.AST) -> Optional[bool]:
            if isinstance(e, ast.Compare) and len(e.ops) == 1:
                l, op, r = e.left, e.ops[0], e.comparators[0]
                if isinstance(op, (ast.In, ast.NotIn)) and isinstance(l, ast.Constant) and isinstance(l.value, str) and l.value and set(l.value) <= set("0123456789.") and about(r):
                    return isinstance(op, ast.In)
                if isinstance(op, (ast.Is, ast.IsNot)) and isinstance(r, ast.Constant) and r.value is None:
                    inner = atom(l)
                    if inner is True and isinstance(l, ast.Call) and "match" in (call_attr(l) or ""):
                        return isinstance(op, ast.IsNot)
                return None
            if isinstance(e, ast.Call) and isinstance(e.func, ast.Attribute):
                if e.func.attr in ("isdigit", "isdecimal", "isnumeric") and not e.args and about(e.func.value):
                    return True
                if e.func.attr in ("match", "fullmatch") and e.args and any(about(x) for x in e.args):
                    return True
            return None
        return atom

    def value_tests(texts: Set[str], site_stmt: ast.AST) -> List[ast.AST]:
        """Tests on the converted value that this analysis cannot classify (neither a spelling test nor one of the
        tests known not to look at the spelling: isinstance, None, emptiness, membership in a set of words)."""
        ids = {t for t in texts if t.isidentifier()}
        out = []
        for n in FX.g.nodes:
            if n.kind == "if" and n.part is not None and names_in(n.part) & ids:
                if FX.edges(n.part, spelling_atom(texts)):
                    continue
                plain = True
                for x in ast.walk(n.part):
                    if isinstance(x, ast.Call) and not (call_name(x) in ("isinstance", "len", "str", "bool") or call_attr(x) in ("strip", "lower", "upper", "casefold", "lstrip", "rstrip")):
                        plain = False
                    if isinstance(x, ast.Compare) and not all(isinstance(c2, (ast.Constant, ast.Set, ast.Tuple, ast.List, ast.Name)) for c2 in x.comparators):
                        plain = False
                if not plain:
                    out.append(n.part)
        return out

    for c, convs, arg, selected_by in sites:
        key = (rel, getattr(c, "lineno", 0), getattr(c, "col_offset", 0), "/".join(sorted(convs)))
        if key in done:
            continue
        done.add(key)
        st = stmt_of(c)
        texts = roots_of(arg, st)
        if not any(t.isidentifier() and t in local_names for t in texts):
            continue  # a constant / module-level value, not file content
        atom = spelling_atom(texts)
        guarded = selected_by is not None and ("T" if selected_by[1] else "F") in FX.edges(selected_by[0], atom)
        child: ast.AST = c
        for a2 in ancestors(c):
            if a2 is st:
                break
            if isinstance(a2, ast.IfExp) and child is not a2.test:
                need = "T" if child is a2.body else "F"
                if need in FX.edges(a2.test, atom):
                    guarded = True
            if isinstance(a2, ast.BoolOp) and isinstance(a2.op, ast.And):
                idx = next((i for i, v in enumerate(a2.values) if v is child), 0)
                if any("T" in FX.edges(v, atom) for v in a2.values[:idx]):
                    guarded = True
            if isinstance(a2, COMPS):
                for gen in a2.generators:
                    if any("T" in FX.edges(t, atom) for t in gen.ifs):
                        guarded = True
            child = a2
        path: List[str] = []
        if not guarded:
            edges = []
            for n in FX.g.nodes:
                if n.kind == "if" and n.part is not None:
                    edges.extend((n.id, e2) for e2 in FX.edges(n.part, atom))
            if edges:
                guarded, path = FX.dominated([FX.nid(st)], edges)
        shown = "/".join(sorted(convs))
        label = f"{shown}() applied to source content: `{norm(c)[:60]}`"
        if not guarded:
            unknown = value_tests(texts, st)
            if unknown:
                raise AnalysisError(f"{fn.name}: `{norm(c)[:60]}` converts source content under a test this analysis cannot classify (`{_u(unknown[0])[:60]}`)")
        accepts = "; ".join(f"{k}() accepts {WORD_CONVERTERS[k]}" for k in sorted(convs))
        R.check(guarded, r_cell, rel, fn.name, label, f"file content reaches `{shown}()` without a test on its spelling ({accepts}): cells that are words or identifiers (bound = inf|sup, fill = nan|zero, batch = 1e3) are loaded as inf / nan / 1000.0 instead of the text written in the file, so the runs carry values that were not declared (nan also makes identical runs compare unequal) and csv disagrees with the same data in json / yaml", getattr(c, "lineno", fn.lineno), path or None)


# ---------------------------------------------------------------------------------------------
# D1: a source parser is given the file's own text, whole or one line-feed-delimited record of it
# ---------------------------------------------------------------------------------------------
# Seed C08-6a: the NDJSON branch iterated `handle.read().splitlines()` instead of the open file.  str.splitlines() also
# cuts at U+2028 / U+2029 / U+0085 / VT / FF / FS / GS / RS; the first three are legal unescaped inside a JSON string
# (json.dumps(.., ensure_ascii=False) writes them), so a valid record is cut in two and the declared source is rejected.
# The rule follows the value handed to every text parser in the call graph of expand_run_space back to the read of
# the file (reaching definitions, loop / comprehension elements, with-items, parameters through their call sites,
# results of helpers through their returns) and classifies every operation on the way.
_TEXT_PARSERS = {
    "json.loads": "text", "json.load": "text", "yaml.safe_load": "text", "yaml.load": "text", "yaml.full_load": "text", "yaml.unsafe_load": "text",
    "yaml.safe_load_all": "text", "yaml.load_all": "text", "tomllib.loads": "text", "tomllib.load": "text", "json.JSONDecoder.decode": "text",
    "csv.reader": "lines", "csv.DictReader": "lines",
}
_PARSER_ARG_NAMES = ("s", "fp", "stream", "csvfile", "f")
_REWRITING_METHODS = {
    "replace", "translate", "lower", "upper", "casefold", "title", "swapcase", "capitalize", "expandtabs", "partition", "rpartition",
    "rsplit", "removeprefix", "removesuffix", "ljust", "rjust", "center", "zfill", "format",
}
_REWRITING_CALLS = {"re.sub", "re.subn", "unicodedata.normalize", "textwrap.dedent", "textwrap.fill", "textwrap.shorten", "html.unescape"}
_STRIPS = ("strip", "rstrip", "lstrip")
_JSON_BLANKS = set(" \t\r\n")
_GOOD_TAGS = {"whole", "line", "lines", "handle"}
_NL_TRANSLATED = "nl-translated"  # side tag: the text went through universal-newline translation on the way from the file
_NL = {_NL_TRANSLATED}
_SPLITLINES_NOTE = "str.splitlines() also cuts at U+2028, U+2029, U+0085, VT, FF, FS, GS and RS; U+2028 / U+2029 / U+0085 are legal unescaped inside a JSON string (json.dumps(.., ensure_ascii=False) writes them) and inside a csv / yaml cell"


class _TextUnits:
    """Provenance of the text handed to the parsers of source files."""

    def __init__(self, repo: Repo) -> None:
        self.repo = repo
        mod = repo.module(RS)
        closure = repo.call_graph_closure([(mod, repo.func(RS, ERS))])
        self.ctx: Dict[int, Tuple[object, ast.AST, ast.AST, Flow]] = {}  # id(original function) -> (module, original, normal form, flow)
        for _k, (m, node, _path) in sorted(closure.items(), key=lambda kv: (kv[1][0].rel, getattr(kv[1][1], "lineno", 0))):
            if not isinstance(node, FuncNode):
                continue
            qn = next((q for q, n in m.defs.items() if n is node), None)
            fn = node
            if qn is not None and "." not in qn:
                try:
                    fn = nfunc(repo, m.rel, qn, keep=KEEP, copyprop="temps")
                except AnalysisError:
                    raise
                except Exception:
                    fn = node
            self.ctx[id(node)] = (m, node, fn, Flow(fn))
        self.of_nf: Dict[int, int] = {id(v[2]): k for k, v in self.ctx.items()}
        self.call_sites: Dict[int, List[Tuple[int, ast.Call]]] = {}
        self.call_targets: Dict[int, List[int]] = {}
        for fid, (m, _node, fn, _F) in self.ctx.items():
            for c in [n for n in _walk_fn(fn) if isinstance(n, ast.Call)]:
                for _tm, tn in repo.resolve_call(m, c):
                    if id(tn) in self.ctx:
                        self.call_sites.setdefault(id(tn), []).append((fid, c))
                        self.call_targets.setdefault(id(c), []).append(id(tn))
        self._busy: Set[Tuple] = set()

    # ---- names ------------------------------------------------------------------------------
    def ext(self, fid: int, f: ast.AST) -> Optional[str]:
        """Dotted name of a callee with the module's import aliases resolved (`from json import loads` -> json.loads)."""
        d = dotted_name(f)
        if d is None:
            return None
        head, _, rest = d.partition(".")
        target = self.ctx[fid][0].imports.get(head)
        if target is None:
            return d
        return f"{target}.{rest}" if rest else target

    def open_call(self, fid: int, c: ast.AST) -> Optional[Dict[str, Optional[ast.AST]]]:
        """errors= / newline= / mode of a call that opens a file (builtin / io / codecs open, or the open method of a path)."""
        if not (isinstance(c, ast.Call) and call_attr(c) == "open"):
            return None
        d = self.ext(fid, c.func) or ""
        if isinstance(c.func, ast.Name) or d.split(".")[0] in _OPEN_MODULES:
            order = ["file", "mode", "buffering", "encoding", "errors", "newline"]
        else:
            order = ["mode", "buffering", "encoding", "errors", "newline"]
        got: Dict[str, Optional[ast.AST]] = {k: None for k in order}
        for i, a in enumerate(c.args):
            if isinstance(a, ast.Starred):
                break
            if i < len(order):
                got[order[i]] = a
        for kw in c.keywords:
            if kw.arg in got:
                got[kw.arg] = kw.value
        return got

    @staticmethod
    def _translating_open(d: str, oc: Dict[str, Optional[ast.AST]]) -> bool:
        """The opened file is read as text with universal-newline translation (newline absent / None): `\\r\\n` and a
        bare `\\r` arrive as `\\n`.  Only what the call spells out is decided; a computed mode / newline is not judged."""
        nl, mode = oc.get("newline"), oc.get("mode")
        if nl is not None and not (isinstance(nl, ast.Constant) and nl.value is None):
            return False
        if mode is not None and not (isinstance(mode, ast.Constant) and isinstance(mode.value, str)):
            return False
        m = mode.value if mode is not None else "r"
        head = d.split(".")[0]
        if head == "codecs":
            return False  # codecs.open reads the underlying file in binary mode: no translation
        if head in ("gzip", "bz2", "lzma"):
            return "t" in m
        return "b" not in m

    @staticmethod
    def _lenient(errors: Optional[ast.AST]) -> bool:
        return errors is not None and not (isinstance(errors, ast.Constant) and errors.value in (None, "strict"))

    # ---- the classification --------------------------------------------------------------------
    # A result is (tags, findings): tags out of whole / line / lines / handle / handle-oddnl (what a good provenance
    # looks like), const / opaque (not file content as far as can be seen), unknown (file content through an operation
    # this analysis does not know); findings are (node, what is wrong) for operations known to cut or rewrite content.
    def text(self, fid: int, e: Optional[ast.AST], at: ast.AST, depth: int = 0) -> Tuple[Set[str], List[Tuple[ast.AST, str]]]:
        if e is None or depth > 12:
            return {"opaque"}, []
        key = (fid, id(e))
        if key in self._busy:
            return set(), []
        self._busy.add(key)
        try:
            return self._text(fid, e, at, depth)
        finally:
            self._busy.discard(key)

    def _union(self, parts: Sequence[Tuple[Set[str], List]]) -> Tuple[Set[str], List[Tuple[ast.AST, str]]]:
        tags: Set[str] = set()
        bad: List[Tuple[ast.AST, str]] = []
        for t, b in parts:
            tags |= t
            bad += b
        return tags, bad

    def _derived(self, parts: Sequence[Tuple[Set[str], List]]) -> Tuple[Set[str], List[Tuple[ast.AST, str]]]:
        """Result of an operation this analysis does not know, applied to *parts*."""
        tags, bad = self._union(parts)
        filey = tags & (_GOOD_TAGS | {"handle-oddnl", "unknown"})
        return ({"unknown"} if filey else {"opaque"}), bad

    def _text(self, fid: int, e: ast.AST, at: ast.AST, depth: int) -> Tuple[Set[str], List[Tuple[ast.AST, str]]]:
        m, _node, fn, F = self.ctx[fid]
        d1 = depth + 1
        if isinstance(e, ast.Constant):
            return {"const"}, []
        if isinstance(e, ast.NamedExpr):
            return self.text(fid, e.value, at, d1)
        if isinstance(e, ast.IfExp):
            return self._union([self.text(fid, e.body, at, d1), self.text(fid, e.orelse, at, d1)])
        if isinstance(e, ast.BoolOp):
            return self._union([self.text(fid, v, at, d1) for v in e.values])
        if isinstance(e, ast.Name):
            return self._name(fid, e, at, d1)
        if isinstance(e, (ast.GeneratorExp, ast.ListComp, ast.SetComp)):
            tags, bad = self.text(fid, e.elt, at, d1)
            if isinstance(e, ast.SetComp) and tags & _GOOD_TAGS:
                bad = bad + [(e, "the records are collected into a set: file order and repeated records are lost")]
            return ({"lines" if t in ("line", "whole") else t for t in tags}), bad
        if isinstance(e, ast.Subscript):
            tags, bad = self.text(fid, e.value, at, d1)
            if isinstance(e.slice, ast.Slice):
                if tags & {"whole", "line"}:
                    bad = bad + [(e, "the text is sliced before it is parsed: part of the record is dropped")]
                return tags, bad
            return ({"line" if t == "lines" else t for t in tags}), bad
        if isinstance(e, (ast.BinOp, ast.JoinedStr, ast.FormattedValue, ast.Starred, ast.Tuple, ast.List)):
            kids = [x for x in ast.iter_child_nodes(e) if isinstance(x, ast.expr)]
            return self._derived([self.text(fid, x, at, d1) for x in kids])
        if isinstance(e, ast.Call):
            return self._call(fid, e, at, d1)
        return {"opaque"}, []

    def _comp_binding(self, name: ast.Name) -> Optional[Tuple[ast.comprehension, ast.AST]]:
        for a in ancestors(name):
            if isinstance(a, COMPS):
                for gen in reversed(a.generators):
                    if any(isinstance(t, ast.Name) and t.id == name.id for t in ast.walk(gen.target)):
                        return gen, a
            if isinstance(a, ast.Lambda) and any(x.arg == name.id for x in a.args.args):
                return None
        return None

    def _name(self, fid: int, e: ast.Name, at: ast.AST, depth: int) -> Tuple[Set[str], List[Tuple[ast.AST, str]]]:
        m, node, fn, F = self.ctx[fid]
        cb = self._comp_binding(e)
        if cb is not None:
            return self._element(fid, cb[0].iter, cb[0].target, e.id, at, depth)
        a = fn.args  # type: ignore[attr-defined]
        params = [x.arg for x in a.posonlyargs + a.args + a.kwonlyargs]
        try:
            ds = F.defs(e.id, at)
        except AnalysisError:
            return {"opaque"}, []
        parts: List[Tuple[Set[str], List]] = []
        for d in ds:
            if d[0] == "val":
                if isinstance(d[1], ast.Name) and d[1].id == e.id:
                    continue
                parts.append(self.text(fid, d[1], d[2], depth))
            elif d[0] == "item":
                vals = [v for v, _s in F.values(d[1], d[3])]
                if vals and all(isinstance(v, (ast.Tuple, ast.List)) and len(v.elts) > d[2] and not any(isinstance(x, ast.Starred) for x in v.elts) for v in vals):
                    parts.extend(self.text(fid, v.elts[d[2]], d[3], depth) for v in vals)
                else:
                    parts.append(self._derived([self.text(fid, d[1], d[3], depth)]))
            elif d[0] == "iter":
                parts.append(self._element(fid, d[1].iter, d[1].target, e.id, d[1], depth))
            elif d[0] == "aug":
                parts.append(self._derived([self.text(fid, d[1].value, d[1], depth)] + [({"unknown"}, [])]))
            else:
                st = d[1]
                item = next((it for it in getattr(st, "items", []) if isinstance(it.optional_vars, ast.Name) and it.optional_vars.id == e.id), None) if isinstance(st, (ast.With, ast.AsyncWith)) else None
                if item is not None:
                    parts.append(self.text(fid, item.context_expr, st, depth))
                else:
                    parts.append(({"opaque"}, []))
        if not ds and e.id in params:
            if e.id in ("self", "cls"):
                return {"opaque"}, []
            sites = self.call_sites.get(fid, [])
            for cfid, c in sites:
                arg = _bind_args(c, node).get(e.id)
                if arg is not None:
                    parts.append(self.text(cfid, arg, stmt_of(c), depth))
                else:
                    parts.append(({"opaque"}, []))
        return self._union(parts) if parts else ({"opaque"}, [])

    def _element(self, fid: int, it: ast.AST, target: ast.AST, name: str, at: ast.AST, depth: int) -> Tuple[Set[str], List[Tuple[ast.AST, str]]]:
        """What one element of the iteration `for <target> in <it>` bound to *name* stands for."""
        if isinstance(target, (ast.Tuple, ast.List)):
            idx = next((i for i, t in enumerate(target.elts) if isinstance(t, ast.Name) and t.id == name), None)
            if idx is None or not isinstance(it, ast.Call):
                return self._derived([self.text(fid, it, at, depth)])
            d = self.ext(fid, it.func)
            if d == "enumerate" and it.args:
                if idx == 0:
                    return {"const"}, []
                it = it.args[0]
            elif d == "zip" and len(it.args) > idx and not any(isinstance(x, ast.Starred) for x in it.args):
                it = it.args[idx]
            elif self.call_targets.get(id(it)):
                # a generator of the package that yields tuple displays: the element is the item at the same position
                parts: List[Tuple[Set[str], List]] = []
                for tid in self.call_targets[id(it)]:
                    tfn = self.ctx[tid][2]
                    ys = [n for n in _walk_fn(tfn) if isinstance(n, ast.Yield)]
                    if not ys or any(isinstance(n, ast.YieldFrom) for n in _walk_fn(tfn)) or not all(isinstance(y.value, ast.Tuple) and len(y.value.elts) > idx and not any(isinstance(x, ast.Starred) for x in y.value.elts) for y in ys):
                        return self._derived([self.text(fid, it, at, depth)])
                    parts.extend(self.text(tid, y.value.elts[idx], stmt_of(y), depth) for y in ys)
                return self._union(parts)
            else:
                return self._derived([self.text(fid, it, at, depth)])
        tags, bad = self.lines(fid, it, at, depth)
        return ({"line" if t == "lines" else t for t in tags}), bad

    def lines(self, fid: int, e: ast.AST, at: ast.AST, depth: int) -> Tuple[Set[str], List[Tuple[ast.AST, str]]]:
        """*e* used as an iterable of text units: 'lines' when its elements are the line-feed-delimited lines of a file."""
        tags, bad = self.text(fid, e, at, depth + 1)
        out: Set[str] = set()
        for t in tags:
            if t == "handle":
                out.add("lines")
            elif t == "handle-oddnl":
                out.add("lines")
                bad = bad + [(e, "the file is opened with a newline= other than None / '' / '\\n': iterating it no longer ends a record at every line feed")]
            elif t == "whole":
                out.add("unknown")  # a text iterated as such gives characters
            elif t == "line":
                out.add("unknown")
            else:
                out.add(t)
        return out, bad

    def _call(self, fid: int, c: ast.Call, at: ast.AST, depth: int) -> Tuple[Set[str], List[Tuple[ast.AST, str]]]:
        m, _node, fn, F = self.ctx[fid]
        d = self.ext(fid, c.func) or ""
        attr = call_attr(c)
        oc = self.open_call(fid, c)
        if oc is not None:
            bad: List[Tuple[ast.AST, str]] = []
            if self._lenient(oc["errors"]):
                bad.append((c, f"the file is opened with errors={_u(oc['errors'])}: bytes that do not decode are dropped or replaced instead of being rejected, the parser sees text that is not in the file"))
            nl = oc["newline"]
            odd = nl is not None and not (isinstance(nl, ast.Constant) and nl.value in (None, "", "\n"))
            tags = {"handle-oddnl" if odd else "handle"}
            if self._translating_open(d, oc):
                tags.add(_NL_TRANSLATED)
            return tags, bad
        if isinstance(c.func, ast.Attribute):
            recv = c.func.value
            if attr in ("read_text", "read_bytes"):
                errs = kwarg(c, "errors") or (c.args[1] if attr == "read_text" and len(c.args) > 1 else None)
                bad = [(c, f"the file is read with errors={_u(errs)}: bytes that do not decode are dropped or replaced, the parser sees text that is not in the file")] if self._lenient(errs) else []
                nl = kwarg(c, "newline")
                if attr == "read_text" and (nl is None or (isinstance(nl, ast.Constant) and nl.value is None)):
                    return {"whole", _NL_TRANSLATED}, bad  # Path.read_text opens in text mode, newline=None
                return {"whole"}, bad
            if attr in ("read", "readline", "readlines", "__iter__", "__next__") and not d.startswith(("json.", "yaml.", "csv.")):
                tags, bad = self.text(fid, recv, at, depth)
                if not tags & {"handle", "handle-oddnl"}:
                    return self._derived([(tags, bad)])
                sized = [a for a in c.args if not (isinstance(a, ast.Constant) and a.value in (None, -1)) and not (isinstance(a, ast.UnaryOp) and isinstance(a.op, ast.USub))] + [kw.value for kw in c.keywords]
                if sized:
                    return {"unknown"}, bad + [(c, f"`{_u(c)}` reads a bounded part of the file: a record longer than the bound is cut")]
                if attr == "read":
                    return {"whole"} | (tags & _NL), bad
                if "handle-oddnl" in tags:
                    bad = bad + [(c, "the file is opened with a newline= other than None / '' / '\\n': its lines no longer end at every line feed")]
                return {"line" if attr in ("readline", "__next__") else "lines"} | (tags & _NL), bad
            if attr in _STRIPS:
                chars = c.args[0] if c.args else kwarg(c, "chars")
                tags, bad = self.text(fid, recv, at, depth)
                if chars is not None and not (isinstance(chars, ast.Constant) and (chars.value is None or (isinstance(chars.value, (str, bytes)) and set(chars.value if isinstance(chars.value, str) else chars.value.decode("latin-1")) <= _JSON_BLANKS))) and tags & (_GOOD_TAGS | {"unknown"}):
                    bad = bad + [(c, f"`{_u(c)[:60]}` strips characters other than blanks from the text before it is parsed")]
                return tags, bad
            if attr in ("decode", "encode"):
                tags, bad = self.text(fid, recv, at, depth)
                errs = kwarg(c, "errors") or (c.args[1] if len(c.args) > 1 else None)
                if self._lenient(errs) and tags & (_GOOD_TAGS | {"unknown"}):
                    bad = bad + [(c, f"`{_u(c)[:60]}` drops or replaces what does not {attr} instead of rejecting the file")]
                return tags, bad
            if attr == "splitlines":
                tags, bad = self.text(fid, recv, at, depth)
                if tags & {"whole", "line", "unknown"}:
                    return {"lines"}, bad + [(c, f"`{_u(c)[:70]}` cuts the file's text at more than the line feed that separates records: {_SPLITLINES_NOTE}; a record that holds one of them is cut in two")]
                return self._derived([(tags, bad)])
            if attr == "split":
                tags, bad = self.text(fid, recv, at, depth)
                sep = c.args[0] if c.args else kwarg(c, "sep")
                limited = len(c.args) > 1 or kwarg(c, "maxsplit") is not None
                if tags & {"whole", "line", "unknown"}:
                    if "line" in tags and "whole" not in tags:
                        return {"unknown"}, bad + [(c, f"`{_u(c)[:70]}` cuts a single record into pieces before it is parsed")]
                    if sep is None or (isinstance(sep, ast.Constant) and sep.value is None):
                        return {"lines"}, bad + [(c, f"`{_u(c)[:70]}` cuts the file's text at every run of blanks (and at U+2028 / U+2029 / U+0085 ...), not at the line feed that separates records: a record holding a blank inside a string is cut")]
                    if not (isinstance(sep, ast.Constant) and sep.value in ("\n", b"\n")) or limited:
                        return {"lines"}, bad + [(c, f"`{_u(c)[:70]}` does not cut the file's text at every line feed (and only there): records are delimited by the line feed")]
                    return {"lines"}, bad
                return self._derived([(tags, bad)])
            if attr in _REWRITING_METHODS:
                tags, bad = self.text(fid, recv, at, depth)
                if tags & (_GOOD_TAGS | {"unknown"}):
                    return tags, bad + [(c, f"`{_u(c)[:70]}` rewrites the file's text before it is parsed: the cells are no longer the ones written in the file")]
                return {"opaque"}, bad
            if attr == "join" and len(c.args) == 1:
                return self._derived([self.text(fid, c.args[0], at, depth)])
        if d in _REWRITING_CALLS:
            parts = [self.text(fid, a, at, depth) for a in c.args]
            tags, bad = self._union(parts)
            if tags & (_GOOD_TAGS | {"unknown"}):
                return (tags & (_GOOD_TAGS | {"unknown"})), bad + [(c, f"`{_u(c)[:70]}` rewrites the file's text before it is parsed: the cells are no longer the ones written in the file")]
            return {"opaque"}, bad
        if d == "re.split" and len(c.args) >= 2:
            tags, bad = self.text(fid, c.args[1], at, depth)
            if tags & {"whole", "line", "unknown"}:
                p = c.args[0]
                ok = isinstance(p, ast.Constant) and isinstance(p.value, str) and "\n" in p.value.replace("\\n", "\n") and not (set(p.value.replace("\\r", "").replace("\\n", "").replace("\r", "").replace("\n", "")) - set("?|[]()+:")) and len(c.args) == 2 and not c.keywords and "whole" in tags
                if not ok:
                    bad = bad + [(c, f"`{_u(c)[:70]}` does not cut the file's text at every line feed (and only there): records are delimited by the line feed")]
                return {"lines"}, bad
            return self._derived([(tags, bad)])
        if d in ("str", "iter", "list", "tuple", "bytes") and len(c.args) == 1 and not c.keywords:
            return self.text(fid, c.args[0], at, depth)
        if d in ("io.StringIO", "io.BytesIO", "io.TextIOWrapper", "io.BufferedReader", "codecs.getreader") and c.args:
            tags, bad = self.text(fid, c.args[0], at, depth)
            errs = kwarg(c, "errors")
            if self._lenient(errs):
                bad = bad + [(c, f"`{_u(c)[:60]}` decodes with errors={_u(errs)}: bytes that do not decode are dropped or replaced")]
            nl = kwarg(c, "newline")
            odd = nl is not None and not (isinstance(nl, ast.Constant) and nl.value in (None, "", "\n"))
            if tags & {"whole", "handle", "handle-oddnl"}:
                out = {"handle-oddnl" if odd or "handle-oddnl" in tags else "handle"} | (tags & _NL)
                if d == "io.TextIOWrapper" and (nl is None or (isinstance(nl, ast.Constant) and nl.value is None)):
                    out.add(_NL_TRANSLATED)  # the wrapper decodes a binary stream with newline=None
                return out, bad
            return self._derived([(tags, bad)])
        if d == "enumerate" and c.args:
            return self._derived([self.text(fid, c.args[0], at, depth)])
        if d == "next" and c.args:
            tags, bad = self.lines(fid, c.args[0], at, depth)
            return ({"line" if t == "lines" else t for t in tags}), bad
        if d in ("sorted", "reversed") and c.args:
            tags, bad = self.text(fid, c.args[0], at, depth)
            if tags & {"lines", "handle", "handle-oddnl"}:
                return tags, bad + [(c, f"`{_u(c)[:60]}` reorders the records of the file: rows are taken in file order")]
            return self._derived([(tags, bad)])
        if d == "filter" and len(c.args) == 2:
            return self.lines(fid, c.args[1], at, depth)
        if d == "map" and len(c.args) == 2:
            f = c.args[0]
            fd = self.ext(fid, f) or ""
            if fd in ("str.strip", "str.rstrip", "str.lstrip", "str"):
                return self.lines(fid, c.args[1], at, depth)
            if fd in ("str.splitlines", "str.split", "str.lower", "str.upper", "str.casefold", "str.title", "str.swapcase", "str.capitalize", "str.expandtabs"):
                tags, bad = self.lines(fid, c.args[1], at, depth)
                if tags & (_GOOD_TAGS | {"unknown"}):
                    bad = bad + [(c, f"`{_u(c)[:60]}` cuts / rewrites every record before it is parsed")]
                return tags, bad
            return self._derived([self.text(fid, c.args[1], at, depth)])
        targets = self.call_targets.get(id(c))
        if targets:
            parts = []
            for tid in targets:
                _tm, _tn, tfn, _tF = self.ctx[tid]
                rets = [r for r in _walk_fn(tfn) if isinstance(r, ast.Return) and r.value is not None]
                if any(isinstance(n, (ast.Yield, ast.YieldFrom)) for n in _walk_fn(tfn)):
                    ys = [n for n in _walk_fn(tfn) if isinstance(n, ast.Yield) and n.value is not None]
                    got = self._union([self.text(tid, y.value, stmt_of(y), depth) for y in ys]) if ys else ({"opaque"}, [])
                    parts.append(({"lines" if t in ("line", "whole") else t for t in got[0]}, got[1]))
                    if any(isinstance(n, ast.YieldFrom) for n in _walk_fn(tfn)):
                        parts.extend(self.text(tid, n.value, stmt_of(n), depth) for n in _walk_fn(tfn) if isinstance(n, ast.YieldFrom))
                    continue
                parts.extend(self.text(tid, r.value, r, depth) for r in rets)
            return self._union(parts) if parts else ({"opaque"}, [])
        kids = list(c.args) + [kw.value for kw in c.keywords] + ([c.func.value] if isinstance(c.func, ast.Attribute) else [])
        return self._derived([self.text(fid, k.value if isinstance(k, ast.Starred) else k, at, depth) for k in kids])

    # ---- the rule -------------------------------------------------------------------------------
    def judge(self, R: Report, rule: str, rule_nl: Optional[str] = None) -> None:
        for fid, (m, node, fn, F) in self.ctx.items():
            for c in [n for n in _walk_fn(fn) if isinstance(n, ast.Call)]:
                d = self.ext(fid, c.func) or ""
                kind = _TEXT_PARSERS.get(d)
                if kind is None:
                    continue
                arg = c.args[0] if c.args and not isinstance(c.args[0], ast.Starred) else next((kw.value for kw in c.keywords if kw.arg in _PARSER_ARG_NAMES), None)
                if arg is None:
                    continue
                st = stmt_of(c)
                tags, bad = self.text(fid, arg, st)
                if kind == "lines" and not bad and not tags & {"handle", "handle-oddnl", "lines"} and tags & {"whole", "line"}:
                    tags = {"unknown"}
                name = getattr(fn, "name", "?")
                label = f"text handed to `{d}`: `{norm(c)[:60]}`"
                if bad:
                    where, what = bad[0]
                    R.violation(rule, m.rel, name, label, what + " - the expansion of a valid source is rejected or returns rows that were not declared", getattr(where, "lineno", getattr(c, "lineno", 0)))
                elif "unknown" in tags:
                    raise AnalysisError(f"{name}: the text handed to `{norm(c)[:60]}` (line {getattr(c, 'lineno', 0)}) comes from a source file through an operation this analysis does not classify")
                elif tags & _GOOD_TAGS or "handle-oddnl" in tags:
                    R.ok(rule, m.rel, name, label)
                if rule_nl is not None and d.startswith("csv.") and not bad and "unknown" not in tags and (tags & _GOOD_TAGS or "handle-oddnl" in tags):
                    R.check(
                        _NL_TRANSLATED not in tags, rule_nl, m.rel, name, label,
                        "the csv parser is handed text that went through universal-newline translation (file opened / read as text without newline=''): a quoted cell holding `\\r\\n` or a bare `\\r` (multi-line cells as Excel / Windows tools write them) is loaded as `\\n` - the runs carry a value the source does not declare; the csv module's contract is a file opened with newline=''",
                        getattr(c, "lineno", 0),
                    )


def _record_units(repo: Repo, R: Report) -> None:
    rule = R.rule(
        "C08-D1-source-records",
        "the text handed to a parser of source content (json / yaml / csv) in the call graph of expand_run_space is the file's own text as decoded strictly - the whole file, the open file, or one record of it as delimited by the line feed (iterating the open file, readline(s), split('\\n')), at most stripped of blanks; nothing on the way cuts it elsewhere (str.splitlines(), split() at blanks, slicing, bounded reads), rewrites it (replace, case folding, re.sub, lenient decoding) or reorders the records",
        3,
    )
    rule_nl = R.rule(
        "C08-D1-csv-untranslated",
        "csv content reaches the csv parser as written in the file: every way the text handed to csv.reader / csv.DictReader in the call graph of expand_run_space comes from the file leaves line ends alone (text mode with newline='' / '\\n', a binary stream wrapped with newline='', decoded bytes) - with the default newline=None Python turns `\\r\\n` and `\\r` into `\\n` before the parser sees them, and a quoted multi-line cell is loaded with another value than the file declares (the line terminator between records is the parser's own business)",
        1,
    )
    _TextUnits(repo).judge(R, rule, rule_nl)


# ---------------------------------------------------------------------------------------------
# D4: a source file that cannot be read ends in the configuration error the CLI gate maps
# ---------------------------------------------------------------------------------------------
# Defect 4eea17b: `_load_source_file` opened / decoded the file outside any converting `try`, so a source that is a
# directory, unreadable or not UTF-8 left `expand_run_space` as OSError / UnicodeDecodeError; `cli._run` maps only the
# classes named in the `except` clauses around its `expand_run_space(...)` call to the configuration-error exit, and
# `semantiva run` ended in a traceback (exit 1).  The rule is an abstract exception propagation over the call graph of
# `expand_run_space`: for every operation that reads a file and for both failure classes (I/O: OSError; decoding:
# UnicodeDecodeError) the exception is carried outwards through the enclosing `try` statements (handlers matched in
# order by class, a handler's `raise` continues with the raised class), through every call site, up to the gate in the
# CLI.  It must arrive as a class the gate maps; a handler that ends without raising loses the source silently.
CLI = "semantiva/cli/__init__.py"
_BUILTIN_EXC = {n: o for n, o in vars(__import__("builtins")).items() if isinstance(o, type) and issubclass(o, BaseException)}
_EXTERNAL_BASE = {
    "json.JSONDecodeError": "ValueError", "json.decoder.JSONDecodeError": "ValueError", "yaml.YAMLError": "Exception",
    "yaml.error.YAMLError": "Exception", "yaml.error.MarkedYAMLError": "Exception", "yaml.scanner.ScannerError": "Exception",
    "yaml.parser.ParserError": "Exception", "csv.Error": "Exception",
}
_OPEN_MODULES = {"io", "codecs", "gzip", "bz2", "lzma", "tokenize", "builtins"}
_LAZY_CALLS = {"csv.reader", "csv.DictReader", "reader", "DictReader", "map", "filter", "zip", "enumerate", "iter", "reversed", "yaml.safe_load_all", "yaml.load_all", "io.TextIOWrapper", "TextIOWrapper", "io.BufferedReader"}
_EAGER_CALLS = {"json.load", "yaml.safe_load", "yaml.load", "list", "tuple", "sorted", "set", "frozenset", "dict", "next", "sum", "min", "max", "any", "all", "len", "str", "bytes", "print", "isinstance"}
_STORING_ATTRS = {"append", "extend", "add", "insert", "setdefault", "update", "put", "appendleft", "push"}
_TRANSPARENT_DECORATORS = {"staticmethod", "classmethod", "functools.lru_cache", "lru_cache", "functools.cache", "cache", "functools.wraps", "wraps", "typing.no_type_check", "no_type_check"}
IO_FAIL, DECODE_FAIL = "OSError", "UnicodeDecodeError"
_FAIL_TEXT = {IO_FAIL: "cannot be opened / read (a directory, no permission, I/O error)", DECODE_FAIL: "is not valid in the declared encoding"}


class _Exc:
    """An exception class as far as `except` matching needs it: its identity and the identities of its ancestors."""

    __slots__ = ("key", "supers", "label")

    def __init__(self, key: str, supers: Set[str], label: str) -> None:
        self.key, self.supers, self.label = key, frozenset(supers | {key}), label

    @staticmethod
    def builtin(name: str) -> "_Exc":
        o = _BUILTIN_EXC[name]
        return _Exc(o.__name__, {c.__name__ for c in o.__mro__ if c is not object}, o.__name__)


def _walk_fn(root: ast.AST) -> Iterator[ast.AST]:
    """Nodes of a function body, lambdas and comprehensions included, nested defs / classes not."""
    todo = list(ast.iter_child_nodes(root))
    while todo:
        n = todo.pop()
        if isinstance(n, FuncNode + (ast.ClassDef,)):
            continue
        yield n
        todo.extend(ast.iter_child_nodes(n))


def _bind_args(call: ast.Call, fn: ast.AST) -> Dict[str, ast.AST]:
    """Argument expression per parameter name of *fn* for *call* (positional and keyword; `self`/`cls` skipped)."""
    a = fn.args  # type: ignore[attr-defined]
    pos = [x.arg for x in a.posonlyargs + a.args]
    if pos and pos[0] in ("self", "cls") and (isinstance(call.func, ast.Attribute) or fn.name == "__init__"):  # type: ignore[attr-defined]
        pos = pos[1:]
    out: Dict[str, ast.AST] = {}
    for i, e in enumerate(call.args):
        if isinstance(e, ast.Starred):
            break
        if i < len(pos):
            out[pos[i]] = e
    for kw in call.keywords:
        if kw.arg is not None:
            out[kw.arg] = kw.value
    return out


class _Handle:
    """What is known about a name that stands for an open file or something that reads one lazily."""

    __slots__ = ("text", "origins")

    def __init__(self, text: bool, origins: Set[int]) -> None:
        self.text, self.origins = text, set(origins)

    def merged(self, other: Optional["_Handle"]) -> "_Handle":
        return self if other is None else _Handle(self.text or other.text, self.origins | other.origins)

    def same(self, other: Optional["_Handle"]) -> bool:
        return other is not None and self.text == other.text and self.origins == other.origins


class _Site:
    __slots__ = ("mod", "fn", "node", "classes", "origins", "kind", "path")

    def __init__(self, mod, fn, node, classes, origins, kind, path=None) -> None:
        self.mod, self.fn, self.node, self.classes, self.origins, self.kind, self.path = mod, fn, node, tuple(classes), set(origins), kind, path


class _ReadErrors:
    def __init__(self, repo: Repo, library_view: bool = True) -> None:
        self.repo = repo
        self.library_view = library_view
        self.root_mod = repo.module(RS)
        self.root = repo.func(RS, ERS)
        closure = repo.call_graph_closure([(self.root_mod, self.root)])
        self.funcs: Dict[int, Tuple[object, ast.AST]] = {fid: (m, n) for fid, (m, n, _p) in closure.items()}
        self.callers: Dict[int, List[Tuple[object, ast.AST, ast.Call]]] = {}
        self.targets: Dict[int, List[Tuple[object, ast.AST]]] = {}
        for m, f in self.funcs.values():
            for c in [n for n in _walk_fn(f) if isinstance(n, ast.Call)]:
                tg = [(tm, tn) for tm, tn in repo.resolve_call(m, c) if id(tn) in self.funcs]
                if tg:
                    self.targets[id(c)] = tg
                for _tm, tn in tg:
                    self.callers.setdefault(id(tn), []).append((m, f, c))
        self.env: Dict[int, Dict[str, _Handle]] = {fid: {} for fid in self.funcs}
        self.returns: Dict[int, _Handle] = {}
        self.sites: List[_Site] = []
        self._memo: Dict[Tuple[int, str], List[Tuple[str, _Exc, str, int]]] = {}
        self._busy: Set[Tuple[int, str]] = set()
        self._cfgs: Dict[int, CFG] = {}
        self._gate()
        self._handles()
        self._find_sites()

    # ---- exception classes ------------------------------------------------------------------
    def exc_of(self, mod, expr: ast.AST, ctx: ast.AST) -> Optional[_Exc]:
        r = self.repo.resolve_name(mod, expr, ctx) if isinstance(expr, (ast.Name, ast.Attribute)) else None
        if r is not None and isinstance(r[1], ast.ClassDef):
            cm, cls = r
            from ..engine import qualname_of

            supers: Set[str] = set()
            for m2, c2 in self.repo.mro(cm, cls):
                supers.add(f"{m2.rel}:{qualname_of(c2)}")
                for b in c2.bases:
                    if self.repo.resolve_name(m2, b, c2) is None:
                        bn = _last(dotted_name(b))
                        if bn in _BUILTIN_EXC:
                            supers |= _Exc.builtin(bn).supers
            return _Exc(f"{cm.rel}:{qualname_of(cls)}", supers, cls.name)
        d = dotted_name(expr)
        if d is None:
            return None
        head, _, rest = d.partition(".")
        target = mod.imports.get(head)
        if target is not None:
            full = f"{target}.{rest}" if rest else target
            if full.startswith("builtins.") and full[9:] in _BUILTIN_EXC:
                return _Exc.builtin(full[9:])
            base = _EXTERNAL_BASE.get(full, "Exception")
            return _Exc(full, set(_Exc.builtin(base).supers), full)
        if not rest and head in _BUILTIN_EXC and head not in mod.defs:
            return _Exc.builtin(head)
        return None

    def handler_types(self, mod, fn: ast.AST, t: Optional[ast.AST], depth: int = 0) -> List[_Exc]:
        if t is None:
            return [_Exc.builtin("BaseException")]
        if isinstance(t, ast.Tuple):
            return [x for e in t.elts for x in self.handler_types(mod, fn, e, depth)]
        e = self.exc_of(mod, t, fn)
        if e is not None:
            return [e]
        if isinstance(t, ast.Name) and depth < 3:
            vals = assigned_value(fn, t.id) or [st.value for st in mod.tree.body if isinstance(st, ast.Assign) and any(isinstance(x, ast.Name) and x.id == t.id for x in st.targets)]
            if len(vals) == 1:
                return self.handler_types(mod, fn, vals[0], depth + 1)
        raise AnalysisError(f"{getattr(fn, 'name', '?')}: the exception class of `except {_u(t)}` was not recognised (line {getattr(t, 'lineno', 0)})")

    # ---- the gate in the CLI ----------------------------------------------------------------
    def _gate(self) -> None:
        """Classes the CLI maps to an exit code around its call of expand_run_space (by role: the `except` clauses
        of the `try` statements whose body holds a call that resolves to expand_run_space, in the function holding
        the call or around its call sites), and the class that reports the cap (raised with the configured maximum)."""
        repo = self.repo
        cli = repo.module(CLI)
        self.gate: List[_Exc] = []
        self.gate_names: List[str] = []
        cli_funcs = [n for q, n in cli.defs.items() if isinstance(n, FuncNode)]

        def collect(node: ast.AST, fn: ast.AST, depth: int) -> None:
            child = node
            for a in ancestors(node):
                if a is fn:
                    break
                if isinstance(a, ast.Try) and any(child is st for st in a.body):
                    for h in a.handlers:
                        rets = [x for st in h.body for x in walk_no_nested(st) if isinstance(x, ast.Return)]
                        exits = [x for st in h.body for x in walk_no_nested(st) if isinstance(x, ast.Call) and call_name(x) in ("sys.exit", "exit", "SystemExit")]
                        ok_rets = [x for x in rets if x.value is not None and not (isinstance(x.value, ast.Constant) and x.value.value in (0, None)) and dotted_name(x.value) != "EXIT_SUCCESS"]
                        if (rets and len(ok_rets) == len(rets)) or exits:
                            for e in self.handler_types(cli, fn, h.type):
                                self.gate.append(e)
                                self.gate_names.append(e.label)
                child = a
            if depth < 3:
                for f2 in cli_funcs:
                    for c in calls_in(f2):
                        if any(tn is fn for _tm, tn in repo.resolve_call(cli, c)):
                            collect(c, f2, depth + 1)

        found = False
        for f in cli_funcs:
            for c in calls_in(f):
                if any(tn is self.root for _tm, tn in repo.resolve_call(cli, c)):
                    found = True
                    collect(c, f, 0)
        if not found:
            raise AnalysisError("cli: no call of expand_run_space found (the gate whose except clauses name the configuration error)")
        # the cap class by role: raised with the configured maximum
        self.cap_keys: Set[str] = set()
        for m, f in self.funcs.values():
            for n in _walk_fn(f):
                if isinstance(n, ast.Raise) and isinstance(n.exc, ast.Call) and any(isinstance(x, ast.Attribute) and x.attr == "max_runs" for x in ast.walk(n.exc)):
                    e = self.exc_of(m, n.exc.func, f)
                    if e is not None:
                        self.cap_keys.add(e.key)

    def mapped(self, e: _Exc) -> bool:
        """The gate maps *e* to its exit code.  In the library view (C08: what expand_run_space may raise) only the
        classes of the package that the gate names count - a catch-all in the CLI does not make OSError a documented
        error of the expansion; in the CLI view (C17) every class the gate catches counts."""
        gate = [g for g in self.gate if ":" in g.key] if self.library_view else self.gate
        return e.key not in self.cap_keys and any(g.key in e.supers for g in gate)

    # ---- handles ------------------------------------------------------------------------------
    def open_call(self, c: ast.AST) -> Optional[Tuple[Optional[ast.AST], bool]]:
        """(path expression, text mode?) when *c* opens a file."""
        if not (isinstance(c, ast.Call) and call_attr(c) == "open"):
            return None
        d = call_name(c) or ""
        if isinstance(c.func, ast.Name) or d.split(".")[0] in _OPEN_MODULES:
            path = c.args[0] if c.args else kwarg(c, "file")
            mode = c.args[1] if len(c.args) > 1 else kwarg(c, "mode")
        else:
            path = c.func.value  # type: ignore[union-attr]
            mode = c.args[0] if c.args else kwarg(c, "mode")
        binary = isinstance(mode, ast.Constant) and isinstance(mode.value, str) and "b" in mode.value
        return path, not binary

    def is_generator(self, fn: ast.AST) -> bool:
        return any(isinstance(n, (ast.Yield, ast.YieldFrom)) for n in _walk_fn(fn) if not isinstance(n, ast.Lambda))

    def producer(self, mod, fn: ast.AST, e: Optional[ast.AST]) -> Optional[_Handle]:
        """The file(s) *e* stands for when it is an open file or reads one lazily."""
        env = self.env[id(fn)]
        if e is None:
            return None
        if isinstance(e, ast.Name):
            return env.get(e.id)
        if isinstance(e, ast.NamedExpr):
            return self.producer(mod, fn, e.value)
        if isinstance(e, ast.IfExp):
            a, b = self.producer(mod, fn, e.body), self.producer(mod, fn, e.orelse)
            return a.merged(b) if a is not None else b
        if isinstance(e, ast.GeneratorExp):
            out = None
            for gen in e.generators:
                p = self.producer(mod, fn, gen.iter)
                if p is not None:
                    out = p.merged(out)
            return out
        if isinstance(e, ast.Call):
            oc = self.open_call(e)
            if oc is not None:
                return _Handle(oc[1], {id(e)})
            if call_attr(e) == "enter_context" and e.args:
                return self.producer(mod, fn, e.args[0])
            tg = self.targets.get(id(e))
            if tg:
                out = None
                for _tm, tn in tg:
                    r = self.returns.get(id(tn))
                    if r is not None:
                        out = _Handle(r.text, {id(e)}).merged(out)
                return out
            d = call_name(e) or ""
            if isinstance(e.func, ast.Attribute) and self.producer(mod, fn, e.func.value) is not None:
                return None  # a method of the handle itself: handle.read(), reader.fieldnames ... (data)
            if d in _EAGER_CALLS:
                return None
            out = None
            for x in list(e.args) + [kw.value for kw in e.keywords]:
                p = self.producer(mod, fn, x.value if isinstance(x, ast.Starred) else x)
                if p is not None:
                    out = p.merged(out)
            return out  # a lazy wrapper (csv.reader, map, zip ...) or an unknown callable given the handle
        return None

    def _handles(self) -> None:
        for _round in range(12):
            changed = False
            for fid, (m, f) in self.funcs.items():
                env = self.env[fid]

                def bind(name: str, h: Optional[_Handle]) -> None:
                    nonlocal changed
                    if h is None:
                        return
                    new = h.merged(env.get(name))
                    if not new.same(env.get(name)):
                        env[name] = new
                        changed = True

                for n in _walk_fn(f):
                    if isinstance(n, ast.Assign) and len(n.targets) == 1 and isinstance(n.targets[0], ast.Name):
                        bind(n.targets[0].id, self.producer(m, f, n.value))
                    elif isinstance(n, ast.AnnAssign) and isinstance(n.target, ast.Name):
                        bind(n.target.id, self.producer(m, f, n.value))
                    elif isinstance(n, ast.NamedExpr) and isinstance(n.target, ast.Name):
                        bind(n.target.id, self.producer(m, f, n.value))
                    elif isinstance(n, ast.withitem) and isinstance(n.optional_vars, ast.Name):
                        bind(n.optional_vars.id, self.producer(m, f, n.context_expr))
                    elif isinstance(n, ast.Call) and id(n) in self.targets:
                        for tm, tn in self.targets[id(n)]:
                            for pname, arg in _bind_args(n, tn).items():
                                h = self.producer(m, f, arg)
                                if h is not None:
                                    tenv = self.env[id(tn)]
                                    new = h.merged(tenv.get(pname))
                                    if not new.same(tenv.get(pname)):
                                        tenv[pname] = new
                                        changed = True
                # what the function hands back
                ret: Optional[_Handle] = None
                if self.is_generator(f):
                    needs = [s for s in self._local_sites(m, f)]
                    if needs:
                        ret = _Handle(any(DECODE_FAIL in s.classes for s in needs), {id(f)})
                else:
                    for n in _walk_fn(f):
                        if isinstance(n, ast.Return):
                            p = self.producer(m, f, n.value)
                            if p is not None:
                                ret = p.merged(ret)
                if ret is not None and not ret.same(self.returns.get(fid)):
                    self.returns[fid] = ret.merged(self.returns.get(fid))
                    changed = True
            if not changed:
                return
        raise AnalysisError("run-space source reading: the file handles did not stabilise")

    # ---- sites --------------------------------------------------------------------------------
    def _bound(self, n: ast.AST) -> bool:
        """The value of expression *n* is given a name / handed back (its reads then happen at the uses of the name)."""
        from ..engine import parent

        p = parent(n)
        if isinstance(p, ast.withitem) and p.context_expr is n:
            return True
        if isinstance(p, (ast.Assign, ast.AnnAssign, ast.NamedExpr)) and p.value is n:
            tgts = p.targets if isinstance(p, ast.Assign) else [p.target]
            if all(isinstance(t, ast.Name) for t in tgts):
                return True
            if self._is_producer(n):
                raise AnalysisError(f"an open file is stored into `{_u(tgts[0])}` (line {getattr(n, 'lineno', 0)}): its reads cannot be followed")
            return False
        if isinstance(p, ast.Return):
            return True
        if isinstance(p, ast.Call) and call_attr(p) == "enter_context":
            return self._bound(p)
        return False

    def _is_producer(self, n: ast.AST) -> bool:
        from ..engine import enclosing_function

        f = enclosing_function(n)
        while f is not None and id(f) not in self.funcs:
            f = enclosing_function(f)
        return f is not None and self.producer(self.funcs[id(f)][0], f, n) is not None

    def _local_sites(self, m, f: ast.AST) -> List[_Site]:
        from ..engine import parent

        env = self.env[id(f)]
        out: List[_Site] = []
        for n in _walk_fn(f):
            if isinstance(n, ast.Call):
                oc = self.open_call(n)
                if oc is not None:
                    out.append(_Site(m, f, n, [IO_FAIL], {id(n)}, "open", oc[0]))
                    if not self._bound(n):
                        out.append(_Site(m, f, n, [IO_FAIL] + ([DECODE_FAIL] if oc[1] else []), {id(n)}, "use"))
                    continue
                a = call_attr(n)
                if a == "read_text" and isinstance(n.func, ast.Attribute):
                    out.append(_Site(m, f, n, [IO_FAIL, DECODE_FAIL], {id(n)}, "read", n.func.value))
                    continue
                if a == "read_bytes" and isinstance(n.func, ast.Attribute):
                    out.append(_Site(m, f, n, [IO_FAIL], {id(n)}, "read", n.func.value))
                    continue
                if id(n) in self.targets and not self._bound(n):
                    h = self.producer(m, f, n)
                    if h is not None:
                        out.append(_Site(m, f, n, [IO_FAIL] + ([DECODE_FAIL] if h.text else []), h.origins, "use"))
            elif isinstance(n, ast.Name) and isinstance(n.ctx, ast.Load) and n.id in env:
                p = parent(n)
                if isinstance(p, (ast.List, ast.Tuple, ast.Set, ast.Dict, ast.Starred, ast.Yield)) or (isinstance(p, ast.Call) and call_attr(p) in _STORING_ATTRS and n in p.args):
                    raise AnalysisError(f"{getattr(f, 'name', '?')}: the open file `{n.id}` is put into a container / yielded (line {n.lineno}): its reads cannot be followed")
                if isinstance(p, (ast.Assign, ast.AnnAssign)) and p.value is n and not all(isinstance(t, ast.Name) for t in (p.targets if isinstance(p, ast.Assign) else [p.target])):
                    raise AnalysisError(f"{getattr(f, 'name', '?')}: the open file `{n.id}` is stored into an attribute / item (line {n.lineno}): its reads cannot be followed")
                if isinstance(p, (ast.Assign, ast.AnnAssign, ast.NamedExpr, ast.Return)) and p.value is n:
                    continue  # alias / handed back: nothing is read here
                if isinstance(p, ast.withitem) and p.context_expr is n:
                    continue
                h = env[n.id]
                out.append(_Site(m, f, n, [IO_FAIL] + ([DECODE_FAIL] if h.text else []), h.origins, "use"))
        return out

    def _find_sites(self) -> None:
        for m, f in self.funcs.values():
            self.sites.extend(self._local_sites(m, f))

    # ---- propagation --------------------------------------------------------------------------
    def _raised(self, m, f: ast.AST, r: ast.Raise, current: _Exc, handler: Optional[ast.ExceptHandler]) -> List[_Exc]:
        if r.exc is None:
            return [current]
        x = r.exc
        if isinstance(x, ast.Name) and handler is not None and handler.name == x.id:
            return [current]
        if isinstance(x, ast.Name):
            vals = [v for v in assigned_value(f, x.id)]
            out = [self._raised_value(m, f, v) for v in vals]
            if out and all(o is not None for o in out):
                return out  # type: ignore[return-value]
        e = self._raised_value(m, f, x)
        if e is None:
            raise AnalysisError(f"{getattr(f, 'name', '?')}: the class raised by `{norm(r)[:70]}` (line {r.lineno}) was not recognised")
        return [e]

    def _raised_value(self, m, f: ast.AST, x: ast.AST) -> Optional[_Exc]:
        if isinstance(x, ast.Call):
            e = self.exc_of(m, x.func, f)
            if e is not None:
                return e
            for tm, tn in self.repo.resolve_call(m, x):
                vals = [v for v in (n.value for n in _walk_fn(tn) if isinstance(n, ast.Return)) if v is not None]
                got = [self._raised_value(tm, tn, v) for v in vals]
                if got and all(g is not None and g.key == got[0].key for g in got):  # type: ignore[union-attr]
                    return got[0]
            return None
        return self.exc_of(m, x, f)

    def _flow(self, m, f: ast.AST, body: Sequence[ast.stmt], current: _Exc, handler: Optional[ast.ExceptHandler], depth: int = 0) -> Tuple[bool, List[Tuple[str, object]]]:
        """(may complete normally?, events) of a statement list; events: ('raise', (mod, fn, node, exc)) or
        ('swallow', (node, how))."""
        events: List[Tuple[str, object]] = []
        for st in body:
            falls = True
            if isinstance(st, ast.Raise):
                for e in self._raised(m, f, st, current, handler):
                    events.append(("raise", (m, f, st, e)))
                falls = False
            elif isinstance(st, (ast.Return, ast.Continue, ast.Break)):
                noreturn = None
                if isinstance(st, ast.Return) and isinstance(st.value, ast.Call):
                    noreturn = self._never_returns(m, f, st.value, current, depth)
                if noreturn is not None:
                    events.extend(noreturn)
                else:
                    events.append(("swallow", (st, {ast.Return: "returns", ast.Continue: "continues with the next item", ast.Break: "leaves the loop"}[type(st)])))
                falls = False
            elif isinstance(st, ast.If):
                f1, e1 = self._flow(m, f, st.body, current, handler, depth)
                f2, e2 = self._flow(m, f, st.orelse, current, handler, depth) if st.orelse else (True, [])
                events += e1 + e2
                falls = f1 or f2
            elif isinstance(st, (ast.With, ast.AsyncWith)):
                falls, e1 = self._flow(m, f, st.body, current, handler, depth)
                events += e1
            elif isinstance(st, (ast.For, ast.While, ast.AsyncFor)):
                _f1, e1 = self._flow(m, f, st.body, current, handler, depth)
                events += [ev for ev in e1 if not (ev[0] == "swallow" and isinstance(ev[1][0], (ast.Continue, ast.Break)))]  # type: ignore[index]
                falls = True
            elif isinstance(st, ast.Try):
                f1, e1 = self._flow(m, f, st.body + st.orelse, current, handler, depth)
                events += e1
                falls = f1
                for h in st.handlers:
                    fh, eh = self._flow(m, f, h.body, current, handler, depth)
                    events += eh
                    falls = falls or fh
                if st.finalbody:
                    ff, ef = self._flow(m, f, st.finalbody, current, handler, depth)
                    events += ef
                    falls = falls and ff
            elif isinstance(st, ast.Match):
                falls = True
                for case in st.cases:
                    _fc, ec = self._flow(m, f, case.body, current, handler, depth)
                    events += ec
            elif isinstance(st, ast.Expr) and isinstance(st.value, ast.Call):
                noreturn = self._never_returns(m, f, st.value, current, depth)
                if noreturn is not None:
                    events.extend(noreturn)
                    falls = False
                elif call_name(st.value) in ("sys.exit", "exit", "os._exit"):
                    events.append(("swallow", (st, "ends the process")))
                    falls = False
            if not falls:
                return False, events
        return True, events

    def _never_returns(self, m, f: ast.AST, c: ast.Call, current: _Exc, depth: int) -> Optional[List[Tuple[str, object]]]:
        """Events of calling a repo function that never completes normally (a raising helper), else None."""
        if depth > 3:
            return None
        tg = self.repo.resolve_call(m, c)
        if len(tg) != 1 or not isinstance(tg[0][1], FuncNode) or tg[0][1].name == "__init__":
            return None
        tm, tn = tg[0]
        falls, events = self._flow(tm, tn, tn.body, current, None, depth + 1)
        if falls or not events or any(k != "raise" for k, _ in events):
            return None
        # the helper's raises surface at this call
        return [("raise", (m, f, c, ev[3])) for _k, ev in events]  # type: ignore[index]

    def _match(self, exc: _Exc, t: _Exc) -> str:
        if t.key in exc.supers:
            return "full"
        if exc.key in t.supers:
            return "part"
        return ""

    def _check_fn(self, f: ast.AST) -> None:
        for d in getattr(f, "decorator_list", []):
            dn = dotted_name(d.func if isinstance(d, ast.Call) else d)
            if dn not in _TRANSPARENT_DECORATORS:
                raise AnalysisError(f"{f.name}: reads a run-space source under the decorator `{_u(d)}`, which may handle its exceptions")  # type: ignore[attr-defined]
        if isinstance(f, ast.AsyncFunctionDef):
            raise AnalysisError(f"{f.name}: asynchronous source reading is not modelled")

    def propagate(self, m, f: ast.AST, node: ast.AST, exc: _Exc, depth: int = 0) -> List[Tuple[str, _Exc, str, int]]:
        """Where the exception *exc* raised at *node* of *f* ends: ('escape', class, call chain, line) at the top of
        expand_run_space, ('swallow', class, description, line) in a handler that ends without raising."""
        key = (id(node), exc.key)
        if key in self._memo:
            return self._memo[key]
        if key in self._busy:
            return []
        if depth > 24:
            raise AnalysisError(f"{getattr(f, 'name', '?')}: the call chain above a source read is deeper than this analysis follows")
        self._busy.add(key)
        try:
            out = self._propagate(m, f, node, exc, depth)
        finally:
            self._busy.discard(key)
        self._memo[key] = out
        return out

    def _propagate(self, m, f: ast.AST, node: ast.AST, exc: _Exc, depth: int) -> List[Tuple[str, _Exc, str, int]]:
        self._check_fn(f)
        out: List[Tuple[str, _Exc, str, int]] = []
        live: List[_Exc] = [exc]
        child = node
        for a in ancestors(node):
            if a is f or not live:
                break
            if isinstance(a, FuncNode + (ast.ClassDef,)):
                raise AnalysisError(f"{getattr(f, 'name', '?')}: a source read sits in a nested definition that is not called by name (line {getattr(node, 'lineno', 0)})")
            if hasattr(ast, "TryStar") and isinstance(a, ast.TryStar):
                raise AnalysisError(f"{getattr(f, 'name', '?')}: `except*` around a source read is not modelled")
            if isinstance(a, (ast.With, ast.AsyncWith)) and any(child is st for st in a.body):
                for it in a.items:
                    ce = it.context_expr
                    if isinstance(ce, ast.Call) and call_attr(ce) == "suppress":
                        for t in [x for arg in ce.args for x in self.handler_types(m, f, arg)]:
                            nxt = []
                            for e in live:
                                k = self._match(e, t)
                                if k:
                                    out.append(("swallow", e if k == "full" else t, f"`with {_u(ce)}` in {f.name} suppresses it", a.lineno))  # type: ignore[attr-defined]
                                if k != "full":
                                    nxt.append(e)
                            live = nxt
            if isinstance(a, ast.Try) and any(child is st for st in a.body):
                for h in a.handlers:
                    types = self.handler_types(m, f, h.type)
                    nxt = []
                    for e in live:
                        kinds = [(self._match(e, t), t) for t in types]
                        full = any(k == "full" for k, _t in kinds)
                        caught = [e] if full else [t for k, t in kinds if k == "part"]
                        for ce_ in caught:
                            falls, events = self._flow(m, f, h.body, ce_, h)
                            if falls:
                                out.append(("swallow", ce_, f"`{norm(h)}` in {f.name} ends without raising", h.lineno))  # type: ignore[attr-defined]
                            for kind, ev in events:
                                if kind == "raise":
                                    em, ef, en, ee = ev  # type: ignore[misc]
                                    out.extend(self.propagate(em, ef, en, ee, depth + 1))
                                else:
                                    st, how = ev  # type: ignore[misc]
                                    out.append(("swallow", ce_, f"`{norm(h)}` in {f.name} {how} (`{norm(st)[:50]}`)", st.lineno))  # type: ignore[attr-defined]
                        if not full:
                            nxt.append(e)
                    live = nxt
                if live and a.finalbody:
                    for st in a.finalbody:
                        for x in walk_no_nested(st):
                            if isinstance(x, (ast.Return, ast.Break, ast.Continue)):
                                for e in live:
                                    out.append(("swallow", e, f"`finally: {norm(x)[:40]}` in {f.name} discards it", x.lineno))  # type: ignore[attr-defined]
                                live = []
                                break
                        if not live:
                            break
            child = a
        for e in live:
            out.extend(self._leave(m, f, e, depth))
        return out

    def _leave(self, m, f: ast.AST, exc: _Exc, depth: int) -> List[Tuple[str, _Exc, str, int]]:
        name = getattr(f, "name", "?")

        def via(ends: List[Tuple[str, _Exc, str, int]]) -> List[Tuple[str, _Exc, str, int]]:
            return [(k, e, f"{name} <- {w}" if k == "escape" and e.key == exc.key else w, ln) for k, e, w, ln in ends]

        if f is self.root:
            return [("escape", exc, name, getattr(f, "lineno", 0))]
        sites = self.callers.get(id(f), [])
        if not sites:
            raise AnalysisError(f"{name}: reads a run-space source but no call site of it was found in the call graph of {ERS}")
        out: List[Tuple[str, _Exc, str, int]] = []
        if self.is_generator(f):
            # the body runs while the result is consumed: the failure surfaces where the generator is used
            points = [s for s in self.sites if s.kind == "use" and any(id(c) in s.origins for _m, _f, c in sites)]
            for s in points:
                out.extend(via(self.propagate(s.mod, s.fn, s.node, exc, depth + 1)))
            return out
        for cm, cf, c in sites:
            out.extend(via(self.propagate(cm, cf, c, exc, depth + 1)))
        return out

    # ---- a second read of a file that was read before -------------------------------------------
    def reads_params(self) -> Dict[int, Set[str]]:
        memo: Dict[int, Set[str]] = {fid: set() for fid in self.funcs}
        for _round in range(8):
            changed = False
            for fid, (m, f) in self.funcs.items():
                params = {a.arg for a in f.args.posonlyargs + f.args.args + f.args.kwonlyargs}  # type: ignore[attr-defined]
                got = set()
                for s in self._local_sites(m, f):
                    if s.kind in ("open", "read") and isinstance(s.path, ast.Name) and s.path.id in params:
                        got.add(s.path.id)
                for n in _walk_fn(f):
                    if isinstance(n, ast.Call) and id(n) in self.targets:
                        for _tm, tn in self.targets[id(n)]:
                            for pname, arg in _bind_args(n, tn).items():
                                if pname in memo[id(tn)] and isinstance(arg, ast.Name) and arg.id in params:
                                    got.add(arg.id)
                if not got <= memo[fid]:
                    memo[fid] |= got
                    changed = True
            if not changed:
                break
        return memo

    def cfg(self, f: ast.AST) -> CFG:
        g = self._cfgs.get(id(f))
        if g is None:
            g = self._cfgs[id(f)] = CFG(f)
        return g

    def read_before(self, m, f: ast.AST, node: ast.AST, path: Optional[ast.AST], depth: int = 0) -> bool:
        """On every path to *node* the file named by *path* (a local name) has been opened / read completely
        by an earlier statement that finished normally, and the name was not rebound in between."""
        if not isinstance(path, ast.Name) or depth > 4:
            return False
        reads = self._reads
        g = self.cfg(f)
        here = stmt_of(node)
        here_ids = g.nodes_for(here)
        if not here_ids:
            return False
        # a statement that only calls a helper which never completes normally (it raises) ends its path
        dead = set()
        for n in g.nodes:
            if n.kind == "stmt" and isinstance(n.ast, ast.Expr) and isinstance(n.ast.value, ast.Call) and self._never_returns(m, f, n.ast.value, _Exc.builtin("Exception"), 0) is not None:
                dead |= {(n.id, lab) for _t, lab in g.succ[n.id] if lab not in ("EXC", "BASE")}
        prior: List[ast.AST] = []
        for s in self._local_sites(m, f):
            if s.kind in ("open", "read") and isinstance(s.path, ast.Name) and s.path.id == path.id and s.node is not node:
                prior.append(s.node)
        for n in _walk_fn(f):
            if isinstance(n, ast.Call) and id(n) in self.targets:
                for _tm, tn in self.targets[id(n)]:
                    for pname, arg in _bind_args(n, tn).items():
                        if pname in reads[id(tn)] and isinstance(arg, ast.Name) and arg.id == path.id and n is not node:
                            prior.append(n)
        for p in prior:
            st = stmt_of(p)
            if st is here:
                continue
            for sid in g.nodes_for(st):
                normal = {(sid, lab) for _t, lab in g.succ[sid] if lab not in ("EXC", "BASE")} | dead
                seen = g.reach([g.entry], blocked_edges=normal)
                if all(h not in seen for h in here_ids):
                    d1 = {d.id for d in reaching_defs(g, path.id, sid)}
                    d2 = {d.id for h in here_ids for d in reaching_defs(g, path.id, h)}
                    if d1 == d2:
                        return True
        params = {a.arg for a in f.args.posonlyargs + f.args.args + f.args.kwonlyargs}  # type: ignore[attr-defined]
        if path.id in params and f is not self.root and not any(isinstance(x, ast.Name) and isinstance(x.ctx, ast.Store) and x.id == path.id for x in _walk_fn(f)):
            sites = self.callers.get(id(f), [])
            return bool(sites) and all(self.read_before(cm, cf, c, _bind_args(c, f).get(path.id), depth + 1) for cm, cf, c in sites)
        return False

    # ---- verdicts -----------------------------------------------------------------------------
    def judge(self, R: Report, rule: str) -> None:
        from ..engine import qualname_of

        self._reads = self.reads_params()
        gate_txt = ", ".join(sorted({g.label for g in self.gate if ":" in g.key or not self.library_view})) or "nothing"
        exempt_origins: Set[int] = set()
        for s in self.sites:
            if s.kind == "open" and self.read_before(s.mod, s.fn, s.node, s.path):
                exempt_origins |= s.origins
        done: Set[Tuple[int, int, str, str]] = set()
        for s in sorted(self.sites, key=lambda s: (s.mod.rel, getattr(s.node, "lineno", 0), getattr(s.node, "col_offset", 0))):
            st = stmt_of(s.node)
            shown = norm(s.node if isinstance(s.node, ast.Call) else st)[:70]
            for k in s.classes:
                dk = (id(s.fn), id(st), k, shown)
                if dk in done:
                    continue
                done.add(dk)
                label = f"{k} while reading: `{shown}`"
                fq = qualname_of(s.fn)
                line = getattr(s.node, "lineno", 0)
                if k == IO_FAIL and s.origins and s.origins <= exempt_origins:
                    R.ok(rule, s.mod.rel, fq, label, "a second read of a file that an earlier statement has read completely on every path to this one (it can only fail if the file changes between the two reads)", line)
                    continue
                ends = self.propagate(s.mod, s.fn, s.node, _Exc.builtin(k))
                bad = [e for e in ends if e[0] == "swallow" or not self.mapped(e[1])]
                if not bad:
                    R.ok(rule, s.mod.rel, fq, label, "", line)
                    continue
                kind, e, where, bl = bad[0]
                if kind == "swallow":
                    what = f"a source file that {_FAIL_TEXT[k]} raises {k} here, and {where} (line {bl}): the source is lost silently - the run space is expanded without it instead of being rejected with the configuration error"
                elif e.key in self.cap_keys:
                    what = f"a source file that {_FAIL_TEXT[k]} raises {k} here, which is turned into the max-runs error {e.label}: that class reports an expansion beyond max_runs, not an unreadable source"
                else:
                    via = f"it leaves {ERS} as {e.label}" + (f" (raised at line {bl})" if e.key != k else f" unconverted ({where})")
                    what = f"a source file that {_FAIL_TEXT[k]} raises {k} here and {via}; the `except` clauses around the expand_run_space call in the CLI map only {gate_txt} to the configuration-error exit, so `semantiva run` ends in a traceback (exit 1) instead of the documented configuration-error code"
                R.violation(rule, s.mod.rel, fq, label, what, line)


def read_errors_rule(repo: Repo, R: Report, library_view: bool = True) -> None:
    """C08-D4-read-errors-converted (re-applied by C17 as C17-D2/..., there with the CLI view of the gate)."""
    rule = R.rule(
        "C08-D4-read-errors-converted",
        "every operation in the call graph of expand_run_space that reads a source file (open, read_text / read_bytes, every use of the open file or of a reader over it) lies - in its own function or around every call site - inside a `try` whose handlers turn both the I/O failure class (OSError) and the decoding failure class (UnicodeDecodeError) into a class that the `except` clauses around the CLI's expand_run_space call map to the configuration-error exit; no handler on the way ends without raising",
        4,
    )
    _ReadErrors(repo, library_view).judge(R, rule)


def run(repo: Repo, R: Report) -> None:
    _resolve_anchors(repo)
    mod = repo.module(RS)
    opts = dict(keep=KEEP, copyprop="all", loops=True)
    fn = canon_dicts(nfunc(repo, RS, ERS, **opts))
    ee = canon_dicts(nfunc(repo, RS, EE, **opts))
    ls = canon_dicts(nfunc(repo, RS, LPS, **opts))
    F, FE, FL = Flow(fn), Flow(ee), Flow(ls)
    spec = fn.args.args[0].arg
    ee_params = [a.arg for a in ee.args.args]
    ls_params = [a.arg for a in ls.args.args]
    if len(ee_params) < 2 or not ls_params:
        raise AnalysisError("run_space: _expand_entries(entries, mode) / _load_and_process_source(src, ..) signatures not recognised")
    R.assume(
        "itertools.product enumerates with the rightmost iterable varying fastest (stdlib contract)",
        "csv/json/yaml parsers return the file's rows in file order",
    )
    R.undecided("content of parsed source files and the exact values scalar coercion produces (only *which* converters file content can reach, and behind which spelling test, is decided); memory actually used (only *where* product-sized structures are built is decided)")

    def is_product(c: ast.AST) -> bool:
        return isinstance(c, ast.Call) and call_name(c) in ("itertools.product", "product")

    # ------------------------------------------------------------------ D1 ordering
    r_ord = R.rule("C08-D1-ordering", "keys inside a block are taken in sorted order (one definition feeding both modes), blocks in declaration order, products via itertools.product over them in that order; context varies slower than source inside a combinatorial block", 7)
    entries = ee_params[0]

    def sorted_keys(e: ast.AST, at: ast.AST) -> bool:
        """*e* is the plain sorted key list of the entries mapping."""
        vals = FE.values(e, at)
        return bool(vals) and all(
            isinstance(v, ast.Call) and isinstance(v.func, ast.Name) and v.func.id == "sorted" and not v.keywords and len(v.args) == 1 and _u(strip_keyset(v.args[0])) == entries
            for v, _s in vals
        )

    def value_lists(e: ast.AST, at: ast.AST) -> Optional[ast.AST]:
        """*e* is `[entries[k] for k in K]` (list / generator / tuple(...) of it): returns K."""
        ks = []
        for v, _s in FE.values(e, at):
            v = strip_keyset(v)
            m = match(f"[{entries}[_k_] for _k_ in _K_]", v) or match(f"({entries}[_k_] for _k_ in _K_)", v)
            if not m:
                m = match(f"map({entries}.get, _K_)", v) or match(f"map({entries}.__getitem__, _K_)", v)
            if not m:
                return None
            ks.append(m["_K_"])
        return ks[0] if ks and all(_u(k) == _u(ks[0]) for k in ks) else None

    key_orders: List[Tuple[ast.AST, ast.AST]] = []  # key iterables feeding the two expansions
    prods = [c for c in ast.walk(ee) if is_product(c)]
    ok = False
    if len(prods) == 1 and len(prods[0].args) == 1 and isinstance(prods[0].args[0], ast.Starred) and not prods[0].keywords:
        k = value_lists(prods[0].args[0].value, prods[0])
        if k is not None:
            ok = True
            key_orders.append((k, prods[0]))
    R.check(ok, r_ord, RS, EE, "itertools.product(*[entries[k] for k in keys])", "the product is not taken over the value lists in sorted-key order", prods[0].lineno if prods else ee.lineno)
    ok = False
    for cons, it, tgt, body in iterations(ee):
        if any(is_product(x) for v, _s in FE.values(it, cons) for x in [v]) and isinstance(tgt, ast.Name):
            for pat in (f"dict(zip(_K_, {tgt.id}))", f"{{_a_: _b_ for (_a_, _b_) in zip(_K_, {tgt.id})}}"):
                for node, m in found(body, pat):
                    ok = True
                    key_orders.append((m["_K_"], node))
    R.check(ok, r_ord, RS, EE, "dict(zip(keys, combo))", "product combinations are not paired with the sorted keys", ee.lineno)
    ok = False
    positional_sites: List[ast.AST] = []
    for cons, it, tgt, body in iterations(ee):
        if match("range(_N_)", it) and isinstance(tgt, ast.Name):
            for node, m in found(body, f"{{_k_: {entries}[_k_][{tgt.id}] for _k_ in _K_}}"):
                ok = True
                key_orders.append((m["_K_"], node))
                positional_sites.append(cons)
        m0 = match("zip(*_V_)", it)
        if m0 and isinstance(tgt, ast.Name):
            k = value_lists(m0["_V_"], cons)
            for node, m in found(body, f"dict(zip(_K_, {tgt.id}))"):
                if k is not None:
                    ok = True
                    key_orders.extend([(k, cons), (m["_K_"], node)])
                    positional_sites.append(cons)
    R.check(ok, r_ord, RS, EE, "[{k: entries[k][i] for k in keys} for i in range(size)]", "by_position does not align positions 0..size-1 over the sorted keys", ee.lineno)
    bad_keys = [(k, at) for k, at in key_orders if not sorted_keys(k, at)]
    R.check(bool(key_orders) and not bad_keys, r_ord, RS, EE, "keys = sorted(entries)", "keys are not iterated in plain sorted order (custom key function, reversed, or mapping order)", bad_keys[0][1].lineno if bad_keys else ee.lineno)

    # top level of expand_run_space: the list of per-block run lists, the loop filling it
    top = [c for c in ast.walk(fn) if is_product(c) and len(c.args) == 1 and isinstance(c.args[0], ast.Starred)]
    ALL = None
    if len(top) == 1 and isinstance(top[0].args[0].value, ast.Name):
        ALL = top[0].args[0].value.id
    R.check(ALL is not None, r_ord, RS, ERS, "itertools.product(*all_block_runs)", "top-level combination is not the product of the block run lists in declaration order", top[0].lineno if top else fn.lineno)

    # The list of per-block run lists is an *object*, not a name: the phases of the function may know it under
    # different locals (handed over as `a, b = (x, y)` once the phases are split into helpers, or simply aliased).
    # A local stands for the object created by the statements its reaching definitions lead back to through plain
    # copies of another local; in-place growth (`x += [..]`) keeps the object.
    _origin_memo: Dict[Tuple[str, int], FrozenSet[int]] = {}

    def origins(name: str, at: ast.AST, visited: Optional[Set[int]] = None) -> FrozenSet[int]:
        """ids of the statements creating the object the local *name* stands for in statement *at*."""
        try:
            key = (name, F.nid(at))
        except AnalysisError:
            return frozenset()
        if visited is None and key in _origin_memo:
            return _origin_memo[key]
        seen_defs = visited if visited is not None else set()
        out: Set[int] = set()
        for d in F.defs(name, at):
            st = d[-1]
            if id(st) in seen_defs:
                continue
            seen_defs.add(id(st))
            src: Optional[Tuple[str, ast.AST]] = None
            if d[0] == "val" and isinstance(d[1], ast.Name):
                src = (d[1].id, st)
            elif d[0] == "item":
                vs = F.values(d[1], st)
                if len(vs) == 1 and isinstance(vs[0][0], (ast.Tuple, ast.List)) and len(vs[0][0].elts) > d[2] and not any(isinstance(x, ast.Starred) for x in vs[0][0].elts) and isinstance(vs[0][0].elts[d[2]], ast.Name):
                    src = (vs[0][0].elts[d[2]].id, vs[0][1])
            elif d[0] == "aug" and isinstance(st.target, ast.Name) and isinstance(st.op, ast.Add):
                src = (name, st)  # grown in place: still the object that reached the statement
            if src is not None:
                out |= origins(src[0], src[1], seen_defs)
            else:
                out.add(id(st))
        res = frozenset(out)
        if visited is None:
            _origin_memo[key] = res
        return res

    ALL_OBJ = origins(ALL, top[0]) if ALL is not None else frozenset()

    def is_all(x: Optional[ast.AST], at: Optional[ast.AST] = None) -> bool:
        """*x* is a local that stands for the list of per-block run lists where it is used."""
        if not isinstance(x, ast.Name) or not ALL_OBJ:
            return False
        return origins(x.id, at if at is not None else stmt_of(x)) == ALL_OBJ

    def reads_all(e: ast.AST) -> bool:
        return any(is_all(x) for x in ast.walk(e) if isinstance(x, ast.Name) and isinstance(x.ctx, ast.Load))

    apps: List[Tuple[ast.AST, ast.AST]] = []  # (site, appended expression)
    for n in ast.walk(fn):
        if isinstance(n, ast.Call) and call_attr(n) == "append" and isinstance(n.func, ast.Attribute) and is_all(n.func.value) and len(n.args) == 1:
            apps.append((n, n.args[0]))
        if isinstance(n, ast.Call) and call_attr(n) == "extend" and isinstance(n.func, ast.Attribute) and is_all(n.func.value) and len(n.args) == 1 and isinstance(n.args[0], (ast.List, ast.Tuple)) and len(n.args[0].elts) == 1 and not isinstance(n.args[0].elts[0], ast.Starred):
            apps.append((n, n.args[0].elts[0]))
        if isinstance(n, ast.AugAssign) and isinstance(n.op, ast.Add) and is_all(n.target, n) and isinstance(n.value, (ast.List, ast.Tuple)) and len(n.value.elts) == 1 and not isinstance(n.value.elts[0], ast.Starred):
            apps.append((n, n.value.elts[0]))

    def block_loop_of(node: ast.AST) -> Optional[ast.For]:
        loops = [a for a in ancestors(node) if isinstance(a, ast.For)]
        return loops[-1] if loops else None  # outermost enclosing loop

    def declared_block(lp: ast.For) -> Optional[str]:
        """Source text of "the current block" when *lp* walks spec.blocks in declaration order, else None."""
        it2 = lp.iter
        m = match("enumerate(_B_)", it2) or match("enumerate(_B_, 0)", it2) or match("enumerate(_B_, start=0)", it2)
        tgt = lp.target
        if m:
            it2 = m["_B_"]
            tgt = tgt.elts[-1] if isinstance(tgt, ast.Tuple) and len(tgt.elts) == 2 else None
        while isinstance(it2, ast.Call) and isinstance(it2.func, ast.Name) and it2.func.id in ("list", "tuple", "iter") and len(it2.args) == 1 and not it2.keywords:
            it2 = it2.args[0]
        if _u(it2) == f"{spec}.blocks":
            return tgt.id if isinstance(tgt, ast.Name) else None
        if not m and _u(it2) == f"range(len({spec}.blocks))" and isinstance(tgt, ast.Name):
            sub = f"{spec}.blocks[{tgt.id}]"
            named = [st.targets[0].id for st in lp.body if isinstance(st, ast.Assign) and len(st.targets) == 1 and isinstance(st.targets[0], ast.Name) and _u(st.value) == sub]
            return named[0] if named else sub
        return None

    bl = block_loop_of(apps[0][0]) if len(apps) == 1 else None
    block_loops = [n for n in walk_no_nested(fn) if isinstance(n, ast.For) and f"{spec}.blocks" in _u(n.iter)]
    if bl is None and block_loops:
        bl = block_loops[0]
    ok = bl is not None and declared_block(bl) is not None and all(declared_block(n) is not None for n in block_loops)
    R.check(ok, r_ord, RS, ERS, norm(bl) if ok else "for block in spec.blocks", "blocks are not processed in declaration order", bl.lineno if bl is not None else fn.lineno)
    ok = len(apps) == 1 and bl is not None and block_loop_of(apps[0][0]) is bl
    BR = apps[0][1].id if ok and isinstance(apps[0][1], ast.Name) else "__missing__"
    R.check(ok, r_ord, RS, ERS, "all_block_runs.append(block_runs)", "block results are not collected in declaration order", apps[0][0].lineno if apps else fn.lineno)
    if bl is None:
        raise AnalysisError("expand_run_space: the loop over spec.blocks was not found")
    block = declared_block(bl)
    if not block:
        # the order is wrong (reported above); the loop variable is still needed to recognise the roles
        block = bl.target.elts[-1].id if isinstance(bl.target, ast.Tuple) and isinstance(bl.target.elts[-1], ast.Name) else getattr(bl.target, "id", None)
    if not block:
        raise AnalysisError("expand_run_space: block loop variable not recognised")
    in_bl = {id(x) for x in ast.walk(bl)}
    fn_nodes = {id(x) for x in ast.walk(fn)}

    # ---- provenance of a mapping inside the block loop: derived from block.context ('ctx'), from the
    # ---- columns returned by _load_and_process_source ('src'), or anything else ('other')
    def mutations_of(name: str) -> List[Tuple[ast.AST, Optional[ast.AST]]]:
        out = []
        for n in ast.walk(bl):
            if isinstance(n, ast.Call) and isinstance(n.func, ast.Attribute) and isinstance(n.func.value, ast.Name) and n.func.value.id == name:
                if n.func.attr == "update" and len(n.args) == 1 and not n.keywords:
                    out.append((n, n.args[0]))
                elif n.func.attr in ("setdefault", "pop", "popitem", "clear", "__setitem__", "add", "append", "extend", "update", "discard", "remove"):
                    out.append((n, None))
            if isinstance(n, ast.Subscript) and isinstance(n.ctx, (ast.Store, ast.Del)) and isinstance(n.value, ast.Name) and n.value.id == name:
                out.append((n, None))
        return out

    def prov(e: ast.AST, at: ast.AST, depth: int = 0, with_mut: bool = True) -> FrozenSet[str]:
        if depth > 8:
            return frozenset({"other"})
        e = strip_keyset(e)
        if _u(e) == f"{block}.context":
            return frozenset({"ctx"})
        if is_empty_container(e) or (isinstance(e, ast.Constant) and e.value is None):
            return frozenset()
        if isinstance(e, COMPS) and len(e.generators) == 1:
            return prov(e.generators[0].iter, at, depth + 1)
        if isinstance(e, ast.Call) and call_attr(e) == LPS:
            return frozenset({"src*"})
        if isinstance(e, ast.Subscript) and isinstance(e.slice, ast.Constant):
            p = prov(e.value, at, depth + 1)
            if p == frozenset({"src*"}):
                return frozenset({"src"}) if e.slice.value == 0 else frozenset({"meta"})
            return frozenset({"other"})
        if isinstance(e, ast.BinOp) and isinstance(e.op, ast.BitOr):
            return prov(e.left, at, depth + 1) | prov(e.right, at, depth + 1)
        if isinstance(e, ast.Call) and isinstance(e.func, ast.Attribute) and e.func.attr == "union" and e.args and not e.keywords and not any(isinstance(a, ast.Starred) for a in e.args):
            out = prov(e.func.value, at, depth + 1)
            for a in e.args:
                out |= prov(a, at, depth + 1)
            return out
        if isinstance(e, (ast.Set, ast.List, ast.Tuple)) and e.elts and all(isinstance(x, ast.Starred) for x in e.elts):
            out = frozenset()  # {*a, *b}: the keys of a and of b
            for x in e.elts:
                out |= prov(x.value, at, depth + 1)
            return out
        if isinstance(e, ast.IfExp):
            return prov(e.body, at, depth + 1) | prov(e.orelse, at, depth + 1)
        if isinstance(e, ast.Dict) and e.keys and all(k is None for k in e.keys):
            out: FrozenSet[str] = frozenset()
            for v in e.values:
                out |= prov(v, at, depth + 1)
            return out
        if isinstance(e, ast.Name):
            ds = F.defs(e.id, at)
            if not ds:
                return frozenset({"other"})
            out = frozenset()
            for d in ds:
                if d[0] == "val":
                    out |= prov(d[1], d[2], depth + 1)
                elif d[0] == "item":
                    p = prov(d[1], d[3], depth + 1)
                    if p == frozenset({"src*"}):
                        out |= frozenset({"src"}) if d[2] == 0 else frozenset({"meta"})
                    else:
                        got = False
                        for v, st in F.values(d[1], d[3]):
                            if isinstance(v, ast.Tuple) and len(v.elts) > d[2]:
                                out |= prov(v.elts[d[2]], st, depth + 1)
                                got = True
                        if not got:
                            out |= frozenset({"other"})
                elif d[0] == "aug" and isinstance(d[1].op, ast.BitOr):
                    out |= prov(d[1].value, d[1], depth + 1)
                else:
                    out |= frozenset({"other"})
            if with_mut:
                for site, arg in mutations_of(e.id):
                    out |= prov(arg, site, depth + 1) if arg is not None else frozenset({"other"})
            return out
        return frozenset({"other"})

    CTX, SRC = frozenset({"ctx"}), frozenset({"src"})
    exp_calls = [c for c in ast.walk(fn) if isinstance(c, ast.Call) and call_attr(c) == EE]
    ctx_exp: List[ast.Call] = []
    src_exp: List[ast.Call] = []
    unknown_exp = []
    for c in exp_calls:
        a0 = call_arg(c, 0, ee_params[0])
        p = prov(a0, c) if a0 is not None and id(c) in in_bl else frozenset({"other"})
        if p == CTX:
            ctx_exp.append(c)
        elif p == SRC:
            src_exp.append(c)
        elif p and p <= (CTX | SRC):
            R.violation(r_ord, RS, ERS, "each expansion takes the context mapping or the source mapping", "a mapping mixing inline context and source columns is expanded as one: source columns are sorted in among the inline keys instead of varying fastest", c.lineno)
        else:
            unknown_exp.append(c)
    if (unknown_exp or not ctx_exp or not src_exp) and not R.violations():
        raise AnalysisError("expand_run_space: per-block context/source entry mappings not recognised")

    def runs_side(e: ast.AST, at: ast.AST) -> FrozenSet[str]:
        """Which side's expansion (ctx / src) the run list *e* holds."""
        out = set()
        for v, _s in F.values(e, at):
            for x in ast.walk(v):
                if any(x is c for c in ctx_exp):
                    out.add("ctx")
                elif any(x is c for c in src_exp):
                    out.add("src")
        return frozenset(out)

    MODES = ("by_position", "combinatorial")

    def not_mode_atom(m: str):
        """Atom "the block's mode is not *m*"."""
        def consts(e: ast.AST) -> Optional[List[object]]:
            if isinstance(e, (ast.Tuple, ast.List, ast.Set)) and all(isinstance(x, ast.Constant) for x in e.elts):
                return [x.value for x in e.elts]
            return None

        def atom(e: ast.AST) -> Optional[bool]:
            if not (isinstance(e, ast.Compare) and len(e.ops) == 1):
                return None
            l, op, r = e.left, e.ops[0], e.comparators[0]
            if isinstance(l, ast.Constant) and isinstance(op, (ast.Eq, ast.NotEq)):
                l, r = r, l
            if _u(l) != f"{block}.mode":
                return None
            if isinstance(op, (ast.Eq, ast.NotEq)) and isinstance(r, ast.Constant):
                same = r.value == m
                if isinstance(op, ast.Eq):
                    return False if same else True
                return True if same else False  # `mode != other` false => mode == other => not m
            if isinstance(op, (ast.In, ast.NotIn)) and consts(r) is not None:
                inside = m in consts(r)
                if isinstance(op, ast.In):
                    return False if inside else True
                return True if inside else False
            return None
        return atom

    def block_mode_of(node: ast.AST) -> Optional[str]:
        """The one mode the block can have where *node* runs (decided from the branches that lead there)."""
        possible = []
        for m in MODES:
            edges = []
            for n in F.g.nodes:
                if n.kind == "if" and n.part is not None:
                    edges.extend((n.id, e) for e in F.edges(n.part, not_mode_atom(m)))
            if not F.dominated([F.nid(node)], edges)[0]:
                possible.append(m)
        return possible[0] if len(possible) == 1 else None

    # context outer / source inner
    pairs: List[Tuple[ast.AST, ast.AST, ast.AST]] = []  # (site, outer iterable, inner iterable)
    its = [(cons, it) for cons, it, _t, _b in iterations(bl)]
    for cons, it in its:
        for cons2, it2 in its:
            if cons is cons2:
                if isinstance(cons, COMPS):
                    gens = [g.iter for g in cons.generators]
                    if any(g is it for g in gens) and any(g is it2 for g in gens) and [i for i, g in enumerate(gens) if g is it][0] < [i for i, g in enumerate(gens) if g is it2][0]:
                        pairs.append((cons, it, it2))
            elif any(a is cons for a in ancestors(cons2)) and not (isinstance(cons, COMPS) and not isinstance(cons2, ast.For) and False):
                pairs.append((cons, it, it2))
    for c in ast.walk(bl):
        if is_product(c) and len(c.args) == 2 and not any(isinstance(a, ast.Starred) for a in c.args):
            pairs.append((c, c.args[0], c.args[1]))
    cs: List[Tuple[ast.AST, bool]] = []
    for site, o, i in pairs:
        so, si = runs_side(o, site), runs_side(i, site)
        if so and si and (so | si) == (CTX | SRC) and len(so) == 1 and len(si) == 1:
            cs.append((site, so == CTX and si == SRC))
    ok = len(cs) >= 1 and all(good for _s, good in cs)
    bad_site = next((s for s, good in cs if not good), None)
    R.check(ok, r_ord, RS, ERS, "block combination: context outer, source inner", "inside a combinatorial block the source no longer varies fastest (or context/source are not combined pairwise)", (bad_site or (cs[0][0] if cs else fn)).lineno)
    # index-aligned combine over all blocks
    ok = False
    for cons, it, tgt, body in iterations(fn):
        if id(cons) in in_bl:
            continue
        if match("range(_T_)", it) and isinstance(tgt, ast.Name):
            inner = [1 for c2, it2, t2, b2 in iterations(cons) if is_all(it2) and isinstance(t2, ast.Name) and (found(b2, f"{t2.id}[{tgt.id}]") or (c2 is cons and found(body, f"{t2.id}[{tgt.id}]")))]
            if inner or found(body, f"_r_[{tgt.id}]") and any(reads_all(b) for b in body):
                ok = True
        mz = match("zip(*_A_)", it)
        if mz and is_all(mz["_A_"]):
            ok = True
    R.check(ok, r_ord, RS, ERS, "combine=by_position: merge runs[idx] of every block for idx in range(total)", "combine=by_position does not merge aligned positions of all blocks", fn.lineno)

    # ------------------------------------------------------------------ D2 guards
    r_g = R.rule("C08-D2-rejection-guards", "duplicate keys (within a block, across blocks, after rename), missing selected columns and mismatched lengths (key, context-vs-source, block level) are each tested by a guard that raises the configuration error and dominates the merge it protects; the neutral [{}] stands in only for an absent side", 9)

    def lens_collections(flow: Flow, e: ast.AST, at: ast.AST) -> Optional[List[ast.AST]]:
        """*e* is a collection of len()s: the comprehension(s) / map(len, ..) it stands for, else None."""
        out = []
        for v, _s in flow.values(e, at):
            while isinstance(v, ast.Call) and isinstance(v.func, ast.Name) and v.func.id in ("list", "tuple", "set", "sorted", "frozenset") and len(v.args) == 1 and not v.keywords:
                v = v.args[0]
            if isinstance(v, (ast.ListComp, ast.SetComp, ast.GeneratorExp)) and match("len(_e_)", v.elt):
                out.append(v)
            elif match("map(len, _X_)", v):
                out.append(v)
            else:
                return None
        return out or None

    def equal_atom(flow: Flow, accept: Callable[[List[ast.AST], ast.AST], bool]):
        """Atom "all the lengths are equal (vacuously so when there are none)"."""
        def atom(e: ast.AST) -> Optional[bool]:
            at = stmt_of(e)
            cc = count_cmp(e)
            if cc and cc[1] in ("many", "atmost1"):
                cols: Optional[List[ast.AST]] = []
                for s, st in flow.values(cc[0], at):
                    if isinstance(s, ast.Call) and isinstance(s.func, ast.Name) and s.func.id in ("set", "frozenset") and len(s.args) == 1:
                        c = lens_collections(flow, s.args[0], st)
                    elif isinstance(s, ast.SetComp):
                        c = lens_collections(flow, s, st)
                    else:
                        c = None
                    if c is None:
                        cols = None
                        break
                    cols.extend(c)
                if cols and accept(cols, at):
                    return cc[1] == "atmost1"
            p = cmp_parts(e)
            if p and p[1] in (ast.Eq, ast.NotEq):
                l, op, r = p
                ml, mr = match("min(_X_)", l) or match("max(_X_)", l), match("max(_X_)", r) or match("min(_X_)", r)
                if ml and mr and _u(ml["_X_"]) == _u(mr["_X_"]) and _u(l) != _u(r):
                    c = lens_collections(flow, ml["_X_"], at)
                    if c and accept(c, at):
                        return op is ast.Eq
                if match("len(_A_)", l) and match("len(_B_)", r) and accept([l, r], at):
                    return op is ast.Eq
            for pat, pol in (("any((_a_ != _X_[0] for _a_ in _X_))", False), ("all((_a_ == _X_[0] for _a_ in _X_))", True)):
                m = match(pat, e)
                if m:
                    c = lens_collections(flow, m["_X_"], at)
                    if c and accept(c, at):
                        return pol
            subject, pol = emptiness_test(e, flow, at) or (e, False)
            if isinstance(subject, ast.Name):
                c = lens_collections(flow, subject, at)
                if c and accept(c, at):
                    return pol  # no lengths at all => nothing differs
            return None
        return atom

    # key level: lengths of entries[k] over the keys
    def reads_entries(c: ast.AST, at: ast.AST) -> bool:
        """the lengths in *c* are those of the value lists of the entries mapping (directly or via a local)"""
        if entries in names_in(c):
            return True
        return any(entries in names_in(v) for x in ast.walk(c) if isinstance(x, ast.Name) and isinstance(x.ctx, ast.Load) for v, _s in FE.values(x, at) if v is not x)

    at_ee = equal_atom(FE, lambda cols, at: all(reads_entries(c, at) for c in cols))
    g_ee = FE.rejecting(at_ee)
    R.check(bool(g_ee), r_g, RS, EE, "by_position: unequal list lengths raise", "the equal-length guard of positional expansion is missing or no longer raises the configuration error", ee.lineno)

    def reads_runs(cols: List[ast.AST], at: ast.AST) -> bool:
        """the lengths are those of the block's context / source run lists"""
        for c in cols:
            if match("len(_A_)", c):
                if not runs_side(c.args[0], at):
                    return False
                continue
            if id(c) not in in_bl:
                return False
        return True

    blk_compared: List[Tuple[List[ast.AST], ast.AST]] = []  # the length collections the block-level guards compare

    def accept_blk(cols: List[ast.AST], at: ast.AST) -> bool:
        good = id(at) in in_bl and reads_runs(cols, at)
        if good and not any(all(a is b for a, b in zip(cols, seen)) and len(cols) == len(seen) for seen, _a in blk_compared):
            blk_compared.append((list(cols), at))
        return good

    def side_values(x: ast.AST, at: ast.AST) -> Tuple[FrozenSet[str], Optional[Set[str]]]:
        """For a run list of the block: (side(s) whose expansion it holds, source texts of the values that stand
        for "this side was not expanded" - None when such a value is not a plain constant / name)."""
        side: Set[str] = set()
        alts: Optional[Set[str]] = set()
        todo = [v for v, _s in F.values(x, at)]
        while todo:
            v = todo.pop()
            if isinstance(v, ast.IfExp):
                todo.extend([v.body, v.orelse])
                continue
            hit = False
            for y in ast.walk(v):
                if any(y is c for c in ctx_exp):
                    side.add("ctx")
                    hit = True
                elif any(y is c for c in src_exp):
                    side.add("src")
                    hit = True
            if not hit:
                if isinstance(v, (ast.Constant, ast.Name, ast.Attribute)) and v is not x:
                    if alts is not None:
                        alts.add(_u(v))
                else:
                    alts = None
        return frozenset(side), alts

    def absent_atom(var: str, alts: Set[str]):
        """Atom "the element *var* stands for is the value used for a side that was not expanded"."""
        def atom(e: ast.AST) -> Optional[bool]:
            if isinstance(e, ast.Compare) and len(e.ops) == 1 and isinstance(e.ops[0], (ast.Is, ast.IsNot, ast.Eq, ast.NotEq)):
                l, r = e.left, e.comparators[0]
                if not (isinstance(l, ast.Name) and l.id == var):
                    l, r = r, l
                if isinstance(l, ast.Name) and l.id == var and _u(r) in alts:
                    return isinstance(e.ops[0], (ast.Is, ast.Eq))
            if alts == {"None"} and isinstance(e, ast.Call) and isinstance(e.func, ast.Name) and e.func.id == "isinstance" and len(e.args) == 2 and isinstance(e.args[0], ast.Name) and e.args[0].id == var:
                return False
            return None
        return atom

    def presence_test(e: ast.AST, at: ast.AST) -> bool:
        """`X is not None` on a run list of the block whose not-expanded value is None."""
        if isinstance(e, ast.Compare) and len(e.ops) == 1 and isinstance(e.ops[0], (ast.IsNot, ast.NotEq)):
            l, r = e.left, e.comparators[0]
            if not isinstance(l, ast.Name):
                l, r = r, l
            if isinstance(l, ast.Name):
                side, alts = side_values(l, at)
                return bool(side) and bool(alts) and _u(r) in alts
        return False

    at_blk0 = equal_atom(F, accept_blk)

    def at_blk(e: ast.AST) -> Optional[bool]:
        r = at_blk0(e)
        if r is None and isinstance(e, ast.BoolOp) and isinstance(e.op, ast.And):
            # `A is not None and B is not None and len(A) != len(B)`: false when a side is absent (nothing to
            # compare) or the counts agree
            differ = [v for v in e.values if at_blk0(v) is False]
            rest = [v for v in e.values if not any(v is d for d in differ)]
            if differ and rest and all(presence_test(v, stmt_of(e)) for v in rest):
                return False
        return r

    at_all = equal_atom(F, lambda cols, at: id(at) not in in_bl and all(reads_all(c) for c in cols))
    g_blk = [(n, e) for n, e in F.rejecting(at_blk)]
    g_all = [(n, e) for n, e in F.rejecting(at_all)]
    R.check(bool(g_blk), r_g, RS, ERS, "block: context vs source run counts must match", "the context-vs-source size guard of a by_position block is missing or no longer raises", fn.lineno)
    R.check(bool(g_all), r_g, RS, ERS, "combine=by_position: block sizes must match", "the block-size guard of combine=by_position is missing or no longer raises", fn.lineno)

    # the block-level comparison covers every side that was expanded: a side is left out only when it is absent
    r_sides = R.rule("C08-D2-sides-compared", "in a by_position block the run-count comparison between inline context and source covers every side that was expanded: a side is left out of the compared lengths only when it is absent (no entries: the value standing for 'not expanded'), never because its expansion is empty - a declared key with an empty value list / a header-only file is a 0-run side, and 0 against n is a length mismatch", 1)

    def run_lists(e: ast.AST, at: ast.AST, filters: Tuple = (), depth: int = 0) -> Optional[List[Tuple[ast.AST, ast.AST, Tuple]]]:
        """The run lists held by the collection *e* (a display, a filtering comprehension / filter() over one, a local
        naming one, a list grown by guarded appends): (element, statement, filters ((condition, name the condition
        uses for the element), ..) the element has to pass to stay in the collection); None for an unknown shape."""
        if depth > 6:
            return None
        while isinstance(e, ast.Call) and isinstance(e.func, ast.Name) and e.func.id in ("list", "tuple", "iter") and len(e.args) == 1 and not e.keywords:
            e = e.args[0]
        if isinstance(e, (ast.Tuple, ast.List)):
            if any(isinstance(x, ast.Starred) for x in e.elts):
                return None
            return [(x, at, tuple(filters)) for x in e.elts]
        if isinstance(e, (ast.ListComp, ast.GeneratorExp)) and len(e.generators) == 1 and isinstance(e.generators[0].target, ast.Name) and isinstance(e.elt, ast.Name) and e.elt.id == e.generators[0].target.id:
            gen = e.generators[0]
            return run_lists(gen.iter, at, tuple(filters) + tuple((c, gen.target.id) for c in gen.ifs), depth + 1)
        if isinstance(e, ast.Call) and isinstance(e.func, ast.Name) and e.func.id == "filter" and len(e.args) == 2 and not e.keywords:
            f0 = e.args[0]
            if isinstance(f0, ast.Constant) and f0.value is None:
                return run_lists(e.args[1], at, tuple(filters) + ((ast.Name(id="_element_", ctx=ast.Load()), "_element_"),), depth + 1)
            if isinstance(f0, ast.Lambda) and len(f0.args.args) == 1:
                return run_lists(e.args[1], at, tuple(filters) + ((f0.body, f0.args.args[0].arg),), depth + 1)
            return None
        if isinstance(e, ast.Name):
            vals = [(v, st) for v, st in F.values(e, at) if v is not e]
            if not vals:
                return None
            out: List[Tuple[ast.AST, ast.AST, Tuple]] = []
            if mutated_in(bl, e.id):
                # parts = []; if <cond>: parts.append(side_runs)
                if not all(isinstance(v, ast.List) and not v.elts for v, _s in vals):
                    return None
                for n in ast.walk(bl):
                    if isinstance(n, ast.Call) and isinstance(n.func, ast.Attribute) and isinstance(n.func.value, ast.Name) and n.func.value.id == e.id:
                        if not (n.func.attr == "append" and len(n.args) == 1 and isinstance(n.args[0], ast.Name) and isinstance(parent(n), ast.Expr)):
                            return None
                        st = parent(n)
                        conds: List[Tuple[ast.AST, str]] = []
                        child: ast.AST = st
                        for a in ancestors(st):
                            if a is bl or any(y is at for y in ast.walk(a)):
                                break  # a branch around both the growth and the use of the list filters nothing
                            if isinstance(a, ast.If):
                                conds.append((a.test if any(child is b for b in a.body) else ast.UnaryOp(op=ast.Not(), operand=a.test), n.args[0].id))
                            elif not isinstance(a, ast.stmt) or isinstance(a, (ast.For, ast.While, ast.Try, ast.With)):
                                return None
                            child = a
                        out.append((n.args[0], st, tuple(filters) + tuple(conds)))
                for n in ast.walk(bl):
                    if isinstance(n, ast.AugAssign) and isinstance(n.target, ast.Name) and n.target.id == e.id:
                        return None
                    if isinstance(n, ast.Subscript) and isinstance(n.ctx, (ast.Store, ast.Del)) and isinstance(n.value, ast.Name) and n.value.id == e.id:
                        return None
                return out
            for v, st in vals:
                r = run_lists(v, st, filters, depth + 1)
                if r is None:
                    return None
                out.extend(r)
            return out
        return None

    sides_seen: Set[str] = set()
    judged = False
    for cols, at in blk_compared:
        elements: Optional[List[Tuple[ast.AST, ast.AST, Tuple]]] = []
        for c in cols:
            got: Optional[List[Tuple[ast.AST, ast.AST, Tuple]]] = None
            m_len = match("len(_A_)", c)
            if m_len:
                got = [(m_len["_A_"], at, ())]
            elif isinstance(c, (ast.ListComp, ast.SetComp, ast.GeneratorExp)) and len(c.generators) == 1 and isinstance(c.generators[0].target, ast.Name) and match(f"len({c.generators[0].target.id})", c.elt):
                gen = c.generators[0]
                got = run_lists(gen.iter, at, tuple((t, gen.target.id) for t in gen.ifs))
            elif match("map(len, _X_)", c):
                got = run_lists(c.args[1], at)
            if got is None:
                elements = None
                break
            elements.extend(got)
        if elements is None:
            continue
        for x, x_at, filters in elements:
            side, alts = side_values(x, x_at)
            if len(side) != 1:
                continue
            judged = True
            sides_seen |= side
            if not alts:
                continue  # no value of its own for "not expanded": nothing a filter could single out
            which = "inline context" if side == CTX else "source"
            for cond, var in filters:
                keeps_every_expansion = "F" in edges_guaranteeing(cond, absent_atom(var, alts))
                R.check(keeps_every_expansion, r_sides, RS, ERS, f"{which} run list enters the block's run-count comparison unless it is absent", f"the {which} run list is left out of the context-vs-source run-count comparison by the filter `{_u(cond)[:60]}`, which also drops an *empty expansion* (a declared key with an empty value list, a header-only file), not only an absent side: 0 runs against n is no longer rejected as mismatched lengths and the block's runs lack the dropped side's keys", getattr(cond, "lineno", x_at.lineno))
            if not filters:
                R.ok(r_sides, RS, ERS, f"{which} run list enters the block's run-count comparison unless it is absent")
    if judged:
        missing_sides = {"ctx", "src"} - sides_seen
        R.check(not missing_sides, r_sides, RS, ERS, "both sides of a by_position block are compared", "the run-count comparison of a by_position block leaves out the " + " and the ".join("inline context" if s == "ctx" else "source" for s in sorted(missing_sides)) + " run list: a context/source length mismatch is no longer rejected", blk_compared[0][1].lineno)

    # duplicate keys
    def overlap_operands(flow: Flow, e: ast.AST, at: ast.AST) -> List[Tuple[ast.AST, ast.AST, ast.AST]]:
        """(A, B, statement) when *e* stands for the keys common to A and B."""
        out = []
        for v, st in flow.values(e, at):
            while isinstance(v, ast.Call) and isinstance(v.func, ast.Name) and v.func.id in ("list", "tuple", "set", "sorted", "frozenset") and len(v.args) == 1 and not v.keywords:
                v = v.args[0]
            if isinstance(v, ast.Call) and isinstance(v.func, ast.Attribute) and v.func.attr == "intersection" and len(v.args) == 1:
                out.append((v.func.value, v.args[0], st))
            elif isinstance(v, ast.BinOp) and isinstance(v.op, ast.BitAnd):
                out.append((v.left, v.right, st))
            elif isinstance(v, (ast.ListComp, ast.SetComp, ast.GeneratorExp)) and len(v.generators) == 1 and len(v.generators[0].ifs) == 1 and isinstance(v.generators[0].target, ast.Name) and _u(v.elt) == v.generators[0].target.id:
                m = match(f"{v.generators[0].target.id} in _B_", v.generators[0].ifs[0])
                if not m:
                    return []
                out.append((v.generators[0].iter, m["_B_"], st))
            else:
                return []
        return out

    def disjoint_atom(accept: Callable[[ast.AST, ast.AST, ast.AST], bool]):
        def atom(e: ast.AST) -> Optional[bool]:
            at = stmt_of(e)
            if isinstance(e, ast.Call) and isinstance(e.func, ast.Attribute) and e.func.attr == "isdisjoint" and len(e.args) == 1:
                return True if accept(e.func.value, e.args[0], at) else None
            subject, pol = emptiness_test(e, F, at) or (e, False)
            if not isinstance(subject, (ast.Name, ast.Call, ast.BinOp, ast.ListComp, ast.SetComp)):
                return None
            ops = overlap_operands(F, subject, at)
            if ops and all(accept(a, b, st) for a, b, st in ops):
                return pol
            return None
        return atom

    def is_within(a: ast.AST, b: ast.AST, at: ast.AST) -> bool:
        return {prov(a, at), prov(b, at)} == {CTX, SRC}

    def accumulator(e: ast.AST) -> Optional[List[Tuple[ast.AST, ast.AST]]]:
        """*e* names a set created empty before the block loop and only grown inside it: the growth sites."""
        e = strip_keyset(e)
        if not isinstance(e, ast.Name):
            return None
        plain = [n for n in walk_no_nested(fn) if isinstance(n, (ast.Assign, ast.AnnAssign)) and any(isinstance(t, ast.Name) and t.id == e.id for t in (n.targets if isinstance(n, ast.Assign) else [n.target]))]
        grow: List[Tuple[ast.AST, ast.AST]] = []
        for n in ast.walk(bl):
            if isinstance(n, ast.Call) and isinstance(n.func, ast.Attribute) and n.func.attr == "update" and dotted_name(n.func.value) == e.id and len(n.args) == 1:
                grow.append((n, n.args[0]))
            if isinstance(n, ast.AugAssign) and isinstance(n.op, ast.BitOr) and dotted_name(n.target) == e.id:
                grow.append((n, n.value))
            if isinstance(n, ast.For) and n is not bl and isinstance(n.target, ast.Name) and not n.orelse:
                # for k in X: seen.add(k)  ==  seen.update(X), when every element reaches the add
                adds = [st for st in n.body if isinstance(st, ast.Expr) and isinstance(st.value, ast.Call) and isinstance(st.value.func, ast.Attribute) and st.value.func.attr == "add" and dotted_name(st.value.func.value) == e.id and len(st.value.args) == 1 and _u(st.value.args[0]) == n.target.id]
                early = any(isinstance(x, (ast.Continue, ast.Break, ast.Return)) for st in n.body[: n.body.index(adds[0])] for x in ast.walk(st)) if adds else True
                rebound = any(isinstance(x, ast.Name) and x.id == n.target.id and isinstance(x.ctx, ast.Store) for st in n.body for x in ast.walk(st))
                if adds and not early and not rebound:
                    grow.append((n, n.iter))
        inside = [n for n in plain if id(n) in in_bl]
        for n in inside:
            m = match(f"{e.id} = {e.id} | _X_", n) or match(f"{e.id} = {e.id}.union(_X_)", n)
            if not m:
                return None
            grow.append((n, m["_X_"]))
        outside = [n for n in plain if id(n) not in in_bl]
        if not outside or not all(n.value is not None and is_empty_container(n.value) for n in outside):
            return None
        return grow or None

    across_grow: List[ast.AST] = []  # where the keys of the current block are remembered for the later blocks

    def is_across(a: ast.AST, b: ast.AST, at: ast.AST) -> bool:
        for seen, cur in ((a, b), (b, a)):
            grow = accumulator(seen)
            if grow and accumulator(cur) is None and prov(cur, at) == (CTX | SRC) and all(prov(x, site) == (CTX | SRC) for site, x in grow):
                across_grow.extend(site for site, _x in grow if not any(site is s for s in across_grow))
                return True
        return False

    g_within = [(n, e) for n, e in F.rejecting(disjoint_atom(is_within)) if F.g.nodes[n].ast is not None and id(F.g.nodes[n].ast) in in_bl]
    g_across = [(n, e) for n, e in F.rejecting(disjoint_atom(is_across)) if F.g.nodes[n].ast is not None and id(F.g.nodes[n].ast) in in_bl]
    R.check(bool(g_within), r_g, RS, ERS, "duplicate keys within a block (context ∩ source) raise", "a key present both inline and in the block's source is no longer rejected", fn.lineno)
    R.check(bool(g_across), r_g, RS, ERS, "duplicate keys across blocks (seen ∩ current) raise; seen.update(current)", "a key declared in two blocks is no longer rejected (or keys are not all remembered)", fn.lineno)

    # rename collision: every store into the renamed mapping is preceded by `target not in renamed`
    src_p = ls_params[0]
    rename_stores: List[Tuple[ast.For, ast.stmt, str, ast.AST]] = []  # (loop, store, mapping name, key expr)
    for lp in [n for n in walk_no_nested(ls) if isinstance(n, ast.For)]:
        stores = list(keyed_stores(lp))  # however the store is spelled (item store, update, spread, ...)
        renamed_maps = {m for s, m, k in stores if any(f"{src_p}.rename" in _u(v) for v, _st in FL.values(k, s))}
        # ... or the key is the loop variable of a walk over the rename entries themselves (`for old, new in src.rename.items()`)
        renamed_maps |= {m for s, m, k in stores if isinstance(k, ast.Name) and any(d[0] == "iter" and f"{src_p}.rename" in _u(d[1].iter) for d in FL.defs(k.id, s))}
        for s, m, k in stores:
            if m in renamed_maps:
                rename_stores.append((lp, s, m, k))

    def free_atom(mapping: str, key: ast.AST, at_store: ast.AST):
        keys = {_u(key)} | {_u(v) for v, _s in FL.values(key, at_store)}
        def atom(e: ast.AST) -> Optional[bool]:
            p = e if isinstance(e, ast.Compare) and len(e.ops) == 1 else None
            if p is None or not isinstance(p.ops[0], (ast.In, ast.NotIn)):
                return None
            if _u(strip_keyset(p.comparators[0])) != mapping:
                return None
            tested = {_u(p.left)} | {_u(v) for v, _s in FL.values(p.left, stmt_of(e))}
            if not (tested & keys):
                return None
            return isinstance(p.ops[0], ast.NotIn)
        return atom

    any_guard = False
    unguarded: List[ast.AST] = []
    for lp, s, mapping, key in rename_stores:
        gs = FL.rejecting(free_atom(mapping, key, s))
        if gs:
            any_guard = True
        if not gs or not FL.dominated([FL.nid(s)], gs)[0]:
            unguarded.append(s)
    R.check(any_guard, r_g, RS, LPS, "rename collision: target already present raises", "two columns renamed onto the same key (or onto an existing one) are no longer rejected", ls.lineno)
    if any_guard:
        R.check(not unguarded, r_g, RS, LPS, "every column passes the collision test", "some columns skip the rename-collision test (a rename onto an un-renamed column is accepted and silently drops data)", unguarded[0].lineno if unguarded else rename_stores[0][0].lineno)

    # select: every selected key that is not a column is rejected
    select = f"{src_p}.select"

    def is_columns(e: ast.AST, at: ast.AST, depth: int = 0) -> bool:
        """*e* holds (the names of) the columns as loaded from the source file."""
        vals = FL.values(strip_keyset(e), at)
        if not vals or depth > 4:
            return False
        for v, st in vals:
            v = strip_keyset(v)
            if isinstance(v, ast.Call) and call_attr(v) == LSF:
                continue
            if isinstance(v, ast.Name) and (v is not e) and FL.defs(v.id, st) and is_columns(v, st, depth + 1):
                continue
            return False
        return True

    def is_select(e: ast.AST) -> bool:
        return _u(strip_keyset(e)) == select

    def member_pol(test: ast.AST, var: str, at: ast.AST) -> Optional[bool]:
        """`var in <columns>` -> True, `var not in <columns>` -> False."""
        if isinstance(test, ast.Compare) and len(test.ops) == 1 and isinstance(test.ops[0], (ast.In, ast.NotIn)) and _u(test.left) == var and is_columns(test.comparators[0], at):
            return isinstance(test.ops[0], ast.In)
        return None

    def missing_collection(e: ast.AST, at: ast.AST) -> bool:
        """*e* stands for exactly the selected keys that are not columns."""
        vals = FL.values(e, at)
        if not vals:
            return False
        for v, st in vals:
            while isinstance(v, ast.Call) and isinstance(v.func, ast.Name) and v.func.id in ("list", "tuple", "set", "sorted", "frozenset") and len(v.args) == 1 and not v.keywords:
                v = v.args[0]
            good = False
            if isinstance(v, (ast.ListComp, ast.SetComp, ast.GeneratorExp)) and len(v.generators) == 1 and isinstance(v.generators[0].target, ast.Name):
                gen = v.generators[0]
                good = is_select(gen.iter) and _u(v.elt) == gen.target.id and len(gen.ifs) == 1 and edges_guaranteeing(gen.ifs[0], lambda t: member_pol(t, gen.target.id, st)) == {"F"}
            elif isinstance(v, ast.BinOp) and isinstance(v.op, ast.Sub):
                good = is_select(v.left) and is_columns(v.right, st)
            elif isinstance(v, ast.Call) and isinstance(v.func, ast.Attribute) and v.func.attr == "difference" and len(v.args) == 1:
                good = is_select(v.func.value) and is_columns(v.args[0], st)
            elif is_empty_container(v) and isinstance(e, ast.Name):
                good = grown_with_missing(e.id)
            if not good:
                return False
        return True

    def grown_with_missing(acc: str) -> bool:
        """Every selected key that is not a column is appended to *acc* (and nothing else is)."""
        adds = [n for n in ast.walk(ls) if isinstance(n, ast.Call) and isinstance(n.func, ast.Attribute) and n.func.attr in ("append", "add") and dotted_name(n.func.value) == acc and len(n.args) == 1]
        if not adds:
            return False
        for a in adds:
            loop = next((x for x in ancestors(a) if isinstance(x, ast.For)), None)
            if loop is None or not is_select(loop.iter) or not isinstance(loop.target, ast.Name) or _u(a.args[0]) != loop.target.id:
                return False
            var = loop.target.id
            present_edges = []
            for n in FL.g.nodes:
                if n.kind == "if" and n.part is not None and any(x is loop for x in ancestors(n.ast)):
                    present_edges.extend((n.id, e) for e in FL.edges(n.part, lambda t: member_pol(t, var, n.ast)))
            loop_id = FL.nid(loop)
            body_entry = [t for t, lab in FL.g.succ[loop_id] if lab == "T"]
            seen = FL.g.reach(body_entry, blocked={FL.nid(a)}, blocked_edges=set(present_edges))
            if loop_id in seen or FL.g.ret_exit in seen:
                return False  # an absent key can get round the append
        return True

    def all_present_atom(e: ast.AST) -> Optional[bool]:
        at = stmt_of(e)
        # any(k not in columns for k in select) / all(k in columns for k in select)
        if isinstance(e, ast.Call) and isinstance(e.func, ast.Name) and e.func.id in ("any", "all") and len(e.args) == 1 and isinstance(e.args[0], (ast.GeneratorExp, ast.ListComp)):
            c = e.args[0]
            if len(c.generators) == 1 and not c.generators[0].ifs and isinstance(c.generators[0].target, ast.Name) and is_select(c.generators[0].iter):
                var = c.generators[0].target.id
                eg = edges_guaranteeing(c.elt, lambda t: member_pol(t, var, at))
                if e.func.id == "all" and eg == {"T"}:
                    return True
                if e.func.id == "any" and eg == {"F"}:
                    return False
            return None
        # set(select) <= set(columns) / .issubset
        p = cmp_parts(e)
        if p and p[1] is ast.LtE and is_select(p[0]) and is_columns(p[2], at):
            return True
        if isinstance(e, ast.Call) and isinstance(e.func, ast.Attribute) and e.func.attr == "issubset" and len(e.args) == 1 and is_select(e.func.value) and is_columns(e.args[0], at):
            return True
        # per key, inside a loop over the selection: k in columns
        if isinstance(e, ast.Compare):
            loop = next((x for x in ancestors(e) if isinstance(x, ast.For)), None)
            if loop is not None and is_select(loop.iter) and isinstance(loop.target, ast.Name):
                r = member_pol(e, loop.target.id, at)
                if r is not None:
                    return r
        # truthiness / size of the collection of missing keys
        subject, pol = emptiness_test(e, FL, at) or (e, False)
        if isinstance(subject, (ast.Name, ast.BinOp, ast.ListComp, ast.SetComp)) or (isinstance(subject, ast.Call) and isinstance(subject.func, (ast.Name, ast.Attribute)) and call_attr(subject) in ("list", "set", "sorted", "tuple", "difference")):
            if missing_collection(subject, at):
                return pol
        return None

    g_sel = FL.rejecting(all_present_atom)
    ok = bool(g_sel)
    path: List[str] = []
    if ok:
        # a per-key guard inside the selection loop has to be met by every key
        for nid, _e in g_sel:
            gnode = FL.g.nodes[nid].ast
            loop = next((x for x in ancestors(gnode) if isinstance(x, ast.For) and is_select(x.iter)), None)
            if loop is not None:
                lid = FL.nid(loop)
                seen = FL.g.reach([t for t, lab in FL.g.succ[lid] if lab == "T"], blocked={nid})
                if lid in seen:
                    ok = False
        users = [FL.nid(cons) for cons, it, _t, _b in iterations(ls) if is_select(it)]
        good, path = FL.passes_only_through(users, g_sel)
        ok = ok and good and bool(users)
    R.check(ok, r_g, RS, LPS, "select: missing columns raise", "selecting a column the source does not have is no longer rejected", ls.lineno, path)

    # rename is one simultaneous mapping of the columns: the mapping the renamed columns are filed into (the one the
    # collision test looks into) holds re-filed columns only
    r_sim = R.rule("C08-D1-rename-simultaneous", "rename is applied as declared - one simultaneous mapping old name -> new name over the loaded (selected) columns: the mapping the renamed columns are filed into, which is also the one the collision test looks into, starts empty; it is not the loaded columns themselves nor a copy of them, in which the entries would be applied one after the other to columns still waiting to be renamed (a swap {x: y, y: x} or a rotation is then rejected as a collision although no key is duplicated, a chain {a: b, b: c} depends on the order of the entries or renames a column twice)", 1)
    judged_maps: Set[str] = set()
    for lp, s_store, mapping, _key in rename_stores:
        if mapping in judged_maps:
            continue
        judged_maps.add(mapping)
        in_lp = {id(x) for x in ast.walk(lp)}
        holds_old: Optional[ast.AST] = None
        for d in FL.defs(mapping, lp):
            st = d[-1]
            if id(st) in in_lp:
                continue
            if d[0] != "val" or is_empty_container(d[1]):
                continue
            core = strip_keyset(d[1])
            if isinstance(core, ast.Name):
                vs = FL.values(core, st)
                if core.id != mapping and not mutated_in(ls, core.id) and vs and all(v is not core and is_empty_container(v) for v, _s in vs):
                    continue  # a copy of a mapping that is empty
                holds_old = st
            elif isinstance(core, ast.Call) and call_attr(core) == LSF:
                holds_old = st
        R.check(holds_old is None, r_sim, RS, LPS, f"the mapping `{mapping}` the renamed columns are filed into starts without columns under their old names", f"`{norm(holds_old)[:70] if holds_old is not None else ''}`: the mapping the renamed columns are filed into starts out holding the loaded columns under their old names, so the rename entries are applied one after the other to columns still waiting to be renamed: the collision test rejects a swap / rotation ({{x: y, y: x}}) that duplicates no key, and a chain ({{a: b, b: c}}) depends on the order of the entries or renames a column twice - every run then carries a wrong key", getattr(holds_old, "lineno", lp.lineno))

    # guard dominance of the positional expansion
    site_ids = [FE.nid(s) for s in positional_sites]
    holds, path = FE.dominated(site_ids, g_ee) if g_ee else (False, [])
    R.check(holds and bool(site_ids), r_g, RS, EE, "equal-length test dominates the positional expansion", "positions are aligned without the equal-length test having passed", ee.lineno, path)

    # neutral element only for an absent side
    def empty_atom(side: FrozenSet[str]):
        """Atom "the <side> entries mapping is empty"."""
        def atom(e: ast.AST) -> Optional[bool]:
            at = stmt_of(e)
            et = emptiness_test(e, F, at)
            if et is not None:
                return et[1] if prov(et[0], at) == side else None
            if isinstance(e, ast.Name) and prov(e, at) == side:
                return False
            return None
        return atom

    def side_of_expansion(v: ast.AST) -> Optional[FrozenSet[str]]:
        if isinstance(v, ast.Call) and any(v is c for c in ctx_exp):
            return CTX
        if isinstance(v, ast.Call) and any(v is c for c in src_exp):
            return SRC
        return None

    neutral_bad: List[ast.AST] = []
    neutral_ok = 0
    for n in ast.walk(fn):
        if isinstance(n, ast.BoolOp) and isinstance(n.op, ast.Or) and any(is_neutral(v) for v in n.values):
            neutral_bad.append(n)
        elif isinstance(n, ast.IfExp) and (is_neutral(n.orelse) or is_neutral(n.body)):
            other = n.body if is_neutral(n.orelse) else n.orelse
            side = side_of_expansion(other)
            need = "F" if is_neutral(n.orelse) else "T"
            if side is not None and need in edges_guaranteeing(n.test, empty_atom(side)):
                neutral_ok += 1
            else:
                neutral_bad.append(n)
        elif isinstance(n, (ast.Assign, ast.AnnAssign)) and is_neutral(n.value) and id(n) in in_bl:
            tgt = n.targets[0] if isinstance(n, ast.Assign) else n.target
            if not isinstance(tgt, ast.Name):
                neutral_bad.append(n)
                continue
            # the other definitions of the same run list tell which side it stands for
            sides = {side_of_expansion(x) for m in ast.walk(bl) if isinstance(m, (ast.Assign, ast.AnnAssign)) and m is not n and any(isinstance(t, ast.Name) and t.id == tgt.id for t in (m.targets if isinstance(m, ast.Assign) else [m.target])) and m.value is not None for x in ast.walk(m.value)} - {None}
            if len(sides) != 1:
                neutral_bad.append(n)
                continue
            side = next(iter(sides))
            edges = []
            for c in F.g.nodes:
                if c.kind == "if" and c.part is not None:
                    edges.extend((c.id, e) for e in F.edges(c.part, empty_atom(side)))
            me = F.nid(n)
            redefs = {F.nid(m) for m in ast.walk(bl) if isinstance(m, (ast.Assign, ast.AnnAssign)) and m is not n and any(isinstance(t, ast.Name) and t.id == tgt.id for t in (m.targets if isinstance(m, ast.Assign) else [m.target]))}
            uses = [F.nid(x) for x in ast.walk(bl) if isinstance(x, ast.Name) and x.id == tgt.id and isinstance(x.ctx, ast.Load)]
            dominated = F.dominated([me], edges)[0] if edges else False
            if not dominated:
                onward = F.g.reach([me], blocked=redefs, blocked_edges=set(edges))
                dominated = bool(edges) and not any(u in onward for u in uses if u != me)
            if dominated:
                neutral_ok += 1
            else:
                neutral_bad.append(n)
    for b in neutral_bad:
        R.violation(r_g, RS, ERS, "neutral [{}] replaces an empty expansion", "the neutral run [{}] replaces an *empty expansion* (e.g. a key with an empty value list) instead of an *absent* side: runs appear that lack declared keys and empty blocks no longer yield zero runs", b.lineno)
    if not neutral_bad:
        R.check(neutral_ok >= 2, r_g, RS, ERS, "[{}] only when the entries mapping is empty (context, source)", "neutral element selection not recognised", fn.lineno)

    # ------------------------------------------------------------------ D2 every declared block is examined
    r_every = R.rule("C08-D2-every-block-examined", "the walk over the declared blocks ends only when the blocks are exhausted or a block is rejected (raise): no break / return leaves it early, and every iteration that is followed by another one has contributed its run list, has passed the duplicate-key test against the earlier blocks and has left its keys for the later ones - rejection (mismatched lengths, duplicate keys, missing columns / files) and the union of keys are for-all statements over the blocks and do not depend on what an earlier block expanded to", 3)
    leavers = loop_leavers(F, bl)
    for lv in leavers:
        R.violation(r_every, RS, ERS, f"`{norm(lv)[:60]}` ends the walk over the declared blocks", "the loop over the declared blocks is left before the blocks are exhausted: the remaining blocks are neither loaded nor validated (mismatched lengths, duplicate keys, missing columns / source files in them are accepted instead of rejected) and contribute neither keys nor metadata; the outcome depends on the order of the blocks", getattr(lv, "lineno", bl.lineno))
    if not leavers:
        R.ok(r_every, RS, ERS, "the loop over the declared blocks is left only by exhaustion or by raising")
    if len(apps) == 1 and block_loop_of(apps[0][0]) is bl:
        path = loop_bypass(F, bl, nodes=[F.nid(apps[0][0])])
        R.check(path is None, r_every, RS, ERS, "every block that is passed contributes its run list", "a block can be passed (the loop goes on to the next one) without its run list being collected: the block's keys are missing from every run and an empty block no longer empties the product", apps[0][0].lineno, path or [])
    if g_across:
        inner = [(lid, "F") for gn, _e in g_across for lp in ancestors(F.g.nodes[gn].ast) if isinstance(lp, (ast.For, ast.While)) and lp is not bl and id(lp) in in_bl for lid in F.g.nodes_for(lp)]
        path = loop_bypass(F, bl, edges=list(g_across) + inner)
        R.check(path is None, r_every, RS, ERS, "every block that is passed went through the duplicate-key test across blocks", "a block can be passed without the duplicate-key test against the earlier blocks: a key declared in two blocks is accepted for such a block (the later value silently overwrites the earlier one)", F.g.nodes[g_across[0][0]].ast.lineno, path or [])
        if across_grow:
            path = loop_bypass(F, bl, nodes=[F.nid(site) for site in across_grow])
            R.check(path is None, r_every, RS, ERS, "every block that is passed leaves its keys for the later blocks", "a block can be passed without its keys being remembered: a later block declaring one of them again is no longer rejected", across_grow[0].lineno, path or [])

    # ------------------------------------------------------------------ D3 cap before materialisation
    r_cap = R.rule("C08-D3-cap-before-materialisation", "every statement that materialises something of product size is dominated by a test `size > spec.max_runs` (size computed from len()s only, directly or in a helper that raises) whose failing branch raises RunSpaceMaxRunsExceededError", 4)
    g = F.g
    materialised = {dotted_name(r.value.elts[0]) for r in walk_no_nested(fn) if isinstance(r, ast.Return) and isinstance(r.value, ast.Tuple) and r.value.elts} | {BR}
    cap_expr = f"{spec}.max_runs"
    # ... as objects: the phases of a split function know the result list / a block's run list under other locals
    MAT_OBJ: Set[int] = set()
    for r in walk_no_nested(fn):
        if isinstance(r, ast.Return) and isinstance(r.value, ast.Tuple) and r.value.elts and isinstance(r.value.elts[0], ast.Name):
            MAT_OBJ |= origins(r.value.elts[0].id, r)
    if apps and isinstance(apps[0][1], ast.Name):
        MAT_OBJ |= origins(apps[0][1].id, apps[0][0])

    def is_materialised(x: ast.AST) -> bool:
        if dotted_name(x) in materialised:
            return True
        return isinstance(x, ast.Name) and id(x) in fn_nodes and bool(origins(x.id, stmt_of(x)) & MAT_OBJ)

    def size_ok(f: ast.AST, left: ast.AST) -> bool:
        vals = assigned_value(f, left.id) if isinstance(left, ast.Name) else []
        for v in (vals or [left]):
            if any(isinstance(c, ast.Call) and call_attr(c) == "len" and c.args and is_materialised(c.args[0]) for c in ast.walk(v)):
                return False
        return True

    def cap_cmp(e: ast.AST, cap: str) -> Optional[Tuple[bool, ast.AST]]:
        """(within cap?, projected size expression) for one comparison against the cap."""
        if not (isinstance(e, ast.Compare) and len(e.ops) == 1):
            return None
        l, op, r = e.left, type(e.ops[0]), e.comparators[0]
        if _u(l) == cap:
            flip = {ast.Lt: ast.Gt, ast.Gt: ast.Lt, ast.LtE: ast.GtE, ast.GtE: ast.LtE}
            if op not in flip:
                return None
            l, op, r = r, flip[op], l
        if _u(r) != cap:
            return None
        if op is ast.Gt:
            return False, l
        if op is ast.LtE:
            return True, l
        return None

    def cap_atom_in(f: ast.AST, cap: str):
        def atom(e: ast.AST) -> Optional[bool]:
            c = cap_cmp(e, cap)
            if c and size_ok(f, c[1]):
                return c[0]
            return None
        return atom

    cap_atom = cap_atom_in(fn, cap_expr)
    n_cap = 0
    blocked = set()
    for nid, ok_e, other, rs in F.guards(cap_atom):
        n = g.nodes[nid]
        n_cap += 1
        blocked.add((nid, ok_e))
        exc = ", ".join(sorted(rs)) if rs else None
        R.check(rs == {CAP_ERROR}, r_cap, RS, ERS, "cap test raises the max-runs error", f"exceeding the cap raises {exc} instead of the max-runs error", n.line)
        if rs:
            size = next((cap_cmp(x, cap_expr)[1] for x in ast.walk(n.part) if cap_cmp(x, cap_expr)), None)
            ok = True
            for rz in F.raise_nodes(nid, other):
                rc = rz.exc
                if isinstance(rc, ast.Name):
                    vs = [v for v, _s in F.values(rc, rz)]
                    rc = vs[0] if len(vs) == 1 else rc
                if isinstance(rc, ast.Call) and any(kw.arg is None and isinstance(kw.value, ast.Name) for kw in rc.keywords):
                    # raise E(**details): the keywords are the items of the one mapping display the local stands for
                    rc = copy.copy(rc)
                    rc.keywords = [ast.keyword(arg=None, value=vs[0][0]) if kw.arg is None and isinstance(kw.value, ast.Name) and len(vs := F.values(kw.value, rz)) == 1 and isinstance(vs[0][0], ast.Dict) and not mutated_in(fn, kw.value.id) else kw for kw in rc.keywords]
                ok = ok and isinstance(rc, ast.Call) and _u(call_arg(rc, 0, "actual_runs")) == _u(size) and _u(call_arg(rc, 1, "max_runs")) == cap_expr
            R.check(ok, r_cap, RS, ERS, "max-runs error carries projected size and limit", "the max-runs error does not carry the projected size and the limit", n.line)
    # helper functions (not inlined: public name) that raise unless within cap: helper(size, spec)
    helper_calls = []
    for hqn, hf in [(q, n) for q, n in mod.defs.items() if isinstance(n, FuncNode) and "." not in q and n.name != ERS]:
        params = [a.arg for a in hf.args.args]
        for n in walk_no_nested(hf):
            if isinstance(n, ast.If) and _raises(n.body) == CAP_ERROR:
                m = match("_S_ > _C_", n.test)
                if m and isinstance(m["_S_"], ast.Name) and m["_S_"].id in params and "max_runs" in _u(m["_C_"]) and n in hf.body and hf.body.index(n) <= 1:
                    helper_calls.append((hf.name, params.index(m["_S_"].id)))
    for n in g.nodes:
        if n.ast is not None and n.kind == "stmt":
            for c in calls_in(n.ast):
                for hname, idx in helper_calls:
                    if call_attr(c) == hname and len(c.args) > idx and size_ok(fn, c.args[idx]):
                        n_cap += 1
                        for _t, lab in g.succ[n.id]:
                            blocked.add((n.id, lab))
                        R.ok(r_cap, RS, ERS, f"cap enforced through helper {hname}()", "", c.lineno)
    seen = g.reach([g.entry], blocked_edges=blocked)
    # materialisation sites by role
    sites: List[Tuple[str, ast.AST]] = []
    for c in ctx_exp:
        a1 = call_arg(c, 1, ee_params[1])
        if not (isinstance(a1, ast.Constant) and a1.value == "by_position"):
            sites.append((f"block expansion: context side ({block_mode_of(c) or '?'} block)", stmt_of(c)))
    for c in src_exp:
        a1 = call_arg(c, 1, ee_params[1])
        if not (isinstance(a1, ast.Constant) and a1.value == "by_position"):
            sites.append((f"block expansion: source side ({block_mode_of(c) or '?'} block)", stmt_of(c)))
    for s, _good in cs:
        sites.append(("block combination: context x source", s if isinstance(s, ast.stmt) else stmt_of(s)))
    for c in top:
        sites.append(("top-level combination: product of all blocks", stmt_of(c)))
    if len(sites) < 4 and not R.violations():
        raise AnalysisError(f"expand_run_space: only {len(sites)} product-materialisation site(s) recognised")
    done = set()
    for label, s in sites:
        if (label, id(s)) in done:
            continue
        done.add((label, id(s)))
        sid = F.nid(s)
        unguarded_site = sid in seen
        R.check(not unguarded_site, r_cap, RS, ERS, label, "a structure of product size is built before (or without) the max_runs test: a specification far larger than the cap is fully materialised first", s.lineno, g.path_to(seen, sid)[-6:] if unguarded_site else None)
    if n_cap == 0:
        R.violation(r_cap, RS, ERS, "cap test", "no `size > spec.max_runs` test on a projected size exists", fn.lineno)
    # the size used for the product is the product of all block sizes
    ok = False
    for cons, it, tgt, body in iterations(fn):
        if is_all(it) and isinstance(tgt, ast.Name) and id(cons) not in in_bl:
            for b in body:
                for n in ast.walk(b):
                    if isinstance(n, ast.AugAssign) and isinstance(n.op, ast.Mult) and match(f"len({tgt.id})", n.value):
                        ok = True
                    if isinstance(n, ast.Assign) and len(n.targets) == 1 and isinstance(n.targets[0], ast.Name) and (match(f"{n.targets[0].id} * len({tgt.id})", n.value) or match(f"len({tgt.id}) * {n.targets[0].id}", n.value)):
                        ok = True
    for n in ast.walk(fn):
        if isinstance(n, ast.Call) and call_name(n) in ("math.prod", "prod") and reads_all(n):
            ok = True
        if isinstance(n, ast.Call) and call_name(n) in ("functools.reduce", "reduce") and n.args and _last(dotted_name(n.args[0])) == "mul" and reads_all(n):
            ok = True
    R.check(ok or n_cap == 0, r_cap, RS, ERS, "projected size = product of len(runs) over all blocks", "the projected size is not the product of all block sizes", fn.lineno)

    # ---- the size a cap test compares is never larger than the documented expansion: the lengths of all the
    # ---- value lists of a side are multiplied only where that side is expanded combinatorially
    r_sz = R.rule("C08-D3-cap-size", "a size tested against max_runs never exceeds the number of runs of the documented expansion: it counts expanded run lists, or multiplies the lengths of all value lists of a side (inline context / source columns) only where that side is expanded combinatorially (a by_position side contributes one run per position, not the product of its columns)", 1)
    hdr = F.nid(bl)

    def comp_binding(x: ast.Name) -> Optional[ast.comprehension]:
        for a in ancestors(x):
            if isinstance(a, COMPS):
                for gen in a.generators:
                    if any(isinstance(t, ast.Name) and t.id == x.id for t in ast.walk(gen.target)):
                        return gen
        return None

    Measure = Tuple[ast.AST, ast.AST, bool, Tuple[Tuple[ast.AST, bool], ...]]

    def measures(e: ast.AST, at: ast.AST, product: bool, conds: Tuple[Tuple[ast.AST, bool], ...], depth: int, visited: Set[Tuple[str, int]]) -> List[Measure]:
        """The len() arguments the size *e* is computed from: (argument, statement, multiplied into the size?,
        conditional-expression branches taken on the way)."""
        if depth > 10 or isinstance(e, ast.Constant):
            return []
        out: List[Measure] = []
        if isinstance(e, ast.Name):
            if comp_binding(e) is not None:
                return []
            for d in F.defs(e.id, at):
                # one definition can feed the size twice in different roles (`max(ls) if .. else prod(ls)`): the
                # role (multiplied or not, conditional branches taken) is part of what has been visited
                k = (e.id, id(d[-1]), product, tuple((id(t), b) for t, b in conds))
                if k in visited:
                    continue
                visited.add(k)
                if d[0] == "val":
                    out += measures(d[1], d[2], product, conds, depth + 1, visited)
                elif d[0] == "aug":
                    out += measures(d[1].value, d[1], product or isinstance(d[1].op, ast.Mult), conds, depth + 1, visited)
                elif d[0] == "item":
                    for v, st in F.values(e, at):
                        if v is not e:
                            out += measures(v, st, product, conds, depth + 1, visited)
            return out
        if isinstance(e, ast.BinOp):
            p2 = product or isinstance(e.op, ast.Mult)
            return measures(e.left, at, p2, conds, depth + 1, visited) + measures(e.right, at, p2, conds, depth + 1, visited)
        if isinstance(e, ast.IfExp):
            return measures(e.body, at, product, conds + ((e.test, True),), depth + 1, visited) + measures(e.orelse, at, product, conds + ((e.test, False),), depth + 1, visited)
        if isinstance(e, ast.Call):
            nm = call_name(e) or ""
            if nm == "len" and len(e.args) == 1:
                return [(e.args[0], at, product, conds)]
            if nm in ("math.prod", "prod"):
                return [m for a in e.args for m in measures(a, at, True, conds, depth + 1, visited)]
            if nm in ("functools.reduce", "reduce") and len(e.args) >= 2:
                mult = _last(dotted_name(e.args[0])) in ("mul", "__mul__") or (isinstance(e.args[0], ast.Lambda) and isinstance(e.args[0].body, ast.BinOp) and isinstance(e.args[0].body.op, ast.Mult))
                return measures(e.args[1], at, product or mult, conds, depth + 1, visited)
            if nm in ("max", "min", "sum", "int", "abs", "list", "tuple", "sorted"):
                return [m for a in e.args for m in measures(a, at, product, conds, depth + 1, visited)]
            return []
        if isinstance(e, (ast.ListComp, ast.GeneratorExp, ast.SetComp)):
            return measures(e.elt, at, product, conds, depth + 1, visited)
        if isinstance(e, ast.Subscript):
            return measures(e.value, at, product, conds, depth + 1, visited)
        if isinstance(e, (ast.List, ast.Tuple)):
            return [m for x in e.elts for m in measures(x.value if isinstance(x, ast.Starred) else x, at, product, conds, depth + 1, visited)]
        return []

    def column_sides(m: ast.AST, at: ast.AST) -> Optional[FrozenSet[str]]:
        """Sides (ctx / src) whose value lists the mapping *m* holds, else None."""
        p = prov(m, at)
        return p if p and p <= (CTX | SRC) else None

    def ranged_columns(it: ast.AST, tgt: ast.AST, x: ast.Name, at: ast.AST, depth: int = 0) -> Optional[FrozenSet[str]]:
        """*x* (bound by iterating *it*) ranges over *all* the value lists of these sides; None when it does not."""
        if depth > 4:
            return None
        if isinstance(it, ast.Name):
            vals = [v for v, _s in F.values(it, at) if v is not it]
            got = [ranged_columns(v, tgt, x, at, depth + 1) for v in vals]
            return frozenset().union(*got) if got and all(s is not None for s in got) else None
        while isinstance(it, ast.Call) and isinstance(it.func, ast.Name) and it.func.id in ("list", "tuple", "iter") and len(it.args) == 1 and not it.keywords:
            it = it.args[0]
        if isinstance(it, ast.Call) and isinstance(it.func, ast.Attribute) and not it.args and not it.keywords:
            if it.func.attr == "values" and isinstance(tgt, ast.Name):
                return column_sides(it.func.value, at)
            if it.func.attr == "items" and isinstance(tgt, ast.Tuple) and len(tgt.elts) == 2 and isinstance(tgt.elts[1], ast.Name) and tgt.elts[1].id == x.id:
                return column_sides(it.func.value, at)
            return None
        parts: Optional[List[ast.AST]] = None
        if isinstance(it, (ast.Tuple, ast.List)) and it.elts and all(isinstance(el, ast.Starred) for el in it.elts):
            parts = [el.value for el in it.elts]
        elif isinstance(it, ast.Call) and call_name(it) in ("itertools.chain", "chain") and it.args and not it.keywords:
            parts = list(it.args)
        elif isinstance(it, ast.BinOp) and isinstance(it.op, ast.Add):
            parts = [it.left, it.right]
        if parts:
            got = [ranged_columns(p, tgt, x, at, depth + 1) for p in parts]
            return frozenset().union(*got) if all(s is not None for s in got) else None
        return None

    def measured_columns(x: ast.AST, at: ast.AST) -> Optional[FrozenSet[str]]:
        """len(*x*) is the length of each value list of these sides in turn (x is an iteration variable over them)."""
        if isinstance(x, ast.Subscript) and isinstance(x.slice, ast.Name):
            # M[k] with k ranging over the keys of M
            gen = comp_binding(x.slice)
            ds = [] if gen is not None else F.defs(x.slice.id, at)
            it = gen.iter if gen is not None else (ds[0][1].iter if len(ds) == 1 and ds[0][0] == "iter" and isinstance(ds[0][1].target, ast.Name) else None)
            while isinstance(it, ast.Call) and isinstance(it.func, ast.Name) and it.func.id in ("sorted", "reversed") and len(it.args) == 1 and not it.keywords:
                it = it.args[0]
            if it is not None and _u(strip_keyset(it)) == _u(x.value):
                return column_sides(x.value, at)
            return None
        if not isinstance(x, ast.Name):
            return None
        gen = comp_binding(x)
        if gen is not None:
            return ranged_columns(gen.iter, gen.target, x, at)
        ds = F.defs(x.id, at)
        if len(ds) == 1 and ds[0][0] == "iter":
            return ranged_columns(ds[0][1].iter, ds[0][1].target, x, ds[0][1])
        return None

    def comb_atom(texts: Set[str]):
        """Atom "the mode spelled by one of *texts* is combinatorial"."""
        def atom(e: ast.AST) -> Optional[bool]:
            if not (isinstance(e, ast.Compare) and len(e.ops) == 1):
                return None
            l, op, r = e.left, e.ops[0], e.comparators[0]
            if isinstance(l, ast.Constant) and isinstance(op, (ast.Eq, ast.NotEq)):
                l, r = r, l
            if _u(l) not in texts:
                return None
            if isinstance(op, (ast.Eq, ast.NotEq)) and isinstance(r, ast.Constant):
                if r.value == "combinatorial":
                    return isinstance(op, ast.Eq)
                return False if isinstance(op, ast.Eq) else None
            if isinstance(op, (ast.In, ast.NotIn)) and isinstance(r, (ast.Tuple, ast.List, ast.Set)) and all(isinstance(x, ast.Constant) for x in r.elts):
                vals = [x.value for x in r.elts]
                if vals == ["combinatorial"]:
                    return isinstance(op, ast.In)
                if "combinatorial" not in vals:
                    return False if isinstance(op, ast.In) else None
            return None
        return atom

    def expanded_combinatorially(c: ast.Call, gid: int, conds: Sequence[Tuple[ast.AST, bool]], mid: Optional[int] = None) -> bool:
        """The expansion call *c* is known to run in combinatorial mode whenever the lengths multiplied at node *mid*
        (under the conditional-expression branches *conds*) enter the size tested at node *gid*."""
        a1 = call_arg(c, 1, ee_params[1])
        if a1 is None:
            return False
        vals = [v for v, _s in F.values(a1, c)]
        if vals and all(isinstance(v, ast.Constant) and v.value == "combinatorial" for v in vals):
            return True
        texts = {_u(a1)} | {_u(v) for v in vals}
        for v in vals:
            if isinstance(v, ast.IfExp):
                for br, oth in ((v.body, v.orelse), (v.orelse, v.body)):
                    if isinstance(oth, ast.Constant) and oth.value == "combinatorial":
                        texts.add(_u(br))
        atom = comb_atom(texts)
        for test, taken in conds:
            if ("T" if taken else "F") in F.edges(test, atom):
                return True
        edges = []
        for n in g.nodes:
            if n.kind == "if" and n.part is not None:
                edges.extend((n.id, e) for e in F.edges(n.part, atom))
        return bool(edges) and (F.dominated([gid], edges)[0] or (mid is not None and F.dominated([mid], edges)[0]))

    def same_iteration_expansions(gid: int) -> List[Tuple[ast.Call, str]]:
        """Expansion calls that run in the same block iteration as node *gid* (before or after it)."""
        fwd = g.reach([gid], blocked={hdr})
        out = []
        for c, side in [(c, "ctx") for c in ctx_exp] + [(c, "src") for c in src_exp]:
            cid = F.nid(c)
            if cid in fwd or gid in g.reach([cid], blocked={hdr}):
                out.append((c, side))
        return out

    def _eq_const(e: ast.AST) -> Optional[Tuple[str, object]]:
        if isinstance(e, ast.Compare) and len(e.ops) == 1 and isinstance(e.ops[0], ast.Eq):
            l, r = e.left, e.comparators[0]
            if isinstance(l, ast.Constant):
                l, r = r, l
            if isinstance(r, ast.Constant) and not isinstance(l, ast.Constant):
                return _u(l), r.value
        return None

    def excluded_by(c: ast.Call, st: ast.AST, conds: Sequence[Tuple[ast.AST, bool]]) -> bool:
        """The expansion call *c* cannot run in an iteration in which the lengths multiplied in statement *st* enter
        the size under the conditional-expression branches *conds*: it sits behind a branch on the same test (same
        text, operands with the same reaching definitions; `x == 'a'` is also known false where `x == 'b'` holds)
        taken the other way."""
        cid = F.nid(c)
        for test, taken in conds:
            text, ec = _u(test), _eq_const(test)
            names = {x.id for x in ast.walk(test) if isinstance(x, ast.Name)}
            try:
                if any([d[-1] for d in F.defs(nm, st)] != [d[-1] for d in F.defs(nm, c)] for nm in names):
                    continue
            except AnalysisError:
                continue

            def atom(e: ast.AST, text=text, ec=ec) -> Optional[bool]:
                if _u(e) == text:
                    return True
                e2 = _eq_const(e)
                if ec is not None and e2 is not None and e2[0] == ec[0] and e2[1] != ec[1]:
                    return False
                return None

            want = "F" if taken else "T"  # edges on which the test has the value the measure does not have
            edges = []
            for n in g.nodes:
                if n.kind == "if" and n.part is not None:
                    hold = edges_guaranteeing(n.part, atom)          # test known true
                    fail = edges_guaranteeing(n.part, lambda e: (None if atom(e) is None else not atom(e)))  # test known false
                    edges.extend((n.id, lab) for lab in (hold if want == "T" else fail))
            if edges and F.dominated([cid], edges)[0]:
                return True
        return False

    def judge_size(size: Optional[ast.AST], at: ast.AST, gid: int, line: int) -> None:
        if size is None:
            return
        label = f"size tested against the cap: {_u(size)[:60]}"
        for x, st, product, conds in measures(size, at, False, (), 0, set()):
            sides = measured_columns(x, st) if product else None
            if not sides:
                continue
            for c, side in same_iteration_expansions(gid):
                if side in sides and excluded_by(c, st, conds):
                    continue
                if side in sides and not expanded_combinatorially(c, gid, conds, F.nid(st)):
                    which = "source columns" if side == "src" else "inline context lists"
                    R.violation(r_sz, RS, ERS, label, f"the size compared with max_runs multiplies the lengths of all {which} (`len({_u(x)})` in `{norm(stmt_of(x))[:70]}`), but `{_u(c)[:70]}` may expand that side by position (one run per row, not the product of its columns): a specification whose documented expansion is within max_runs is rejected with the max-runs error", line)
                    return
        R.ok(r_sz, RS, ERS, label, "", line)

    for nid, _ok_e, _other, rs in F.guards(cap_atom):
        if rs:
            n = g.nodes[nid]
            size = next((cap_cmp(x, cap_expr)[1] for x in ast.walk(n.part) if cap_cmp(x, cap_expr)), None)
            judge_size(size, n.ast if isinstance(n.ast, ast.stmt) else stmt_of(n.part), nid, n.line)
    for n in g.nodes:
        if n.ast is not None and n.kind == "stmt":
            for c in calls_in(n.ast):
                for hname, idx in helper_calls:
                    if call_attr(c) == hname and len(c.args) > idx:
                        judge_size(c.args[idx], n.ast, n.id, c.lineno)

    # ------------------------------------------------------------------ D1/D2 source loading: cells keep their own key
    _source_columns(repo, R)
    _cell_converters(repo, R)
    _record_units(repo, R)
    _declared_defaults(repo, R)
    _parse_time_keys(repo, R)
    _built_blocks_exhaustive(repo, R)
    read_errors_rule(repo, R)

    # ------------------------------------------------------------------ D4 error classes
    r_err = R.rule("C08-D4-error-classes", "expansion raises only the documented configuration error and max-runs error", 5)
    allowed = set(CONFIG_ERRORS) | {CAP_ERROR}
    def raised_classes(f: ast.AST, r: ast.Raise) -> Set[Optional[str]]:
        """Class names `raise X` / `raise X(..)` / `err = X(..); raise err` can raise."""
        t = r.exc.func if isinstance(r.exc, ast.Call) else r.exc
        if isinstance(t, ast.Name) and not isinstance(r.exc, ast.Call):
            vals = assigned_value(f, t.id)
            if vals and all(isinstance(v, ast.Call) for v in vals):
                return {_last(dotted_name(v.func)) for v in vals}
        return {_last(dotted_name(t))}

    for f in [n for q, n in mod.defs.items() if isinstance(n, FuncNode) and "." not in q and n.name != "_coerce_scalar"]:
        for n in walk_no_nested(f):
            if isinstance(n, ast.Raise) and n.exc is not None:
                t = n.exc.func if isinstance(n.exc, ast.Call) else n.exc
                names = {_last(dotted_name(t))}
                if isinstance(t, ast.Name) and not isinstance(n.exc, ast.Call):
                    vals = assigned_value(f, t.id)
                    if vals and all(isinstance(v, ast.Call) for v in vals):
                        names = {_last(dotted_name(v.func)) for v in vals}
                    elif any(isinstance(h, ast.ExceptHandler) and h.name == t.id for h in ancestors(n)):
                        continue  # re-raise of the caught exception
                shown = "/".join(sorted(x or "?" for x in names))
                R.check(names <= allowed, r_err, RS, f.name, f"raise {shown}", "an undocumented exception class is raised for an invalid run space", n.lineno)
    # foreign errors of the source parsers: every call that parses source-file content (json.loads / json.load /
    # yaml.safe_load / yaml.load) sits in a try whose handler turns the parser's own error into the configuration
    # error; and a csv.DictReader row with more cells than the header (extra cells are collected under the key None)
    # is rejected, not looked up
    PARSERS = {"json.loads": {"JSONDecodeError", "ValueError", "Exception"}, "json.load": {"JSONDecodeError", "ValueError", "Exception"},
               "yaml.safe_load": {"YAMLError", "Exception"}, "yaml.load": {"YAMLError", "Exception"}}
    for f in [n for q, n in mod.defs.items() if isinstance(n, FuncNode) and "." not in q]:
        for c in calls_in(f):
            cn = call_name(c) or ""
            if cn not in PARSERS:
                continue
            converted = False
            child: ast.AST = c
            for a in ancestors(c):
                if a is f:
                    break
                if isinstance(a, ast.Try) and any(child is st or any(child is x for x in ast.walk(st)) for st in a.body):
                    for h in a.handlers:
                        caught = {_last(dotted_name(t)) for t in (h.type.elts if isinstance(h.type, ast.Tuple) else [h.type])} if h.type is not None else {"Exception"}
                        if caught & PARSERS[cn] and any(isinstance(r, ast.Raise) and r.exc is not None and raised_classes(f, r) and raised_classes(f, r) <= set(CONFIG_ERRORS) for r in ast.walk(h)):
                            converted = True
                child = a
            R.check(converted, r_err, RS, f.name, f"{cn}(...) failure -> configuration error", f"a malformed source file makes `{cn}` raise its own error class, which is not converted into the configuration error here (its sibling parsers are): expansion fails with an undocumented exception and the CLI ends with a traceback and exit 1 instead of the configuration-error exit", c.lineno)
        readers = [c for c in calls_in(f) if (call_name(c) or "").endswith("DictReader")]
        for rd in readers:
            has_restkey = kwarg(rd, "restkey") is not None
            rd_names = {t.id for a in ast.walk(f) if isinstance(a, (ast.Assign, ast.AnnAssign)) and getattr(a, "value", None) is rd for t in (a.targets if isinstance(a, ast.Assign) else [a.target]) if isinstance(t, ast.Name)}
            rows = {lp.target.id for lp in ast.walk(f) if isinstance(lp, ast.For) and isinstance(lp.target, ast.Name) and ((isinstance(lp.iter, ast.Name) and lp.iter.id in rd_names) or lp.iter is rd)}
            keys = set()
            for lp in ast.walk(f):
                if isinstance(lp, ast.For):
                    it = lp.iter
                    if isinstance(it, ast.Call) and call_attr(it) in ("items", "keys") and dotted_name(it.func.value) in rows:
                        tg = lp.target.elts[0] if isinstance(lp.target, ast.Tuple) and lp.target.elts else lp.target
                        if isinstance(tg, ast.Name):
                            keys.add(tg.id)
                    elif isinstance(it, ast.Name) and it.id in rows and isinstance(lp.target, ast.Name):
                        keys.add(lp.target.id)

            def about_surplus(t: ast.AST) -> bool:
                if not (isinstance(t, ast.Compare) and len(t.ops) == 1):
                    return False
                op, a, b = t.ops[0], t.left, t.comparators[0]
                if isinstance(op, (ast.In, ast.NotIn)) and isinstance(a, ast.Constant) and a.value is None and dotted_name(b) in rows:
                    return True
                return isinstance(op, (ast.Is, ast.IsNot, ast.Eq, ast.NotEq)) and isinstance(b, ast.Constant) and b.value is None and dotted_name(a) in keys

            none_tests = [t for t in ast.walk(f) if about_surplus(t)]
            # a test may be named first (`surplus = None in row` ... `if surplus:`): the branch on the flag is the test
            flags = {tg.id for a in ast.walk(f) if isinstance(a, (ast.Assign, ast.AnnAssign)) and a.value is not None and any(x is t for t in none_tests for x in ast.walk(a.value)) for tg in (a.targets if isinstance(a, ast.Assign) else [a.target]) if isinstance(tg, ast.Name)}
            branches = [a for a in ast.walk(f) if isinstance(a, ast.If) and any(isinstance(r, ast.Raise) for st in a.body + a.orelse for r in ast.walk(st))]
            rejecting = [t for t in none_tests if any(any(x is t for x in ast.walk(a.test)) for a in branches)]
            rejecting += [a for a in branches if flags & names_in(a.test)]
            R.check(has_restkey or bool(rejecting), r_err, RS, f.name, "csv row with more cells than the header is rejected", "csv.DictReader stores surplus cells under the key None and nothing tests for it: a row longer than the header ends in KeyError(None) (or a column named None) instead of the configuration error", rd.lineno)
    # the cap value itself comes from the configuration unchanged
    YL = "semantiva/configurations/load_pipeline_from_yaml.py"
    if repo.maybe_func(YL, "_parse_run_space_block") is not None:
        lp = nfunc(repo, YL, "_parse_run_space_block", copyprop="all")
        r_cfg = R.rule("C08-D3-cap-value", "the max_runs value of the block is taken as given (an explicit 0 is not replaced by the default)", 1)

        def reads_cap(e: ast.AST) -> bool:
            if isinstance(e, ast.Call) and call_attr(e) == "get" and e.args and isinstance(e.args[0], ast.Constant) and e.args[0].value == "max_runs":
                return True
            return isinstance(e, ast.Subscript) and isinstance(e.slice, ast.Constant) and e.slice.value == "max_runs"

        gets = [c for c in ast.walk(lp) if reads_cap(c)]
        bad = [n for n in ast.walk(lp) if isinstance(n, ast.BoolOp) and isinstance(n.op, ast.Or) and any(reads_cap(x) for x in ast.walk(n.values[0]))]
        bad += [n for n in ast.walk(lp) if isinstance(n, ast.IfExp) and any(reads_cap(x) for x in ast.walk(n.test)) and not any(isinstance(x, ast.Compare) for x in ast.walk(n.test))]
        R.check(bool(gets) and not bad, r_cfg, YL, "_parse_run_space_block", "max_runs = block.get('max_runs', <default>)", "a falsy max_runs (0) is replaced by the default: a cap of 0 no longer rejects anything", lp.lineno)
