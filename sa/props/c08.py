"""C08 - run-space expansion yields exactly the documented ordered list of runs.

D1 ordering rules (sorted keys, declaration order, product order), D2 rejection guards dominate
what they protect, D3 the cap is tested before anything of product size is materialised,
D4 error classes.
"""
from __future__ import annotations

import ast
from typing import Dict, List, Optional, Set, Tuple

from ..cfg import CFG, edges_guaranteeing, returns_only_through
from ..engine import (
    AnalysisError,
    FuncNode,
    Repo,
    ancestors,
    assigned_value,
    call_attr,
    call_name,
    calls_in,
    dotted_name,
    kwarg,
    norm,
    stmt_of,
    terminates_in_raise,
    walk_no_nested,
)
from ..report import Report

RS = "semantiva/execution/run_space.py"
ERS = "expand_run_space"


def _raises(body: List[ast.stmt]) -> Optional[str]:
    """Name of the exception class raised at the end of *body* (None if it does not end in raise)."""
    if not terminates_in_raise(body):
        return None
    last = body[-1]
    if isinstance(last, ast.Raise) and last.exc is not None:
        t = last.exc.func if isinstance(last.exc, ast.Call) else last.exc
        return dotted_name(t)
    return "?"


def _product_sites(fn: ast.AST) -> List[ast.AST]:
    """Statements that materialise a Cartesian product: consumption of itertools.product into a
    list, or a doubly nested loop that appends."""
    out = []
    for n in walk_no_nested(fn):
        if isinstance(n, ast.Call) and call_name(n) in ("itertools.product", "product"):
            out.append(stmt_of(n))
        if isinstance(n, ast.For):
            inner = [m for m in n.body if isinstance(m, ast.For)]
            for m in inner:
                if any(call_attr(c) == "append" for c in calls_in(m)) and not (isinstance(m.iter, ast.Call) and call_attr(m.iter) == "range"):
                    it_outer, it_inner = dotted_name(n.iter), dotted_name(m.iter)
                    if it_outer and it_inner and it_outer != it_inner and not isinstance(n.iter, ast.Call):
                        out.append(n)
    seen = []
    for s in out:
        if not any(s is t for t in seen):
            seen.append(s)
    return seen


def run(repo: Repo, R: Report) -> None:
    fn = repo.func(RS, ERS)
    ee = repo.func(RS, "_expand_entries")
    ls = repo.func(RS, "_load_and_process_source")
    R.assume(
        "itertools.product enumerates with the rightmost iterable varying fastest (stdlib contract)",
        "csv/json/yaml parsers return the file's rows in file order",
    )
    R.undecided("content of parsed source files and scalar coercion values; memory actually used (only *where* product-sized structures are built is decided)")

    # ------------------------------------------------------------------ D1 ordering
    r_ord = R.rule("C08-D1-ordering", "keys inside a block are taken in sorted order (one definition feeding both modes), blocks in declaration order, products via itertools.product over them in that order; context varies slower than source inside a combinatorial block", 7)
    ok_defs = assigned_value(ee, "ordered_keys")
    single = len(ok_defs) == 1 and isinstance(ok_defs[0], ast.Call) and call_attr(ok_defs[0]) == "sorted" and len(ok_defs[0].args) == 1 and dotted_name(ok_defs[0].args[0]) == ee.args.args[0].arg and not ok_defs[0].keywords
    R.check(single, r_ord, RS, "_expand_entries", "ordered_keys = sorted(entries)", "keys are not iterated in plain sorted order (custom key function, reversed, or mapping order)", ee.lineno)
    entries = ee.args.args[0].arg
    prods = [c for c in calls_in(ee) if call_name(c) in ("itertools.product", "product")]
    ok = False
    if len(prods) == 1 and len(prods[0].args) == 1 and isinstance(prods[0].args[0], ast.Starred):
        arg = prods[0].args[0].value
        vals = assigned_value(ee, arg.id) if isinstance(arg, ast.Name) else [arg]
        ok = bool(vals) and all(isinstance(v, ast.ListComp) and dotted_name(v.generators[0].iter) == "ordered_keys" and not v.generators[0].ifs and ast.unparse(v.elt) == f"{entries}[{v.generators[0].target.id}]" for v in vals)
    R.check(ok, r_ord, RS, "_expand_entries", "itertools.product(*[entries[k] for k in ordered_keys])", "the product is not taken over the value lists in sorted-key order", prods[0].lineno if prods else ee.lineno)
    zips = [c for c in calls_in(ee) if call_attr(c) == "zip" and c.args and dotted_name(c.args[0]) == "ordered_keys"]
    R.check(bool(zips), r_ord, RS, "_expand_entries", "dict(zip(ordered_keys, combo))", "product combinations are not paired with the sorted keys", ee.lineno)
    bypos = [n for n in walk_no_nested(ee) if isinstance(n, ast.ListComp) and isinstance(n.elt, ast.DictComp)]
    ok = False
    for lc in bypos:
        dc = lc.elt
        ok = ok or (dotted_name(dc.generators[0].iter) == "ordered_keys" and isinstance(lc.generators[0].iter, ast.Call) and call_attr(lc.generators[0].iter) == "range" and len(lc.generators[0].iter.args) == 1)
    R.check(ok, r_ord, RS, "_expand_entries", "[{k: entries[k][i] for k in ordered_keys} for i in range(size)]", "by_position does not align positions 0..size-1 over the sorted keys", ee.lineno)
    loops = [n for n in walk_no_nested(fn) if isinstance(n, ast.For) and "spec.blocks" in ast.unparse(n.iter)]
    ok = len(loops) == 1 and (dotted_name(loops[0].iter) == "spec.blocks" or (isinstance(loops[0].iter, ast.Call) and call_attr(loops[0].iter) == "enumerate" and dotted_name(loops[0].iter.args[0]) == "spec.blocks"))
    R.check(ok, r_ord, RS, ERS, norm(loops[0]) if loops else "for block in spec.blocks", "blocks are not processed in declaration order", loops[0].lineno if loops else fn.lineno)
    apps = [c for c in calls_in(fn) if call_attr(c) == "append" and dotted_name(c.func.value) == "all_block_runs"]
    R.check(len(apps) == 1 and bool(loops) and any(a is loops[0] for a in ancestors(apps[0])), r_ord, RS, ERS, "all_block_runs.append(block_runs)", "block results are not collected in declaration order", apps[0].lineno if apps else fn.lineno)
    top = [c for c in calls_in(fn) if call_name(c) in ("itertools.product", "product")]
    ok = len(top) == 1 and len(top[0].args) == 1 and isinstance(top[0].args[0], ast.Starred) and dotted_name(top[0].args[0].value) == "all_block_runs"
    R.check(ok, r_ord, RS, ERS, "itertools.product(*all_block_runs)", "top-level combination is not the product of the block run lists in declaration order", top[0].lineno if top else fn.lineno)
    # ctx outer / src inner
    nest = [n for n in ast.walk(fn) if isinstance(n, ast.For) and dotted_name(n.iter) == "context_runs" and any(isinstance(m, ast.For) and dotted_name(m.iter) == "source_runs" for m in n.body)]
    R.check(len(nest) == 1, r_ord, RS, ERS, "for ctx in context_runs: for src in source_runs", "inside a combinatorial block the source no longer varies fastest", fn.lineno)
    # index-aligned combine
    idx_loops = [n for n in ast.walk(fn) if isinstance(n, ast.For) and isinstance(n.iter, ast.Call) and call_attr(n.iter) == "range" and any(isinstance(m, ast.For) and dotted_name(m.iter) == "all_block_runs" for m in n.body)]
    R.check(len(idx_loops) == 1, r_ord, RS, ERS, "for idx in range(total): merge runs[idx] of every block", "combine=by_position does not merge aligned positions of all blocks", fn.lineno)

    # ------------------------------------------------------------------ D2 guards
    r_g = R.rule("C08-D2-rejection-guards", "duplicate keys (within a block, across blocks, after rename), missing selected columns and mismatched lengths (key, context-vs-source, block level) are each tested by a guard that raises the configuration error and dominates the merge it protects; the neutral [{}] stands in only for an absent side", 9)

    def guard(fnode: ast.FunctionDef, label: str, pred, want_exc=("ConfigurationError", "PipelineConfigurationError")) -> Optional[ast.If]:
        hits = [n for n in ast.walk(fnode) if isinstance(n, ast.If) and pred(n.test)]
        good = [n for n in hits if _raises(n.body) in want_exc]
        R.check(bool(good), r_g, RS, fnode.name, label, f"guard `{label}` is missing or no longer raises the configuration error", (hits[0].lineno if hits else fnode.lineno))
        return good[0] if good else None

    def len_set_mismatch(var: str):
        def p(t: ast.AST) -> bool:
            if isinstance(t, ast.BoolOp):
                return any(p(v) for v in t.values) and isinstance(t.op, ast.And) and all(p(v) or dotted_name(v) == var for v in t.values)
            return isinstance(t, ast.Compare) and len(t.ops) == 1 and isinstance(t.ops[0], (ast.Gt, ast.NotEq)) and isinstance(t.comparators[0], ast.Constant) and t.comparators[0].value == 1 and ast.unparse(t.left) == f"len(set({var}))"
        return p

    g1 = guard(ee, "by_position: len(set(lengths)) > 1", len_set_mismatch("lengths"))
    g2 = guard(fn, "block: len(set(sizes)) != 1 (context vs source / blocks)", len_set_mismatch("sizes"))
    n_sizes = len([n for n in ast.walk(fn) if isinstance(n, ast.If) and len_set_mismatch("sizes")(n.test) and _raises(n.body)])
    R.check(n_sizes == 2, r_g, RS, ERS, "two size-mismatch guards (block level, combine level)", f"{n_sizes} size-mismatch guard(s) found instead of 2", fn.lineno)
    guard(fn, "duplicate_keys (within block / across blocks)", lambda t: dotted_name(t) == "duplicate_keys")
    n_dup = len([n for n in ast.walk(fn) if isinstance(n, ast.If) and dotted_name(n.test) == "duplicate_keys" and _raises(n.body)])
    R.check(n_dup == 2, r_g, RS, ERS, "two duplicate-key guards", f"{n_dup} duplicate-key guard(s) found instead of 2", fn.lineno)
    dk = assigned_value(fn, "duplicate_keys")
    ok = len(dk) == 2 and all(isinstance(v, ast.Call) and call_attr(v) == "intersection" for v in dk) and any("seen_keys" in ast.unparse(v) for v in dk) and any("context_entries" in ast.unparse(v) and "source_entries" in ast.unparse(v) for v in dk)
    R.check(ok, r_g, RS, ERS, "duplicate_keys = intersections (context∩source, seen∩current)", "duplicate detection no longer compares the right key sets", fn.lineno)
    upd = [c for c in calls_in(fn) if call_attr(c) == "update" and dotted_name(c.func.value) == "seen_keys"]
    ck = assigned_value(fn, "current_keys")
    R.check(bool(upd) and bool(ck) and "context_entries" in ast.unparse(ck[0]) and "source_entries" in ast.unparse(ck[0]), r_g, RS, ERS, "seen_keys.update(context ∪ source keys)", "keys of a block are not all remembered for the cross-block duplicate test", fn.lineno)
    guard(ls, "rename collision: target in renamed", lambda t: isinstance(t, ast.Compare) and isinstance(t.ops[0], ast.In) and dotted_name(t.comparators[0]) == "renamed")
    guard(ls, "select: missing columns", lambda t: dotted_name(t) == "missing")
    # guard dominance of the index-based expansions
    for fnode, var, gnode in ((ee, "lengths", g1),):
        if gnode is None:
            continue
        g = CFG(fnode, may_raise=lambda p: set())
        targets = [n.id for n in g.nodes if n.ast is not None and n.kind == "stmt" and isinstance(n.ast, ast.Return) and any(isinstance(x, ast.ListComp) and isinstance(x.elt, ast.DictComp) for x in ast.walk(n.ast))]
        holds, path, guards_n = returns_only_through(g, lambda e, v=var: (False if len_set_mismatch(v)(e) else None), targets=targets)
        R.check(holds and guards_n > 0 and bool(targets), r_g, RS, fnode.name, "equal-length test dominates the positional expansion", "positions are aligned without the equal-length test having passed", fnode.lineno, path)
    # neutral element only for an absent side
    neutral_bad = []
    neutral_ok = 0
    for n in ast.walk(fn):
        if isinstance(n, ast.BoolOp) and isinstance(n.op, ast.Or) and any(isinstance(v, ast.List) and len(v.elts) == 1 and isinstance(v.elts[0], ast.Dict) and not v.elts[0].keys for v in n.values):
            if any(isinstance(v, ast.Call) and call_attr(v) == "_expand_entries" for v in n.values):
                neutral_bad.append(n)
        if isinstance(n, ast.IfExp) and isinstance(n.orelse, ast.List) and len(n.orelse.elts) == 1 and isinstance(n.orelse.elts[0], ast.Dict):
            ent = n.body.args[0] if isinstance(n.body, ast.Call) and n.body.args else None
            if dotted_name(n.test) == dotted_name(ent) and dotted_name(n.test) in ("context_entries", "source_entries"):
                neutral_ok += 1
            else:
                neutral_bad.append(n)
    for b in neutral_bad:
        R.violation(r_g, RS, ERS, norm(stmt_of(b))[:120], "the neutral run [{}] replaces an *empty expansion* (e.g. a key with an empty value list) instead of an *absent* side: runs appear that lack declared keys and empty blocks no longer yield zero runs", b.lineno)
    R.check(neutral_ok == 2 or bool(neutral_bad), r_g, RS, ERS, "[{}] only when the entries mapping is empty (context, source)", "neutral element selection not recognised", fn.lineno) if not neutral_bad else None

    # ------------------------------------------------------------------ D3 cap before materialisation
    r_cap = R.rule("C08-D3-cap-before-materialisation", "every statement that materialises something of product size is dominated by a test `size > spec.max_runs` (size computed from len()s only) whose true branch raises RunSpaceMaxRunsExceededError", 4)
    g = CFG(fn, may_raise=lambda p: set())

    def cap_atom(e: ast.AST) -> Optional[bool]:
        # atom = "within cap"; the test `total > spec.max_runs` is its negation
        if isinstance(e, ast.Compare) and len(e.ops) == 1 and isinstance(e.ops[0], ast.Gt) and dotted_name(e.comparators[0]) == "spec.max_runs":
            left = e.left
            vals = assigned_value(fn, left.id) if isinstance(left, ast.Name) else [left]
            # the size must not be the length of an already materialised combination
            if any(isinstance(c, ast.Call) and call_attr(c) == "len" and dotted_name(c.args[0]) in ("combined_runs", "block_runs") for v in vals for c in ast.walk(v)):
                return None
            return False
        if isinstance(e, ast.Compare) and len(e.ops) == 1 and isinstance(e.ops[0], ast.LtE) and dotted_name(e.comparators[0]) == "spec.max_runs":
            return True
        return None

    cap_ifs = [n for n in g.nodes if n.kind == "if" and n.part is not None and edges_guaranteeing(n.part, cap_atom)]
    for n in cap_ifs:
        exc = _raises(n.ast.body)
        R.check(exc == "RunSpaceMaxRunsExceededError", r_cap, RS, ERS, norm(n.ast), f"exceeding the cap raises {exc} instead of the max-runs error", n.line)
        if exc:
            rc = n.ast.body[-1].exc
            ok = isinstance(rc, ast.Call) and dotted_name(kwarg(rc, "actual_runs")) == dotted_name(n.part.left) and dotted_name(kwarg(rc, "max_runs")) == "spec.max_runs"
            R.check(ok, r_cap, RS, ERS, norm(n.ast) + " [payload]", "the max-runs error does not carry the projected size and the limit", n.line)
    sites = _product_sites(fn)
    # calls of _expand_entries in combinatorial mode materialise a product inside the callee
    for c in calls_in(fn):
        if call_attr(c) == "_expand_entries" and len(c.args) == 2:
            m = c.args[1]
            if (isinstance(m, ast.Constant) and m.value == "combinatorial") or isinstance(m, ast.Name):
                sites.append(stmt_of(c))
    uniq: List[ast.AST] = []
    for s in sites:
        if not any(s is t for t in uniq):
            uniq.append(s)
    if len(uniq) < 3:
        raise AnalysisError(f"expand_run_space: only {len(uniq)} product-materialisation site(s) recognised (3+ confirmed by reading)")
    blocked = set()
    for n in cap_ifs:
        for e in edges_guaranteeing(n.part, cap_atom):
            blocked.add((n.id, e))
    seen = g.reach([g.entry], blocked_edges=blocked)
    for s in uniq:
        ids = g.nodes_for(s)
        if not ids:
            continue
        unguarded = ids[0] in seen
        R.check(not unguarded, r_cap, RS, ERS, norm(s)[:110], "a structure of product size is built before (or without) the max_runs test: a specification far larger than the cap is fully materialised first", s.lineno, g.path_to(seen, ids[0])[-6:] if unguarded else None)
    # the size used by the top-level test is the product / common size of all blocks
    tot = [n for n in ast.walk(fn) if isinstance(n, ast.AugAssign) and isinstance(n.op, ast.Mult) and dotted_name(n.target) == "total"]
    ok = len(tot) == 1 and isinstance(tot[0].value, ast.Call) and call_attr(tot[0].value) == "len" and any(isinstance(a, ast.For) and dotted_name(a.iter) == "all_block_runs" for a in ancestors(tot[0]))
    R.check(ok or not cap_ifs, r_cap, RS, ERS, "total = product of len(runs) over all blocks", "the projected size is not the product of all block sizes", fn.lineno)

    # ------------------------------------------------------------------ D4 error classes
    r_err = R.rule("C08-D4-error-classes", "expansion raises only the documented configuration error and max-runs error", 5)
    for f in (fn, ee, ls, repo.func(RS, "_load_source_file")):
        for n in walk_no_nested(f):
            if isinstance(n, ast.Raise) and n.exc is not None:
                t = n.exc.func if isinstance(n.exc, ast.Call) else n.exc
                R.check(dotted_name(t) in ("ConfigurationError", "RunSpaceMaxRunsExceededError"), r_err, RS, f.name, norm(n)[:90], "an undocumented exception class is raised for an invalid run space", n.lineno)
