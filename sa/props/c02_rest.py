"""Remaining C02 rules (D1, D3, D5) - filled in below."""
from ..engine import Repo
from ..report import Report


def run(repo: Repo, R: Report) -> None:
    return None
